/-
Oracle/C16.lean — line-protocol oracle for property C16 (core only; compiled to `oracle_c16`).
Request `<op> <args…> => <implementation output>`, answer `model=<…> holds=<0|1>`.

  xw <framed> <len> <write sizes csv> <stream hex> => <uncompressed block sizes csv>
       model = block partition predicted by Model/Xerial.writeAll (block codec = identity: sizes only);
       holds = the stream parses under Spec/Xerial.parse into that many blocks (framed) resp. the
       implementation produced exactly one block of the payload's size (unframed).
  xwf <len> <script n:e,…> <stream hex> => <block sizes csv>   io.Copy into the framed writer (ReadFrom) from a scripted
       source (Model/Source): model = block partition of Model/XerialIO.readFromLoop for that script
  xr <framed> <block sizes csv> <read buffer sizes csv> => <Read return values csv>
       model = Model/Xerial.readSizes on the described reference stream; holds = equal ∧ the sizes add up.
  xrcut <block sizes csv> <m> <kind> <read buffer sizes csv> => <Read return values csv, a second 0 for an error>
       framed reference stream that ends early after m blocks (kind 0: on the boundary, 1..3: inside the length field,
       4: right after it, 5: inside the block): model = Model/Xerial.readSizes on the cut stream; holds = equal ∧ the model's output is a
       prefix of the payload (Props/C16 truncated_stream_prefix on the instance)
  rt|out|in <codec> <kind> <len:crc> [..] => ok <len:crc>      model = "ok <len:crc>" (losslessness / interop)
  hist <codec> <what> <len:crc payload> <len:crc stream> => ok <len:crc> <len:crc>
  ovl <codec> <what> <p1> <p2> <p3> => ok <p1> <p2> <p3> <p1> <p2> <p3>   three writers, then three readers, open at once
  cfg <spec> round<i> <len:crc payload> <len:crc pristine stream> => ok <payload> <stream>   configurations of one kind interleaved
  srcerr <codec> <len:crc> cut<k>/<n> => sound      the source fails after k bytes: an error or the whole payload
  wrerr <codec> <len:crc> cut<k>/<n> => sound       the sink fails after k bytes: Write or Close reports an error
  stress <codec> <G> => ok <G> none                  tight open/close loops on many goroutines
  conc <codec> <G> => ok <G> <first failure>
-/
import KafkaVerif.Base.Proto
import KafkaVerif.Model.Xerial
import KafkaVerif.Model.XerialIO

namespace KV.OracleC16
open KV KV.RW KV.Model.Xerial

def idCodec : Codec := ⟨id, some, fun b => some b.length⟩

def parseNats (s : String) : Option (List Nat) :=
  if s == "-" then some [] else (s.splitOn ",").mapM (·.toNat?)

def showNats (l : List Nat) : String :=
  if l.isEmpty then "-" else ",".intercalate (l.map toString)

def zerosOf (n : Nat) : Bytes := List.replicate n 1

def answer (model : String) (holds : Bool) : String := s!"model={model} holds={if holds then 1 else 0}"

def step (line : String) : String :=
  match line.splitOn " => " with
  | [req, impl] =>
    match words req with
    | ["xw", fr, len, chunks, hx] =>
      match len.toNat?, parseNats chunks, ofHex hx with
      | some len, some chunks, some stream =>
        let framed := fr == "1"
        let w := close idCodec (writeAll idCodec (newWriter framed) (chunks.map zerosOf))
        let sizes := w.blocks.map (·.length)
        let model := showNats sizes
        let total := sizes.foldl (· + ·) 0 == len && chunks.foldl (· + ·) 0 == len
        let specOk := if framed then
            match Spec.Xerial.parse stream with
            | some bs => bs.length == sizes.length && sizes.all (fun n => 0 < n && n ≤ blockCap)
            | none => false
          else sizes.length == 1 && stream.take 8 != Spec.Xerial.magic
        answer model (model == impl && total && specOk)
      | _, _, _ => "bad-op"
    | ["xwf", len, script, hx] =>
      let parseAns (t : String) : Option Model.Source.Ans := match t.splitOn ":" with
        | [n, e] => n.toNat?.map (fun n => ⟨n, e == "1"⟩)
        | _ => none
      let sc : Option (List Model.Source.Ans) := if script == "-" then some [] else (script.splitOn ",").mapM parseAns
      match len.toNat?, sc, ofHex hx with
      | some len, some sc, some stream =>
        let src : Model.Source.Src := ⟨zerosOf len, sc⟩
        let w := close idCodec (readFromLoop idCodec (Model.Source.fuelFor src) (newWriter true) src).1
        let sizes := w.blocks.map (·.length)
        let model := showNats sizes
        let specOk := match Spec.Xerial.parse stream with
          | some bs => bs.length == sizes.length && sizes.all (fun n => 0 < n && n ≤ blockCap)
          | none => false
        answer model (model == impl && sizes.foldl (· + ·) 0 == len && specOk)
      | _, _, _ => "bad-op"
    | ["xr", fr, blocks, asked] =>
      match parseNats blocks, parseNats asked with
      | some blocks, some asked =>
        let framed := fr == "1"
        let stream := if framed then Spec.Xerial.frame (blocks.map zerosOf) else (blocks.map zerosOf).flatten
        let ns := readSizes idCodec (newReader stream) asked
        let model := showNats ns
        answer model (model == impl && ns.foldl (· + ·) 0 == blocks.foldl (· + ·) 0)
      | _, _ => "bad-op"
    | ["xrcut", blocks, m, kind, asked] =>
      match parseNats blocks, m.toNat?, kind.toNat?, parseNats asked with
      | some blocks, some m, some kind, some asked =>
        -- the identity block codec: a block of n bytes takes 4 + n bytes; `kind` 1..3 = that many bytes of the next
        -- length field, 4 = the length field and none of the block (reported as a CLEAN end: io.ReadFull answers io.EOF),
        -- 5 = the length field and a strict non-empty part of the block (an error)
        -- (kind 5: one byte of the block, which the model makes at least 2 bytes long so that the part is strict)
        let mblocks := blocks.take m ++ (blocks.drop m).map (fun n => max n 2)
        let full := Spec.Xerial.frame (mblocks.map zerosOf)
        let cut := 16 + ((blocks.take m).map (· + 4)).foldl (· + ·) 0 + kind
        let stream := full.take cut
        let ns := readSizes idCodec (newReader stream) asked
        let model := showNats ns
        -- Props/C16 truncated_stream_prefix on the instance: the bytes delivered are a prefix of the payload
        let out := Model.Xerial.readAllOut idCodec (newReader stream) asked
        let pre := out == ((mblocks.map zerosOf).flatten).take out.length
        answer model (model == impl && pre)
      | _, _, _, _ => "bad-op"
    | ["cfg", _spec, _round, p, st] => let model := s!"ok {p} {st}"; answer model (model == impl)
    | ["srcerr", _codec, _sum, _cut] => answer "sound" (impl == "sound")
    | ["wrerr", _codec, _sum, _cut] => answer "sound" (impl == "sound")
    | ["stress", _codec, g] =>
      let model := s!"ok {g} none"
      answer model (model == impl)
    | op :: _codec :: _kind :: want :: _ =>
      if op == "rt" || op == "out" || op == "in" then
        let model := s!"ok {want}"
        answer model (model == impl)
      else if op == "ovl" then
        match words req with
        | [_, _, _, a, b, c] => let model := s!"ok {a} {b} {c} {a} {b} {c}"; answer model (model == impl)
        | _ => "bad-op"
      else if op == "hist" then
        match words req with
        | [_, _, _, p, s] => let model := s!"ok {p} {s}"; answer model (model == impl)
        | _ => "bad-op"
      else "bad-op"
    | ["conc", _codec, g] =>
      let model := s!"ok {g} none"
      answer model (model == impl)
    | _ => "bad-op"
  | _ => "bad-request"

end KV.OracleC16

def main : IO Unit := KV.runOracle () (fun _ l => ((), KV.OracleC16.step l))
