/-
Oracle/C19.lean — line-protocol oracle for property C19 (core only; compiled to `oracle_c19`).
Request:  `<op> <args…> => <implementation output>`     Answer: `model=<model output> holds=<0|1>`
`model`: Model/ListOffsets.lean (split, merge, Client.ListOffsets mapping) and Model/Seek.lean; for the plain field
mappings (OffsetFetch, OffsetCommit, ConsumerOffsets, Metadata, ReadPartitions) the model *is* the reference value.
`holds`: the monitor on the implementation's output, computed from the cluster state in the op with
Spec/Offsets.lean and plain list functions (never through split/merge/seek of the model).
-/
import KafkaVerif.Base.Proto
import KafkaVerif.Model.ListOffsets
import KafkaVerif.Model.Seek
import KafkaVerif.Spec.Offsets
import KafkaVerif.Model.Mappings

namespace KV.OracleC19
open KV KV.ListOffsets KV.Seek
open KV.Spec.Offsets

def answer (model : String) (holds : Bool) : String :=
  s!"model={model} holds={if holds then 1 else 0}"

def dash (s : String) : String := if s.isEmpty then "-" else s
def splitD (s : String) (sep : String) : List String := if s == "-" || s.isEmpty then [] else s.splitOn sep
def strSort (l : List String) : List String := sortBy (fun a b => a < b) l

/-! ### parsing -/

def parseReq (s : String) : Option (List (String × List (Int × Int))) :=
  (splitD s "|").mapM fun t =>
    match t.splitOn ":" with
    | [n, ps] => do
      let ps ← (splitD ps ".").mapM fun p =>
        match p.splitOn "@" with
        | [a, b] => do let a ← a.toInt?; let b ← b.toInt?; pure (a, b)
        | _ => none
      pure (n, ps)
    | _ => none

def parseResult (s : String) : Option Result :=
  match s.splitOn ":" with
  | ["fail", m] => some (.err m)
  | ["ok", th, e] => do
    let th ← th.toInt?
    match e.splitOn "/" with
    | [t, p, er, ts, off, ep] => do
      let p ← p.toInt?; let er ← er.toInt?; let ts ← ts.toInt?; let off ← off.toInt?; let ep ← ep.toInt?
      pure (.ok ⟨th, [(t, [⟨p, er, ts, off, ep⟩])]⟩)
    | _ => none
  | _ => none

def partKey (p : ResPart) : List Int := [p.partition, p.offset, p.timestamp, p.error, p.leaderEpoch]

def lexLt : List Int → List Int → Bool
  | [], [] => false
  | [], _ => true
  | _, [] => false
  | a :: as, b :: bs => if a != b then a < b else lexLt as bs

def showPart (p : ResPart) : String := s!"{p.partition}/{p.error}/{p.timestamp}/{p.offset}/{p.leaderEpoch}"

def showResponse (r : Response) : String :=
  let ts := r.topics.map fun (t, ps) =>
    s!"{t}:{",".intercalate ((sortBy (fun a b => lexLt (partKey a) (partKey b)) ps).map showPart)}"
  s!"{r.throttle}|{dash ("|".intercalate ts)}"

def toRequest (iso : Int) (ts : List (String × List (Int × Int))) : Request :=
  { replicaID := -1, isolation := iso, topics := ts.map fun (t, ps) => (t, ps.map fun (p, ts) => ⟨p, -1, ts⟩) }

/-! ### merge: reference -/

/-- expected entry list computed positionally, without the model's split/merge -/
def mergeExpected (ts : List (String × List (Int × Int))) (rs : List Result) : List (String × ResPart) :=
  let flatReq := ts.flatMap fun (t, ps) => ps.map fun (p, ts) => (t, p, ts)
  (flatReq.zip rs).flatMap fun ((t, p, rts), r) =>
    match r with
    | .err _ => [(t, (⟨p, -1, -1, -1, -1⟩ : ResPart))]
    | .ok res => res.topics.flatMap fun (tn, ps) => ps.map fun a =>
        (tn, if tn == t && a.partition == p then { a with timestamp := rts } else a)

def parseMerged (s : String) : Option (Int × List (String × ResPart)) :=
  match s.splitOn "|" with
  | th :: rest => do
    let th ← th.toInt?
    let es ← (rest.filter (· != "-")).mapM fun t =>
      match t.splitOn ":" with
      | [n, ps] => (splitD ps ",").mapM fun p =>
          match p.splitOn "/" with
          | [a, b, c, d, e] => do
            let a ← a.toInt?; let b ← b.toInt?; let c ← c.toInt?; let d ← d.toInt?; let e ← e.toInt?
            pure (n, (⟨a, b, c, d, e⟩ : ResPart))
          | _ => none
      | _ => none
    pure (th, es.flatten)
  | _ => none

def entryStr (e : String × ResPart) : String := s!"{e.1}:{showPart e.2}"

def mergeHolds (ts : List (String × List (Int × Int))) (rs : List Result) (impl : String) : Bool :=
  let allFailed := !rs.isEmpty && rs.all isErr
  if allFailed then
    match rs with
    | .err e :: _ => impl == s!"err {e}"
    | _ => false
  else
    match parseMerged impl with
    | some (th, es) =>
      let thr := rs.foldl (fun acc r => match r with | .ok res => if res.throttle > acc then res.throttle else acc | _ => acc) 0
      th == thr && strSort (es.map entryStr) == strSort ((mergeExpected ts rs).map entryStr)
    | none => false

/-! ### Client.ListOffsets -/

inductive PState where
  | ok (p : ClusterPart)
  | down
  | unknown

def parseTimes (s : String) : Option (List (Int × Int)) :=
  (splitD s "+").mapM fun e =>
    match e.splitOn "@" with
    | [a, b] => do let a ← a.toInt?; let b ← b.toInt?; pure (a, b)
    | _ => none

def parseState (s : String) : Option (List ((String × Int) × PState)) :=
  (splitD s ";").mapM fun e =>
    match e.splitOn "=" with
    | [k, v] =>
      match k.splitOn "/" with
      | [t, p] => do
        let p ← p.toInt?
        let st ← (match v.splitOn "," with
          | ["down"] => some PState.down
          | ["unknown"] => some PState.unknown
          | ["ok", f, l, e, tm] => do
            let f ← f.toInt?; let l ← l.toInt?; let e ← e.toInt?; let tm ← parseTimes tm
            pure (PState.ok ⟨0, f, l, tm, e⟩)
          | _ => none)
        pure ((t, p), st)
      | _ => none
    | _ => none

def stateOf (st : List ((String × Int) × PState)) (t : String) (p : Int) : PState :=
  match st.find? (fun e => e.1 == (t, p)) with
  | some e => e.2
  | none => .unknown

/-- the environment: what the transport hands back for the part asking (t, p, ts) -/
def partResult (st : List ((String × Int) × PState)) (t : String) (p ts : Int) : Result :=
  match stateOf st t p with
  | .down => .err "dial"
  | .unknown => .ok ⟨0, [(t, [⟨p, 3, -1, -1, -1⟩])]⟩
  | .ok cp => let (e, ts', off) := listOffsetAnswer cp ts; .ok ⟨0, [(t, [⟨p, e, ts', off, -1⟩])]⟩

def showMs (ts : Int) : String := if ts ≤ 0 then "z" else toString ts

def showRecord (t : String) (r : PartitionOffsets) : String :=
  let offs := strSort (r.offsets.map fun (o, ts) => s!"{o}@{showMs ts}")
  s!"{t}/{r.partition}:{r.first}/{r.last}/{r.error}/{dash ("+".intercalate offs)}"

def clientModel (ts : List (String × List (Int × Int))) (st : List ((String × Int) × PState)) : String :=
  let req := clientRequest 0 ts
  let parts := split req
  let rs := (flat req).map fun (t, p) => partResult st t p.partition p.timestamp
  match merge parts rs with
  | .error _ => "err"
  | .ok resp =>
    match clientApply (clientInit ts) resp with
    | none => "panic"
    | some recs => dash ("|".intercalate (strSort (recs.map fun ((t, _), r) => showRecord t r)))

def clientHolds (ts : List (String × List (Int × Int))) (st : List ((String × Int) × PState)) (impl : String) : Bool :=
  let asked := ts.flatMap fun (t, ps) => ps.map fun (p, ts) => (t, p, ts)
  let keysAsked := (asked.map fun (t, p, _) => (t, p)).eraseDups
  let allDown := !asked.isEmpty && asked.all fun (t, p, _) => match stateOf st t p with | .down => true | _ => false
  if allDown then impl == "err" else
  let recs := splitD impl "|"
  recs.length == keysAsked.length &&
  keysAsked.all fun (t, p) =>
    match recs.find? (·.startsWith s!"{t}/{p}:") with
    | none => false
    | some rec =>
      match ((rec.drop (s!"{t}/{p}:").length).toString).splitOn "/" with
      | [f, l, e, offs] =>
        let mine := asked.filter fun (t', p', _) => t' == t && p' == p
        match stateOf st t p with
        | .down => e != "0"
        | .unknown => e == "3"
        | .ok cp =>
          if cp.listErr != 0 then e == toString cp.listErr
          else
            let wantF := if mine.any (fun (_, _, ts) => ts == -2) then cp.first else -1
            let wantL := if mine.any (fun (_, _, ts) => ts == -1) then cp.last else -1
            let timeQs := (mine.filter fun (_, _, ts) => ts != -1 && ts != -2).map fun (_, _, ts) => ts
            let wantKeys := (timeQs.map fun ts => (listOffsetAnswer cp ts).2.2).eraseDups
            let got := (splitD offs "+").map fun x => x.splitOn "@"
            e == "0" && f == toString wantF && l == toString wantL &&
            got.length == wantKeys.length &&
            got.all fun kv => match kv with
              | [k, v] => wantKeys.any (fun w => toString w == k) &&
                  timeQs.any (fun ts => toString (listOffsetAnswer cp ts).2.2 == k && showMs ts == v)
              | _ => false
      | _ => false

/-! ### Conn.Seek / ReadOffset -/

def showOffsetState (cur : Int) : String := let (o, w) := offsetOf cur; s!"{o},{w}"

def seekModel (cur off w : Int) (dc : Bool) (offs : Offsets) : String :=
  match seek cur off w dc offs with
  | .ok n => s!"ok {n} {showOffsetState n}"
  | .outOfRange => s!"err range {showOffsetState cur}"
  | .readError => s!"err read {showOffsetState cur}"
  | .badWhence => s!"err whence {showOffsetState cur}"

def seekRef (cur off w : Int) (dc : Bool) (offs : Option (Int × Int)) : String :=
  let st (c : Int) : String := if c == -2 then "0,0" else if c == -1 then "0,2" else s!"{c},1"
  match seekSpec cur off w dc offs with
  | .ok n => s!"ok {n} {st n}"
  | .outOfRange => s!"err range {st cur}"
  | .readError => s!"err read {st cur}"
  | .badWhence => s!"err whence {st cur}"

def readOffsetRef (kind : String) (ts : Int) (cp : ClusterPart) : String :=
  let one (q : Int) : String := let (e, _, o) := listOffsetAnswer cp q; if e != 0 then s!"{e} 0" else s!"0 {o}"
  match kind with
  | "first" => one (-2)
  | "last" => one (-1)
  | "time" => one ts
  | _ =>
    let one (q : Int) : Except Int Int := let (e, _, o) := listOffsetAnswer cp q; if e != 0 then .error e else .ok o
    match KV.Seek.readOffsets (one (-2)) (one (-1)) with
    | .error e => s!"{e} 0 0"
    | .ok (f, l) => s!"0 {f} {l}"

/-! ### group offsets / metadata mappings (reference values) -/

/-- committed state: (topic, partition) → error code or (offset, metadata) -/
inductive CState where
  | err (e : Int)
  | val (off : Int) (md : String)

def parseCState (s : String) : Option (List ((String × Int) × CState)) :=
  (splitD s ";").mapM fun e =>
    match e.splitOn "=" with
    | [k, v] =>
      match k.splitOn "/" with
      | [t, p] => do
        let p ← p.toInt?
        if v.startsWith "E" then do let c ← (v.drop 1).toString.toInt?; pure ((t, p), CState.err c)
        else match v.splitOn "~" with
          | [o, m] => do let o ← o.toInt?; pure ((t, p), CState.val o m)
          | _ => none
      | _ => none
    | _ => none

def showCState (st : List ((String × Int) × CState)) : String :=
  dash (";".intercalate (strSort (st.map fun ((t, p), v) =>
    match v with
    | .err e => s!"{t}/{p}=E{e}"
    | .val o m => s!"{t}/{p}={o}~{m}")))

def ofetchRef (st : List ((String × Int) × CState)) (req : String) (ver : Int := 5) : Option String := do
  -- "nil" / "empty" user map = all topics of the group (a NULL topics array on the wire): every partition the
  -- group has committed, by topic and ascending partition
  let allTs : List (String × List Int) :=
    let names := sortBy (fun a b => a < b) ((st.map (·.1.1)).eraseDups)
    names.map fun n => (n, sortBy (fun a b => a < b) ((st.filter (·.1.1 == n)).map (·.1.2)))
  let parsed : Option (List (String × List Int)) := (splitD req "|").mapM fun (t : String) =>
    match t.splitOn ":" with
    | [n, ps] => do let ps ← (splitD ps ".").mapM (·.toInt?); pure (n, ps)
    | _ => none
  let ts ← if req == "nil" || req == "empty" then some allTs else parsed
  let ts := sortBy (fun a b => a.1 < b.1) (ts.filter (·.1 != "*"))
  let groupErr : Option Int := match st.find? (fun e => e.1 == ("*", 0)) with | some (_, .err g) => some g | _ => none
  let body := ts.map fun (n, ps) =>
    s!"{n}:" ++ ",".intercalate (ps.map fun p =>
      if let some g := groupErr then s!"{p}/-1//{g}" else
      match st.find? (fun e => e.1 == (n, p)) with
      | some (_, .err e) => s!"{p}/-1//{e}"
      | some (_, .val o m) => s!"{p}/{o}/{m}/0"
      | none => s!"{p}/-1//0")
  -- OffsetFetch has a top-level error code from v2 on; before, a group-level failure is reported on every partition only
  -- … and from v2 on the broker then lists no partitions at all
  if ver ≥ 2 && groupErr.isSome then pure s!"{groupErr.getD 0};"
  else pure s!"{if ver ≥ 2 then groupErr.getD 0 else 0};{"|".intercalate body}"

def knownTopics : List String := ["a", "b", "c", "d", "e", "ab"]

def ocommitRef (st : List ((String × Int) × CState)) (req : String) : Option String := do
  let ts ← (splitD req "|").mapM fun t =>
    match t.splitOn ":" with
    | [n, ps] => do
      let ps ← (splitD ps ",").mapM fun p =>
        match p.splitOn "/" with
        | [a, o, m] => do let a ← a.toInt?; let o ← o.toInt?; pure (a, o, m)
        | _ => none
      pure (n, ps)
    | _ => none
  let ts := sortBy (fun a b => a.1 < b.1) ts
  let errOf (n : String) (p : Int) : Int :=
    match st.find? (fun e => e.1 == (n, p)) with
    | some (_, .err e) => e
    | _ => if knownTopics.contains n then 0 else 3
  let resp := "|".intercalate (ts.map fun (n, ps) => s!"{n}:" ++ ",".intercalate (ps.map fun (p, _, _) => s!"{p}/{errOf n p}"))
  let st' := ts.foldl (fun st (n, ps) => ps.foldl (fun st (p, o, m) =>
    if errOf n p != 0 then st
    else (st.filter fun e => e.1 != (n, p)) ++ [((n, p), CState.val o m)]) st) st
  pure s!"{resp} {showCState st'}"

/-- ConsumerOffsets reference: a failure of the whole OffsetFetch (group-level error) is reported as an error; a failure
on one partition is reported (the call returns an error) and that partition is NOT presented as "nothing committed";
every other partition carries the coordinator's committed offset (−1 when nothing is committed) -/
def coffsetsRef (st : List ((String × Int) × CState)) (t : String) (np : Nat) : String :=
  match st.find? (fun e => e.1 == ("*", 0)) with
  | some (_, .err g) => s!"err {g} -"
  | _ =>
    let parts := (List.range np).map fun p => (p, st.find? (fun e => e.1 == (t, Int.ofNat p)))
    let good := parts.filterMap fun (p, e) => match e with
      | some (_, .val o _) => some s!"{p}={o}"
      | some (_, .err _) => none
      | none => some s!"{p}=-1"
    let firstErr := parts.findSome? fun (_, e) => match e with | some (_, .err c) => some c | _ => none
    match firstErr with
    | some c => s!"err {c} {dash (",".intercalate good)}"
    | none => dash (",".intercalate good)

/-- ConsumerOffsets through the model: the coordinator's per-partition answers for the topic's partitions, mapped by
`Mappings.consumerOffsets` -/
def coffsetsModel (st : List ((String × Int) × CState)) (t : String) (np : Nat) : String :=
  let groupErr : Int := match st.find? (fun e => e.1 == ("*", 0)) with | some (_, .err g) => g | _ => 0
  let fetched : List KV.Mappings.UOFPart := (List.range np).map fun p =>
    match st.find? (fun e => e.1 == (t, Int.ofNat p)) with
    | some (_, .val o m) => ⟨Int.ofNat p, o, m, 0⟩
    | some (_, .err c) => ⟨Int.ofNat p, -1, "", c⟩
    | none => ⟨Int.ofNat p, -1, "", 0⟩
  match KV.Mappings.consumerOffsets groupErr fetched with
  | .error g => s!"err {g} -"
  | .ok (m, e) =>
    let body := dash (",".intercalate ((sortBy (fun a b => decide (a.1 < b.1)) m).map fun (p, o) => s!"{p}={o}"))
    match e with
    | some (_, code) => s!"err {code} {body}"
    | none => body

/-- metadata reference: the op's cluster description is already in the canonical output format -/
def metaRef (filter : String) (cluster : String) : Option String :=
  match cluster.splitOn "/" with
  | [c, bs, ts] =>
    if filter == "nil" then some cluster
    else
      let all := splitD ts "|"
      let pickT (n : String) : String :=
        match all.find? (·.startsWith (n ++ ":")) with
        | some t => t
        | none => s!"{n}:3:0:-"
      some s!"{c}/{bs}/{dash ("|".intercalate ((splitD filter ",").map pickT))}"
  | _ => none

/-- parse the C19 cluster description into the metadata answer a broker gives for all topics -/
def parseCluster (cluster : String) : Option KV.Routing.MResponse :=
  match cluster.splitOn "/" with
  | [c, bs, ts] => do
    let c ← c.toInt?
    let bs ← (splitD bs ",").mapM fun (b : String) => do let i ← b.toInt?; pure (⟨i, s!"b{i}", 9092, ""⟩ : KV.Routing.MBroker)
    let ints (x : String) : Option (List Int) := (splitD x ".").mapM (·.toInt?)
    let ts ← (splitD ts "|").mapM fun (t : String) =>
      match t.splitOn ":" with
      | [n, e, inl, ps] => do
        let e ← e.toInt?
        let ps ← (splitD ps ",").mapM fun (p : String) =>
          match p.splitOn "=" with
          | [i, l, pe, r, isr] => do
            let i ← i.toInt?; let l ← l.toInt?; let pe ← pe.toInt?; let r ← ints r; let isr ← ints isr
            pure (⟨pe, i, l, r, isr, []⟩ : KV.Routing.MPartition)
          | _ => none
        pure (⟨e, n, inl == "1", ps⟩ : KV.Routing.MTopic)
      | _ => none
    pure ⟨0, bs, "", c, ts⟩
  | _ => none

def showIds (bs : List KV.Mappings.UBroker) : String :=
  if bs.isEmpty then "-" else ".".intercalate (bs.map fun b => toString b.id)

/-- Conn.ReadPartitions through the model: the topics asked for, the broker's answer (request order; an unknown
topic is answered with UnknownTopicOrPartition), the mapping -/
def rpartsModel (connTopic : String) (args : List String) (m : KV.Routing.MResponse) : String :=
  let asked := KV.Mappings.readPartitionsTopics connTopic args
  let answer : KV.Routing.MResponse := match asked with
    | none => { m with topics := m.topics.reverse }   -- the fake lists all topics in descending name order
    | some ns => { m with topics := ns.map fun n => match m.topics.find? (·.name == n) with
        | some t => t | none => ⟨3, n, false, []⟩ }
  match KV.Mappings.readPartitions connTopic answer with
  | .error e => s!"err {e}"
  | .ok ps => dash (",".intercalate (strSort (ps.map fun p =>
      s!"{p.topic}/{p.id}={p.leader.id}={showIds p.replicas}={showIds p.isr}={p.error}")))

/-- reference: the first asked topic carrying an error that concerns this connection decides; otherwise every
partition of every asked topic with the cluster's leader / replicas / ISR -/
def rpartsRef (connTopic : String) (topics : String) (cluster : String) : Option String :=
  match cluster.splitOn "/" with
  | [_, _, ts] =>
    let all := splitD ts "|"
    let asked : List String :=
      if topics == "all" then (if connTopic == "" then (all.filterMap (fun t => (t.splitOn ":").head?)).reverse else [connTopic])
      else splitD topics ","
    let entries := asked.map fun n => (n, all.find? (·.startsWith (n ++ ":")))
    let errOf (n : String) (e : Option String) : Int := match e with
      | some t => (match t.splitOn ":" with | [_, er, _, _] => er.toInt?.getD 0 | _ => 0)
      | none => 3
    match entries.find? (fun (n, e) => errOf n e != 0 && (connTopic == "" || n == connTopic)) with
    | some (n, e) => some s!"err {errOf n e}"
    | none =>
      let ps := entries.flatMap fun (n, e) =>
        match e with
        | some t =>
          match t.splitOn ":" with
          | [_, _, _, parts] => (splitD parts ",").filterMap fun p =>
              match p.splitOn "=" with
              | [i, l, pe, r, isr] => some s!"{n}/{i}={l}={r}={isr}={pe}"
              | _ => none
          | _ => []
        | none => []
      some (dash (",".intercalate (strSort ps)))
  | _ => none

/-! ### F-level mapping ops (stub RoundTripper): the models of Model/Mappings.lean executed on arbitrary responses -/

def showUPart (p : KV.Mappings.UPartition) : String :=
  s!"{p.id}={p.leader.id}={p.error}={showIds p.replicas}={showIds p.isr}"

def fmetaModel (m : KV.Routing.MResponse) : String :=
  let u := KV.Mappings.clientMetadata m
  let bs := dash (",".intercalate (u.brokers.map fun b => toString b.id))
  let ts := dash ("|".intercalate (u.topics.map fun t =>
    s!"{t.name}:{t.error}:{if t.internal then 1 else 0}:{dash (",".intercalate (t.partitions.map showUPart))}"))
  s!"{u.controller.id}/{bs}/{ts}"

/-- reference: every id (controller when listed, leader, replicas, ISR), error code and flag of the answer is reported
as is, in the answer's order -/
def fmetaRef (m : KV.Routing.MResponse) : String :=
  let bs := dash (",".intercalate (m.brokers.map fun b => toString b.nodeID))
  let ctrl := if m.brokers.any (·.nodeID == m.controller) then m.controller else 0
  let ids (l : List Int) : String := if l.isEmpty then "-" else ".".intercalate (l.map toString)
  let ts := dash ("|".intercalate (m.topics.map fun t =>
    s!"{t.name}:{t.error}:{if t.internal then 1 else 0}:{dash (",".intercalate (t.partitions.map fun p =>
      s!"{p.index}={p.leader}={p.error}={ids p.replicas}={ids p.isr}"))}"))
  s!"{ctrl}/{bs}/{ts}"

def parseOF (s : String) : Option KV.Mappings.OFResponse :=
  match s.splitOn ";" with
  | [e, ts] => do
    let e ← e.toInt?
    let ts ← (splitD ts "|").mapM fun (t : String) =>
      match t.splitOn ":" with
      | [n, ps] => do
        let ps ← (splitD ps ",").mapM fun (p : String) =>
          match p.splitOn "/" with
          | [i, o, md, er] => do let i ← i.toInt?; let o ← o.toInt?; let er ← er.toInt?; pure (⟨i, o, md, er⟩ : KV.Mappings.OFPart)
          | _ => none
        pure (n, ps)
      | _ => none
    pure ⟨0, ts, e⟩
  | _ => none

def fofetchModel (r : KV.Mappings.OFResponse) : String :=
  let u := KV.Mappings.offsetFetchResponse r
  let ts := sortBy (fun a b => a.1 < b.1) u.topics
  s!"{u.error};{dash ("|".intercalate (ts.map fun (n, ps) =>
    s!"{n}:{dash (",".intercalate (ps.map fun p => s!"{p.partition}/{p.committed}/{p.metadata}/{p.error}"))}"))}"

def parseOC (s : String) : Option (List (String × List (Int × Int))) :=
  (splitD s "|").mapM fun (t : String) =>
    match t.splitOn ":" with
    | [n, ps] => do
      let ps ← (splitD ps ",").mapM fun (p : String) =>
        match p.splitOn "/" with
        | [i, e] => do let i ← i.toInt?; let e ← e.toInt?; pure (i, e)
        | _ => none
      pure (n, ps)
    | _ => none

def focommitModel (r : List (String × List (Int × Int))) : String :=
  let ts := sortBy (fun a b => a.1 < b.1) (KV.Mappings.offsetCommitResponse r)
  dash ("|".intercalate (ts.map fun (n, ps) => s!"{n}:{dash (",".intercalate (ps.map fun (p, e) => s!"{p}/{e}"))}"))

/-- reference for the two group mappings: per topic name the LAST listed entry (a Go map), values untouched -/
def lastPerName {α : Type} (ts : List (String × α)) : List (String × α) :=
  let names := sortBy (fun a b => a < b) ((ts.map (·.1)).eraseDups)
  names.filterMap fun n => (ts.reverse.find? (·.1 == n))

/-! ### dispatcher -/

def step (line : String) : String :=
  match line.splitOn " => " with
  | [req, impl] =>
    match words req with
    | ["merge", r, rs] =>
      match parseReq r, (splitD rs ";").mapM parseResult with
      | some ts, some rs =>
        let q := toRequest 0 ts
        let model := match merge (split q) rs with
          | .error e => s!"err {e}"
          | .ok resp => showResponse resp
        answer model (mergeHolds ts rs impl)
      | _, _ => "bad-op"
    | ["split", rep, iso, r] =>
      -- topic:part@ts@epoch.…
      let parsed : Option (List (String × List ReqPart)) := (splitD r "|").mapM fun (t : String) =>
        match t.splitOn ":" with
        | [n, ps] => do
          let ps ← (splitD ps ".").mapM fun (p : String) =>
            match p.splitOn "@" with
            | [a, b, e] => do let a ← a.toInt?; let b ← b.toInt?; let e ← e.toInt?; pure (⟨a, e, b⟩ : ReqPart)
            | _ => none
          pure (n, ps)
        | _ => none
      match parsed, rep.toInt?, iso.toInt? with
      | some ts, some rep, some iso =>
        let showSub (q : Request) : String :=
          "".intercalate (q.topics.flatMap fun (t, ps) => ps.map fun p =>
            s!"{q.replicaID}/{q.isolation}/{t}/{p.partition}/{p.leaderEpoch}/{p.timestamp}")
        let model := dash (";".intercalate ((split ⟨rep, iso, ts⟩).map showSub))
        -- reference: one sub-request per requested entry, in order, each carrying the header and the entry unchanged
        let want := dash (";".intercalate (ts.flatMap fun (t, ps) => ps.map fun p =>
          s!"{rep}/{iso}/{t}/{p.partition}/{p.leaderEpoch}/{p.timestamp}"))
        answer model (impl == want)
      | _, _, _ => "bad-op"
    | ["clientlo", r, st] =>
      match parseReq r, parseState st with
      | some ts, some st => answer (clientModel ts st) (clientHolds ts st impl)
      | _, _ => "bad-op"
    | ["seek", cur, off, w, dc, f, l, le] =>
      match cur.toInt?, off.toInt?, w.toInt?, f.toInt?, l.toInt?, le.toInt? with
      | some cur, some off, some w, some f, some l, some le =>
        let offs : Option (Int × Int) := if le != 0 then none else some (f, l)
        answer (seekModel cur off w (dc == "1") offs) (impl == seekRef cur off w (dc == "1") offs)
      | _, _, _, _, _, _ => "bad-op"
    | ["readoffset", kind, ts, f, l, le, tm] =>
      match ts.toInt?, f.toInt?, l.toInt?, le.toInt?, parseTimes tm with
      | some ts, some f, some l, some le, some tm =>
        let want := readOffsetRef kind ts ⟨0, f, l, tm, le⟩
        answer want (impl == want)
      | _, _, _, _, _ => "bad-op"
    | ["ofetch", st, r] =>
      match (parseCState st).bind (ofetchRef · r) with
      | some want => answer want (impl == want)
      | none => "bad-op"
    | ["ofetch", st, r, v] =>
      match ((v.drop 2).toString.toInt?).bind fun v => (parseCState st).bind (ofetchRef · r v) with
      | some want => answer want (impl == want)
      | none => "bad-op"
    | ["ocommit", st, r] =>
      match (parseCState st).bind (ocommitRef · r) with
      | some want => answer want (impl == want)
      | none => "bad-op"
    | ["coffsets", st, t, np] =>
      match parseCState st, np.toNat? with
      | some st, some np => answer (coffsetsModel st t np) (impl == coffsetsRef st t np)
      | _, _ => "bad-op"
    | ["meta", f, c] =>
      match metaRef f c with
      | some want => answer want (impl == want)
      | none => "bad-op"
    | ["freqofetch", g, form] =>
      let parsed : Option (List (String × List Int)) :=
        if form == "nil" || form == "empty" then some [] else (splitD form "|").mapM fun (t : String) =>
          match t.splitOn ":" with
          | [n, ps] => do let ps ← (splitD ps ".").mapM (·.toInt?); pure (n, ps)
          | _ => none
      match parsed with
      | some topics =>
        let showTs (ts : List (String × List Int)) : String :=
          dash ("|".intercalate ((sortBy (fun a b => a.1 < b.1) ts).map fun (n, ps) =>
            s!"{n}:{dash (".".intercalate (ps.map toString))}"))
        let (grp, asked) := KV.Mappings.offsetFetchRequest g topics
        let model := s!"{grp};{match asked with | none => "NULL" | some ts => showTs ts}"
        -- reference: the group as given; no topic named = NULL (all topics of the group), otherwise exactly the listing
        let want := s!"{g};{if topics.isEmpty then "NULL" else showTs topics}"
        answer model (impl == want)
      | none => "bad-op"
    | ["freqocommit", gen, mem, inst, form] =>
      let parsed : Option (List (String × List (Int × Int × String))) := (splitD form "|").mapM fun (t : String) =>
        match t.splitOn ":" with
        | [n, ps] => do
          let ps ← (splitD ps ",").mapM fun (p : String) =>
            match p.splitOn "/" with
            | [a, o, m] => do let a ← a.toInt?; let o ← o.toInt?; pure (a, o, m)
            | _ => none
          pure (n, ps)
        | _ => none
      match parsed, gen.toInt? with
      | some topics, some gen =>
        let req := KV.Mappings.offsetCommitRequest "g" gen mem inst topics 1
        let showTs (ts : List (String × List (Int × Int × String))) : String :=
          dash ("|".intercalate ((sortBy (fun a b => a.1 < b.1) ts).map fun (n, ps) =>
            s!"{n}:{",".intercalate (ps.map fun (p, o, m) => s!"{p}/{o}/{m}")}"))
        let model := s!"{req.group};{req.generation};{req.member};{req.instance_};{req.retentionMs};{showTs (req.topics.map fun (n, ps) => (n, ps.map fun p => (p.index, p.offset, p.metadata)))}"
        let want := s!"g;{gen};{mem};{inst};86400000;{showTs topics}"
        answer model (impl == want)
      | _, _ => "bad-op"
    | ["freqlo", iso, r] =>
      match parseReq r, iso.toInt? with
      | some ts, some iso =>
        let req := clientRequest iso ts
        let showT (ts : List (String × List (Int × Int × Int))) : String :=
          dash ("|".intercalate (ts.map fun (n, ps) => s!"{n}:{dash (",".intercalate (ps.map fun (p, e, t) => s!"{p}/{e}/{t}"))}"))
        let model := s!"{req.replicaID};{req.isolation};{showT (req.topics.map fun (n, ps) => (n, ps.map fun p => (p.partition, p.leaderEpoch, p.timestamp)))}"
        let want := s!"-1;{iso};{showT (ts.map fun (n, ps) => (n, ps.map fun (p, t) => (p, (-1 : Int), t)))}"
        answer model (impl == want)
      | _, _ => "bad-op"
    | ["flo", r, resp] =>
      -- Client.ListOffsets on a given merged response: the model's init + fold; the monitor checks, per requested
      -- partition, that the record reports only offsets / errors the response holds for that partition
      match parseReq r with
      | some ts =>
        let topics : Option (List (String × List ResPart)) := (splitD resp "|").mapM fun (t : String) =>
          match t.splitOn ":" with
          | [n, ps] => do
            let ps ← (splitD ps ",").mapM fun (p : String) =>
              match p.splitOn "/" with
              | [a, b, c, d] => do
                let a ← a.toInt?; let b ← b.toInt?; let c ← c.toInt?; let d ← d.toInt?
                pure (⟨a, b, c, d, -1⟩ : ResPart)
              | _ => none
            pure (n, ps)
          | _ => none
        match topics with
        | some tps =>
          let model := match clientApply (clientInit ts) ⟨0, tps⟩ with
            | none => "panic"
            | some recs => dash ("|".intercalate (strSort (recs.map fun ((t, _), r) => showRecord t r)))
          -- reference: a partition without any response entry keeps its initial record; one with entries carries the error of
          -- (one of) its entries or none, and its first/last are values the response holds for it (or the initial ones)
          let flatR := tps.flatMap fun (t, ps) => ps.map fun p => (t, p)
          let keysAsked := (ts.flatMap fun (t, ps) => ps.map fun (p, _) => (t, p)).eraseDups
          let recs := splitD impl "|"
          let holds := recs.length == keysAsked.length && keysAsked.all fun (t, p) =>
            match recs.find? (·.startsWith s!"{t}/{p}:") with
            | none => false
            | some rec =>
              match ((rec.drop (s!"{t}/{p}:").length).toString).splitOn "/" with
              | [f, l, e, _] =>
                let mine := flatR.filter fun (t', x) => t' == t && x.partition == p
                let asked := (ts.flatMap fun (t', ps) => ps.filterMap fun (p', q) => if t' == t && p' == p then some q else none)
                let initF : Int := if asked.contains (-2) then 0 else -1
                let initL : Int := if asked.contains (-1) then 0 else -1
                (e == "0" && mine.all (fun (_, x) => x.error == 0) || mine.any (fun (_, x) => toString x.error == e && x.error != 0)) &&
                (f == toString initF || mine.any (fun (_, x) => x.timestamp == -2 && toString x.offset == f)) &&
                (l == toString initL || mine.any (fun (_, x) => x.timestamp == -1 && toString x.offset == l))
              | _ => false
          answer model holds
        | none => "bad-op"
      | none => "bad-op"
    | ["fcoffsets", g, ps] =>
      let parsed : Option (List KV.Mappings.UOFPart) := (splitD ps ",").mapM fun (p : String) =>
        match p.splitOn "/" with
        | [i, o, e] => do let i ← i.toInt?; let o ← o.toInt?; let e ← e.toInt?; pure (⟨i, o, "", e⟩ : KV.Mappings.UOFPart)
        | _ => none
      match parsed, g.toInt? with
      | some fetched, some g =>
        let showM (m : List (Int × Int)) : String :=
          dash (",".intercalate ((sortBy (fun a b => decide (a.1 < b.1)) m).map fun (p, o) => s!"{p}={o}"))
        let model := match KV.Mappings.consumerOffsets g fetched with
          | .error e => s!"err {e} -"
          | .ok (m, e) => match e with
            | some (_, code) => s!"err {code} {showM m}"
            | none => showM m
        -- reference: a group-level error fails the call; otherwise exactly the partitions answered without error are
        -- reported with their offsets, and an error is returned iff some partition failed (the first one's code)
        let good := (fetched.filter (·.error == 0)).map fun p => (p.partition, p.committed)
        let want := if g != 0 then s!"err {g} -" else
          match fetched.find? (·.error != 0) with
          | some f => s!"err {f.error} {showM good}"
          | none => showM good
        answer model (impl == want)
      | _, _ => "bad-op"
    | ["fmeta", c] =>
      match parseCluster c with
      | some m => answer (fmetaModel m) (impl == fmetaRef m)
      | none => "bad-op"
    | ["fofetch", r] =>
      match parseOF r with
      | some r =>
        let want := s!"{r.error};{dash ("|".intercalate ((lastPerName r.topics).map fun (n, ps) =>
          s!"{n}:{dash (",".intercalate (ps.map fun p => s!"{p.index}/{p.offset}/{p.metadata}/{p.error}"))}"))}"
        answer (fofetchModel r) (impl == want)
      | none => "bad-op"
    | ["focommit", r] =>
      match parseOC r with
      | some r =>
        let want := dash ("|".intercalate ((lastPerName r).map fun (n, ps) =>
          s!"{n}:{dash (",".intercalate (ps.map fun (p, e) => s!"{p}/{e}"))}"))
        answer (focommitModel r) (impl == want)
      | none => "bad-op"
    | ["rparts", ct, ts, c] =>
      let connTopic := if ct == "-" then "" else ct
      match parseCluster c, rpartsRef connTopic ts c with
      | some m, some want => answer (rpartsModel connTopic (if ts == "all" then [] else splitD ts ",") m) (impl == want)
      | _, _ => "bad-op"
    | _ => "bad-op"
  | _ => "bad-op"

end KV.OracleC19

def main : IO Unit := KV.runOracle () (fun _ l => ((), KV.OracleC19.step l))
