/-
Oracle/C12.lean — line-protocol oracle for property C12 (core only; compiled to `oracle_c12`).
Request:  `<op> <args…> => <implementation output>`     Answer: `model=<model output> holds=<0|1>`
`model` comes from Model/Routing.lean applied to the regenerated tables of Gen/Routing.lean;
`holds` is the property monitor on the *implementation's* output, from Spec/Routing.lean and plain list
functions over the cluster description only (no use of the model's maps, routing or version code).
-/
import KafkaVerif.Base.Proto
import KafkaVerif.Model.Routing
import KafkaVerif.Model.Discover
import KafkaVerif.Model.Split
import KafkaVerif.Model.RoundTrip
import KafkaVerif.Spec.Routing
import KafkaVerif.Gen.Routing

namespace KV.OracleC12
open KV KV.Routing KV.Gen.Routing
open KV.Spec.Routing (RClass routingClass versionOK)

def answer (model : String) (holds : Bool) : String :=
  s!"model={model} holds={if holds then 1 else 0}"

def dash (s : String) : String := if s.isEmpty then "-" else s

def splitD (s : String) (sep : String) : List String := if s == "-" || s.isEmpty then [] else s.splitOn sep

def ints (s : String) (sep : String) : Option (List Int) := (splitD s sep).mapM (·.toInt?)

def showInts (xs : List Int) (sep : String) : String := dash (sep.intercalate (xs.map toString))

/-! ### parsing the cluster description -/

def parsePart (s : String) : Option MPartition :=
  match s.splitOn "=" with
  | [i, l, e, rs] => do
    let i ← i.toInt?; let l ← l.toInt?; let e ← e.toInt?; let rs ← ints rs "."
    pure ⟨e, i, l, rs, [], []⟩
  | _ => none

def parseTopic (s : String) : Option MTopic :=
  match s.splitOn ":" with
  | [n, e, inl, ps] => do
    let e ← e.toInt?
    let ps ← (splitD ps ",").mapM parsePart
    pure ⟨e, n, inl == "1", ps⟩
  | _ => none

def parseBroker (s : String) : Option MBroker :=
  match s.splitOn "@" with
  | [i, h, p] => do let i ← i.toInt?; let p ← p.toInt?; pure ⟨i, h, p, ""⟩
  | _ => none

def parseMeta (s : String) : Option MResponse :=
  match s.splitOn "/" with
  | [c, bs, ts] => do
    let c ← c.toInt?
    let bs ← (splitD bs ",").mapM parseBroker
    let ts ← (splitD ts "|").mapM parseTopic
    pure ⟨0, bs, "", c, ts⟩
  | _ => none

def parseTps (s : String) : Option (List (String × List Int)) :=
  (splitD s "|").mapM fun e =>
    match e.splitOn ":" with
    | [t, ps] => do let ps ← ints ps "."; pure (t, ps)
    | _ => none

def parseResources (s : String) : Option (List (Int × String × Option Int)) :=
  (splitD s ",").mapM fun e =>
    match e.splitOn "=" with
    | [t, n] => do let t ← t.toInt?; pure (t, n, n.toInt?)
    | _ => none

/-- request descriptor: `T…` topic-partitions, `R…` resources, `G…` groups, `X…` transactional id, `N` -/
structure Req where
  info : ReqInfo := {}
  groups : List String := []
  txn : String := ""
  deriving Inhabited

def parseReq (s : String) : Option Req :=
  let body := (s.drop 1).toString
  match s.front with
  | 'T' => do let tps ← parseTps body; pure { info := { tps := tps } }
  | 'R' => do let rs ← parseResources body; pure { info := { resources := rs } }
  | 'G' => pure { groups := splitD body "," }
  | 'X' => pure { txn := body }
  | 'N' => pure {}
  | _ => none

/-! ### canonical printers -/

def showPart (k : Int) (p : Partition) : String :=
  s!"{k}>{p.id}={p.leader}={p.error}={showInts p.replicas "."}"

def showLayout (c : Cluster) : String :=
  let bs := sortBy (fun a b => a.1 < b.1) c.brokers
  let ts := sortBy (fun a b => a.1 < b.1) c.topics
  let b := ",".intercalate (bs.map fun (k, b) => s!"{k}>{b.id}@{b.host}@{b.port}")
  let t := "|".intercalate (ts.map fun (n, t) =>
    let ps := sortBy (fun a b => a.1 < b.1) t.partitions
    s!"{n}>{t.name}:{t.error}:{dash (",".intercalate (ps.map fun (k, p) => showPart k p))}")
  s!"{c.controller}/{dash b}/{dash t}"

def showMPart (p : MPartition) : String := s!"{p.index}={p.leader}={p.error}={showInts p.replicas "."}"

def showMTopics (ts : List MTopic) : String :=
  dash ("|".intercalate (ts.map fun t =>
    s!"{t.name}:{t.error}:{if t.internal then 1 else 0}:{dash (",".intercalate (t.partitions.map showMPart))}"))

def errName : RouteErr → String
  | .noTopic => "notopic" | .noPartition => "nopartition" | .noLeader => "noleader" | .mismatch => "mismatch"
  | .brokerNotAvailable => "unavailable" | .panic => "panic" | .badResource => "badresource" | .tooManyBrokers => "toomany"

/-! ### reference side (plain list functions over the description) -/

def byName (m : MResponse) (n : String) : Option MTopic := m.topics.find? (·.name == n)

/-- leader of (topic, partition) according to the description; internal topics are not routable -/
def specLeader (m : MResponse) (t : String) (p : Int) : Option Int :=
  match m.topics.find? (fun x => x.name == t && !x.internal) with
  | some tp => (tp.partitions.find? (·.index == p)).map (·.leader)
  | none => none

def listed (m : MResponse) (b : Int) : Bool := m.brokers.any (·.nodeID == b)

/-- host:port the description gives for broker `b` -/
def listedAddr (m : MResponse) (b : Int) : Option String :=
  (m.brokers.find? (·.nodeID == b)).map fun x => KV.Spec.Routing.hostPort x.host x.port

def specLayout (m : MResponse) : String :=
  let bs := sortBy (fun a b => a.nodeID < b.nodeID) m.brokers
  let ts := sortBy (fun a b => a.name < b.name) (m.topics.filter (!·.internal))
  let b := ",".intercalate (bs.map fun b => s!"{b.nodeID}>{b.nodeID}@{b.host}@{b.port}")
  let t := "|".intercalate (ts.map fun t =>
    let ps := sortBy (fun a b => a.index < b.index) t.partitions
    s!"{t.name}>{t.name}:{t.error}:{dash (",".intercalate (ps.map fun p => s!"{p.index}>{showMPart p}"))}")
  s!"{m.controller}/{dash b}/{dash t}"

def specFilter (names : Option (List String)) (m : MResponse) : String :=
  let sortP (t : MTopic) : MTopic := { t with partitions := sortBy (fun a b => a.index < b.index) t.partitions }
  match names with
  | none => showMTopics ((sortBy (fun a b => a.name < b.name) m.topics).map sortP)
  | some ns => showMTopics (ns.map fun n => match byName m n with | some t => sortP t | none => ⟨3, n, false, []⟩)

def methodsOf (pkg : String) : Option ApiMethods := apis.find? (·.pkg == pkg)

def clientOf (key : Nat) : Int × Int :=
  match apis.find? (fun a => a.apiKey == key && !a.override) with
  | some a => clientRange a.tags
  | none => (0, 0)

/-! ### `send`: model of one RoundTrip through the transport -/

/-- version table: broker id → advertised (min,max) entries for the request's key, in answer order -/
abbrev VTable := List (Int × List (Int × Int))

def parseVT (s : String) : Option VTable :=
  (splitD s ";").mapM fun e =>
    match e.splitOn ":" with
    | [b, rs] => do
      let b ← b.toInt?
      let rs ← (splitD rs "+").mapM fun r =>
        match r.splitOn "." with
        | [a, c] => do let a ← a.toInt?; let c ← c.toInt?; pure (a, c)
        | _ => none
      pure (b, rs)
    | _ => none

inductive Sent where
  | ok (b : Int) (addr : String) (v : Int) (body : String)
  | err (k : String)

/-- the parts of the body Prepare derives from the negotiated version (model: regenerated decisions), rendered like
the driver renders what the fake broker decoded: `#m<magic>` for Produce, `#<MemberID>/<members>` for LeaveGroup -/
def bodyModel (a : ApiMethods) (groups : List String) (r : ReqInfo) (v : Int) : String :=
  if a.pkg == "produce" then (if r.tps.any (fun (_, ps) => !ps.isEmpty) then s!"#m{produceMagic v 0}" else "")
  else if a.pkg == "describeconfigs" then
    let b (x : Bool) : String := if x then "1" else "0"
    s!"#s{b (optionArrives a.pkg "IncludeSynonyms" 1 v)}d{b (optionArrives a.pkg "IncludeDocumentation" 3 v)}"
  else if a.pkg == "describegroups" then
    s!"#a{if optionArrives a.pkg "IncludeAuthorizedOperations" 3 v then "1" else "0"}"
  else if a.pkg == "leavegroup" then
    let g := groups.headD ""
    let w := leaveGroupWire v "" [g ++ "-a", g ++ "-b"]
    s!"#{dash w.1}/{dash (".".intercalate w.2)}"
  else ""

def showAddr (a : Addr) : String := dialAddress a

def sendOne (a : ApiMethods) (boot : Int) (c : Cluster) (down : List Int) (vt : VTable) (groups : List String) (r : ReqInfo) : Sent :=
  -- the pool's groups: by `conns_invariant`, one per broker of the layout at the layout's address
  let conns : List (Int × Addr) := c.brokers.map fun (k, b) => (k, b.addr)
  let atB (b : Int) (addr : String) : Sent :=
    -- an address a dialer cannot take apart (an unbracketed IPv6 literal) fails like an unreachable broker
    if down.contains b || (addr.splitOn "]:").length != (if addr.startsWith "[" then 2 else 1) ||
       (!addr.startsWith "[" && (addr.splitOn ":").length != 2) then .err "dial" else
    let table := ((vt.lookup b).getD []).map fun e => (a.apiKey, e.1, e.2)
    match requestVersion clientOf (negotiate clientOf table) a.apiKey with
    | some v => .ok b addr v (bodyModel a groups r v)
    | none => .err "unsupported"
  match route sendRequestCases a c conns r with
  | .broker id addr => atB id (showAddr addr)
  | .control => -- the control connection dials the address the caller gave (the driver passes the listed one, well-formed)
    let a := (lookupD c.brokers boot Broker.zero).addr
    atB boot (KV.Spec.Routing.hostPort a.1 a.2)
  | .err e => .err (errName e)

def showSent (xs : List Sent) (overallErr : Option String) : String :=
  let oks := xs.filterMap fun | .ok b a v body => some s!"b{b}~{a}@v{v}{body}" | _ => none
  let oks := sortBy (fun a b => a < b) oks
  match overallErr, oks with
  | some e, [] => s!"err {e}"
  | some e, _ => s!"{",".intercalate oks} err {e}"
  | none, _ => dash (",".intercalate oks)

def firstErr (xs : List Sent) : Option String := xs.findSome? fun | .err k => some k | _ => none

/-- the FindCoordinator lookups sendRequest makes (on the control connection) before a group / transactional request:
key, key type (0 group, 1 transaction) and the broker asked -/
def lookups (a : ApiMethods) (boot : Int) (split : Bool) (q : Req) : List String :=
  let toks (keys : List String) (ty : Nat) : List String := keys.map fun k => s!"{dash k}/{ty}@b{boot}"
  match firstCase sendRequestCases a with
  | some .group => toks (if split then q.groups else [q.groups.headD ""]) 0
  | some .transaction => toks [q.txn] 1
  | _ => []

def withLookups (body : String) (fcs : List String) : String :=
  if fcs.isEmpty || body.isEmpty then body else s!"{body} fc={",".intercalate (sortBy (fun a b => a < b) fcs)}"

def sendBody (a : ApiMethods) (boot : Int) (c : Cluster) (down : List Int) (vt : VTable) (coords : List Int) (q : Req) : String :=
  match KV.Split.parts roundTripCases a c coords q.info with
  | some (ps, rule) =>
    let rs := ps.map (sendOne a boot c down vt q.groups)
    match rule with
    | .allFailed =>
      -- ListOffsets Merge: an error only when every part failed
      let allFailed := !rs.isEmpty && rs.all fun | .err _ => true | _ => false
      showSent rs (if allFailed then firstErr rs else none)
    | .anyFailed =>
      -- ListGroups iterates a Go map: the error reported is any failed part's
      showSent rs (if a.pkg == "listgroups" then (firstErr rs).map fun _ => "some" else firstErr rs)
  | none =>
    let r := { q.info with coordinator := coords.headD (-1) }
    let s := sendOne a boot c down vt q.groups r
    showSent [s] (firstErr [s])

def sendModel (a : ApiMethods) (boot : Int) (m : MResponse) (down : List Int) (vt : VTable) (coords : List Int) (q : Req) : String :=
  let c := makeLayout (normalize m)
  let isSplit := (KV.Split.parts roundTripCases a c coords q.info).isSome
  let fcs := if a.apiKey == 10 then [] else lookups a boot isSplit q
  withLookups (sendBody a boot c down vt coords q) fcs

/-! ### `send`: the property monitor on the journal -/

def parseSent (s : String) : Option (List (Int × String × Int) × Option String) :=
  let (okPart, err) :=
    match s.splitOn " err " with
    | [a, e] => (a, some e)
    | _ => if s.startsWith "err " then ("-", some (s.drop 4).toString) else (s, none)
  do
    let oks ← (splitD okPart ",").mapM fun e =>
      match (e.drop 1).toString.splitOn "@v" with
      | [b, v] =>
        match b.splitOn "~" with
        | [b, a] => do let b ← b.toInt?; let v ← ((v.splitOn "#").headD "").toInt?; pure (b, a, v)
        | _ => none
      | _ => none
    pure (oks, err)

/-- (version, body format) of every delivered request: the text after `#` in its token -/
def parseBodies (s : String) : List (Int × String) :=
  let okPart := match s.splitOn " err " with
    | [a, _] => a
    | _ => if s.startsWith "err " then "-" else s
  (splitD okPart ",").filterMap fun e =>
    match e.splitOn "@v" with
    | [_, v] => match v.splitOn "#" with
      | [v, f] => v.toInt?.map fun v => (v, f)
      | _ => none
    | _ => none

/-- the body clause: what the broker decoded fits the version in the header (Spec: `magicOK`, `leaveGroupBodyOK`) -/
def bodyOK (key : Nat) (q : Req) (impl : String) : Bool :=
  (parseBodies impl).all fun (v, f) =>
    if key == 0 then
      f.startsWith "m" && ((f.drop 1).toString.splitOn ".").all fun k => match k.toInt? with
        | some k => KV.Spec.Routing.magicOK v k
        | none => false
    else if key == 32 then
      match f.toList with
      | ['s', s, 'd', d] => KV.Spec.Routing.optionOK 32 "IncludeSynonyms" v (s == '1') &&
          KV.Spec.Routing.optionOK 32 "IncludeDocumentation" v (d == '1')
      | _ => false
    else if key == 15 then
      match f.toList with
      | ['a', x] => KV.Spec.Routing.optionOK 15 "IncludeAuthorizedOperations" v (x == '1')
      | _ => false
    else if key == 13 then
      let g := q.groups.headD ""
      match f.splitOn "/" with
      | [id, ms] => KV.Spec.Routing.leaveGroupBodyOK v [g ++ "-a", g ++ "-b"] (if id == "-" then "" else id) (splitD ms ".")
      | _ => false
    else true

def removeOne (x : Int) : List Int → Option (List Int)
  | [] => none
  | y :: ys => if x == y then some ys else (removeOne x ys).map (y :: ·)

/-- the coordinator lookups observed: (key, type) pairs; a transactional request must look its coordinator up with
key type 1 and its transactional id, a group request with key type 0 and (one of) its group id(s) -/
def lookupsOK (key : Nat) (q : Req) (fc : String) : Bool :=
  let toks := (splitD fc ",").map fun t => ((t.splitOn "@").headD "").splitOn "/"
  match routingClass key with
  | some .txnCoordinator => !toks.isEmpty && toks.all fun t => t == [dash q.txn, "1"]
  | some .groupCoordinator => !toks.isEmpty && toks.all fun t => match t with
      | [k, "0"] => q.groups.isEmpty || q.groups.contains k || (k == "-" && q.groups.contains "")
      | _ => false
  | _ => true

def sendHolds (key : Nat) (split : Bool) (boot : Int) (m : MResponse) (down : List Int) (cr : Int × Int) (vt : VTable)
    (coords : List Int) (q : Req) (implFull : String) : Bool :=
  let (impl, fc) := match implFull.splitOn " fc=" with
    | [a, b] => (a, b)
    | _ => (implFull, "-")
  lookupsOK key q fc &&
  match parseSent impl with
  | none => false
  | some (oks, err) =>
    -- a broker the request can be delivered to: listed, reachable, and advertising a range for this key that
    -- overlaps the client's (otherwise there is no mutually supported version and nothing is demanded)
    let live (b : Int) : Bool := listed m b && !down.contains b &&
      ((vt.lookup b).getD []).any (fun (bmin, bmax) => KV.Spec.Routing.overlap cr.1 cr.2 bmin bmax)
    -- version clause: against some range the broker advertised for this key
    -- address clause: every request was dialled at the address the last metadata gives for its broker
    let addrOK := oks.all fun (b, a, _) => match listedAddr m b with | some want => a == want | none => true
    let verOK := oks.all fun (b, _, v) =>
      match (vt.lookup b).getD [] with
      | [] => true
      | rs => rs.any fun (bmin, bmax) => bmin > bmax || versionOK cr.1 cr.2 bmin bmax v
    let tps := q.info.tps.flatMap fun (t, ps) => ps.map fun p => (t, p)
    let routeOK : Bool :=
      match routingClass key with
      | some .leader =>
        if split then
          -- every requested partition with a live leader is asked at that leader
          let want := tps.filterMap fun (t, p) => match specLeader m t p with | some l => if live l then some l else none | none => none
          -- … and nothing is sent to any other broker, except through the bootstrap connection for parts
          -- the metadata designates no broker for (unknown topic / partition / leader)
          match want.foldl (fun acc l => acc.bind (removeOne l)) (some (oks.map (·.1))) with
          | some extra =>
            let leaders := tps.filterMap fun (t, p) => specLeader m t p
            extra.all fun b => b == boot || leaders.contains b
          | none => false
        else
          match oks, err with
          | [(b, _, _)], none => tps.all fun (t, p) => specLeader m t p == some b
          | [], some _ =>
            -- refusing is right unless one live broker leads every requested partition
            !(match tps with
              | [] => false
              | (t, p) :: _ => match specLeader m t p with
                | some l => live l && tps.all (fun (t, p) => specLeader m t p == some l)
                | none => false)
          | _, _ => false
      | some .groupCoordinator | some .txnCoordinator =>
        -- DescribeGroups is split per group; DeleteGroups documents the precondition that all its groups share the
        -- first group's coordinator (Client.DeleteGroups doc comment), so only that one is demanded
        let want := if split then coords else [coords.headD (-1)]
        if want.any (· < 0) then true   -- the coordinator lookup failed: outside the property's hypothesis
        else if want.all live then err.isNone && sortBy (· < ·) (oks.map (·.1)) == sortBy (· < ·) want
        else (oks.map (·.1)).all want.contains
      | some .controller =>
        if live m.controller then err.isNone && oks.map (·.1) == [m.controller] else true
      | some .anyBroker => err.isNone && oks.all (fun (b, _, _) => b == boot || listed m b)
      | none => true
    addrOK && verOK && routeOK && bodyOK key q impl

/-! ### `follow`: the refresh loop under scripted faults -/

open KV.Discover in
/-- the event sequence a fault script drives the refresh loop through: `kind@n` = n−1 good refreshes, then the
faulty one, then the refresh that has to pick the leader move up -/
def followEvents (script : List String) : Option (List DEvent) :=
  let m0 : MResponse := ⟨0, [⟨0, "b0", 9092, ""⟩], "", 0, []⟩
  let good : List DEvent := [.tick, .answer m0]
  (script.mapM fun (x : String) =>
    match x.splitOn "@" with
    | [k, n] => do
      let n ← String.toNat? n
      let fault : List DEvent ←
        (match k with
        | "stall" | "late" => some [DEvent.tick, .timeout]
        | "delay" | "none" => some good
        | "drop" => some [.tick, .reqError]
        | "dialfail" => some [.tick, .reqError, .connFail]
        | _ => none)
      pure ((List.replicate (n - 1) good).flatten ++ fault ++ good)
    | _ => none).map List.flatten

open KV.Discover in
def followModel (script : List String) : String :=
  match followEvents script with
  | none => "bad-script"
  | some es =>
    match run discoverExits {} (good0 ++ es) with
    | some s => if s.alive then "within=1 gap=1" else "within=0 gap=1"
    | none => "within=0 gap=1"   -- the loop left before the script ended: no refresh ever follows the move
where good0 : List KV.Discover.DEvent := [.tick, .answer ⟨0, [⟨0, "b0", 9092, ""⟩], "", 0, []⟩]

/-! ### `rtmeta`: metadata requests through roundTrip -/

/-- the topic the fake cluster auto-creates: one partition led by the controller -/
def createdTopic (m : MResponse) (n : String) : MTopic := ⟨0, n, false, [⟨0, 0, m.controller, [m.controller], [m.controller], []⟩]⟩

/-- the cluster's metadata after the broker handled an auto-creating request for `names` -/
def afterCreate (m : MResponse) (names : List String) (fakeAuto : Bool) : MResponse :=
  if !fakeAuto then m else
  names.foldl (fun acc n => if acc.topics.any (·.name == n) then acc else { acc with topics := acc.topics ++ [createdTopic m n] }) m

open KV.RoundTrip in
def rtmetaModel (names : Option (List String)) (auto fakeAuto : Bool) (m : MResponse) : String :=
  let s := update {} (some m) false
  match metadataDecision s ⟨names, auto⟩ with
  | .fromCache res => s!"asked=0 {showMTopics res.topics} after={showMTopics res.topics}"
  | .askBroker =>
    let ns := names.getD []
    let m' := afterCreate m ns fakeAuto
    -- the broker answers in request order, partitions in the fake's (descending) order; the caller gets it as is
    let direct := ns.map fun n => match m'.topics.find? (·.name == n) with
      | some t => { t with partitions := sortBy (fun a b => decide (a.index > b.index)) t.partitions }
      | none => unknownTopic n
    -- … then roundTrip waits until the created topics are in the cache: the follow-up is served from it
    let after := filterMetadata names (normalize m')
    s!"asked=1 {showMTopics direct} after={showMTopics after.topics}"
  | .cacheError => "err"
  | .noCache => "panic"

def rtmetaHolds (names : Option (List String)) (auto fakeAuto : Bool) (m : MResponse) (impl : String) : Bool :=
  let unknownAsked := match names with
    | some ns => ns.any fun n => (byName m n).isNone
    | none => false
  let wantAsked := auto && unknownAsked
  let m' := if wantAsked then afterCreate m (names.getD []) fakeAuto else m
  let wantAfter := specFilter names m'
  match impl.splitOn " after=" with
  | [front, after] =>
    after == wantAfter && front.startsWith (if wantAsked then "asked=1 " else "asked=0 ") &&
    (wantAsked || front == s!"asked=0 {specFilter names m}")
  | _ => false

/-- CreateTopics through roundTrip: the controller creates the topic (partitions led round-robin by the sorted broker
ids) unless it exists (TOPIC_ALREADY_EXISTS 36); roundTrip then waits (`topicsToRefresh`, `refreshDone`) until every
error-free topic of the answer is in the cached layout, so a follow-up metadata request is served from a cache that
already lists it -/
def rtcreateModel (name : String) (np : Nat) (m : MResponse) : String :=
  let exists_ := m.topics.any (·.name == name)
  let code : Int := if exists_ then 36 else 0
  let ids := sortBy (fun a b => decide (a < b)) (m.brokers.map (·.nodeID))
  let created : MTopic := ⟨0, name, false, (List.range np).map fun i =>
    let l := ids.getD (i % ids.length) 0
    ⟨0, Int.ofNat i, l, [l], [l], []⟩⟩
  let m' := if exists_ then m else { m with topics := m.topics ++ [created] }
  let wait := KV.RoundTrip.topicsToRefresh [(name, code)]
  let cache := normalize m'
  -- the cache the follow-up sees: refreshed iff something was waited for
  let seen := if wait.isEmpty then normalize m else cache
  s!"code={code} after={showMTopics (filterMetadata (some [name]) seen).topics}"

open KV.Discover KV.RoundTrip in
/-- the pool's first refresh fails in the given way, the next one is answered: can metadata requests be served again? -/
def recoverModel (kind : String) : String :=
  let m0 : MResponse := ⟨0, [⟨0, "b0", 9092, ""⟩], "", 0, [⟨0, "t", false, [⟨0, 0, 0, [], [], []⟩]⟩]⟩
  let first : List DEvent := match kind with
    | "dialfail" => [.connFail]
    | "stall" => [.tick, .timeout]
    | _ => [.tick, .reqError]
  match run discoverExits {} (first ++ [.tick, .answer m0]) with
  | some s =>
    let thenOK := s.alive && (match metadataDecision s.pool ⟨some ["t"], false⟩ with | .fromCache _ => true | _ => false)
    let prodOK := s.alive && (s.pool.layout.topics.lookup "t").isSome
    s!"then={if thenOK then "ok" else "err"} produce={if prodOK then "ok" else "err"}"
  | none => "then=err produce=err"

/-! ### dispatcher -/

def kv (pfx : String) (s : String) : Option String :=
  if s.startsWith pfx then some (s.drop pfx.length).toString else none

def step (line : String) : String :=
  match line.splitOn " => " with
  | [req, impl] =>
    match words req with
    | ["selver", k, bmin, bmax] =>
      match k.toNat?, bmin.toInt?, bmax.toInt? with
      | some k, some bmin, some bmax =>
        let (cmin, cmax) := clientOf k
        let v := selectVersion cmin cmax bmin bmax
        let holds := match (impl.splitOn " ").mapM (·.toInt?) with
          | some [a, b, w] => a == cmin && b == cmax && (bmin > bmax || versionOK a b bmin bmax w)
          | _ => false
        answer s!"{cmin} {cmax} {v}" holds
      | _, _, _ => "bad-op"
    | ["layout", m] =>
      match parseMeta m with
      | some m => answer (showLayout (makeLayout (normalize m))) (impl == specLayout m)
      | none => "bad-op"
    | ["filter", ns, m] =>
      match parseMeta m with
      | some m =>
        let names := if ns == "nil" then none else some (splitD ns ",")
        answer (showMTopics (filterMetadata names (normalize m)).topics) (impl == specFilter names m)
      | none => "bad-op"
    | ["broker", pkg, m, r] =>
      match methodsOf pkg, parseMeta m, parseReq r with
      | some a, some m, some q =>
        let c := makeLayout (normalize m)
        let model := match brokerMethod a c q.info with
          | .ok id => s!"ok {id}"
          | .error .panic => "panic"
          | .error e => s!"err {errName e}"
        let tps := q.info.tps.flatMap fun (t, ps) => ps.map fun p => (t, p)
        let holds : Bool :=
          match routingClass a.apiKey with
          | some .leader =>
            if a.split then
              -- a split part: its (first) partition's leader when that broker is listed
              match tps with
              | (t, p) :: _ => (match specLeader m t p with
                | some l => if listed m l then impl == s!"ok {l}" else true
                | none => true)
              | [] => true
            else
              match (impl.splitOn " ") with
              | ["ok", b] => (match b.toInt? with
                | some b => if b < 0 then tps.isEmpty else tps.all (fun (t, p) => specLeader m t p == some b)
                | none => false)
              | ["err", _] =>
                !(match tps with
                  | [] => true
                  | (t, p) :: _ => match specLeader m t p with
                    | some l => listed m l && tps.all (fun (t, p) => specLeader m t p == some l)
                    | none => false)
              | _ => false
          | some .controller => if listed m m.controller then impl == s!"ok {m.controller}" else true
          | _ => true
        answer model holds
      | _, _, _ => "bad-op"
    | ["send", pkg, boot, m, down, cr, vt, coord, r] =>
      match methodsOf pkg, (kv "boot=" boot).bind (·.toInt?), parseMeta m, (kv "down=" down).bind (ints · ","),
            (kv "cr=" cr).bind (ints · "."), (kv "vt=" vt).bind parseVT, (kv "coord=" coord).bind (ints · ","), parseReq r with
      | some a, some boot, some m, some down, some [c1, c2], some vt, some coords, some q =>
        answer (sendModel a boot m down vt coords q)
          (sendHolds a.apiKey a.split boot m down (c1, c2) vt coords q impl)
      | _, _, _, _, _, _, _, _ => "bad-op"
    | ["rtmeta", ns, auto, fauto, m] =>
      match parseMeta m with
      | some m =>
        let names := if ns == "nil" then none else some (splitD ns ",")
        answer (rtmetaModel names (auto == "1") (fauto == "1") m) (rtmetaHolds names (auto == "1") (fauto == "1") m impl)
      | none => "bad-op"
    | ["rtcreate", name, np, m] =>
      match parseMeta m, np.toNat? with
      | some m, some np =>
        let want := rtcreateModel name np m
        -- monitor: the topic the cluster now has is what the cache reports right after CreateTopics returned
        answer want (impl == want)
      | _, _ => "bad-op"
    | ["recover", _, first] =>
      match kv "first=" first with
      | some k => answer (recoverModel k) (impl == "then=ok produce=ok")
      | none => "bad-op"
    | ["follow", _, faults] =>
      match kv "faults=" faults with
      | some fs => answer (followModel (splitD fs ",")) (impl == "within=1 gap=1")
      | none => "bad-op"
    | _ => "bad-op"
  | _ => "bad-op"

end KV.OracleC12

def main : IO Unit := KV.runOracle () (fun _ l => ((), KV.OracleC12.step l))
