/-
Oracle/GroupWireOps.lean — shared by oracle_c03 and oracle_c15: the group responses / requests of the byte-level coordinator
path re-encoded from their description with the reference encoders of Spec/GroupWire.lean.
-/
import KafkaVerif.Base.Proto
import KafkaVerif.Spec.GroupWire

namespace KV.OracleGW
open KV

/-! ### response bodies written by the byte-level coordinator path, re-encoded from their description -/

open KV.Spec.GroupWire in
def wireBody (method desc : String) : Option Bytes :=
  let desc := if desc == "-" then "" else desc
  let topics (f : String → Option Bytes) : Option Bytes := do
    let ts := if desc == "" then [] else desc.splitOn ";"
    let bs ← ts.mapM fun t =>
      match t.splitOn ":" with
      | [name, ps] => do
        let pl := if ps == "" then [] else ps.splitOn "+"
        let pb ← pl.mapM f
        some (str name ++ i32 pl.length ++ pb.flatten)
      | _ => none
    some (i32 ts.length ++ bs.flatten)
  match method with
  | "offsetCommit" => topics fun p =>
      match p.splitOn "=" with
      | [pt, c] => do some (i32 (← pt.toInt?) ++ i16 (← c.toInt?))
      | _ => none
  | "offsetFetch" => topics fun p =>
      match p.splitOn "=" with
      | [po, c] =>
        match po.splitOn "@" with
        | [pt, o] => do some (i32 (← pt.toInt?) ++ i64 (← o.toInt?) ++ str "" ++ i16 (← c.toInt?))
        | _ => none
      | _ => none
  | "heartbeat" | "leaveGroup" => desc.toInt?.map errOnly
  | "findCoordinator" =>
    match desc.splitOn "," with
    | [c, host, port] => do some (findCoordinatorResp (← c.toInt?) host (← port.toInt?))
    | _ => none
  | "syncGroup" =>
    match desc.splitOn "," with
    | [c, "R", hex] => do some (syncGroupResp (← c.toInt?) (← if hex == "" then some [] else ofHex hex))
    | c :: "A" :: rest =>
      let a := ",".intercalate rest
      let ts := if a == "" then [] else a.splitOn ";"
      do
        let tl ← ts.mapM fun t =>
          match t.splitOn ":" with
          | [name, ps] => do some (name, ← (if ps == "" then [] else ps.splitOn "+").mapM (·.toInt?))
          | _ => none
        some (syncGroupResp (← c.toInt?) (assignment tl))
    | _ => none
  | "joinGroup" =>
    match desc.splitOn "," with
    | [c, g, proto, leader, member, ms] => do
      let ml := if ms == "" then [] else ms.splitOn "|"
      let members ← ml.mapM fun m =>
        match m.splitOn "=" with
        | [mid, ts] => some (mid, if ts == "" then [] else ts.splitOn "+")
        | _ => none
      some (joinGroupResp (← c.toInt?) (← g.toInt?) proto leader member members)
    | _ => none
  | _ => none

open KV.Spec.GroupWire in
/-- a group REQUEST re-encoded from the description of what it carries -/
def wireReq (method desc0 : String) : Option Bytes :=
  let desc := if desc0 == "-" then "" else desc0
  let b (s : String) : Bytes := s.toUTF8.toList
  let pairs (s : String) : Option (List (Bytes × Bytes)) :=
    (if s == "" then [] else s.splitOn "|").mapM fun e =>
      match e.splitOn "=" with
      | [n, hex] => do some (b n, ← if hex == "" then some [] else ofHex hex)
      | _ => none
  match method, desc.splitOn "," with
  | "findCoordinator", [k] => some (Req.findCoordinator (b k))
  | "heartbeat", [g, gen, m] => do some (Req.heartbeat (b g) (← gen.toInt?) (b m))
  | "leaveGroup", [g, m] => some (Req.leaveGroup (b g) (b m))
  | "joinGroup", [g, se, re, m, pt, ps] => do some (Req.joinGroup (b g) (← se.toInt?) (← re.toInt?) (b m) (b pt) (← pairs ps))
  | "syncGroup", [g, gen, m, as] => do some (Req.syncGroup (b g) (← gen.toInt?) (b m) (← pairs as))
  | "offsetCommit", [g, gen, m, ret, ts] => do
    let tl ← (if ts == "" then [] else ts.splitOn ";").mapM fun t =>
      match t.splitOn ":" with
      | [name, ps] => do
        let pl ← (if ps == "" then [] else ps.splitOn "+").mapM fun p =>
          match p.splitOn "@" with
          | [pt, o] => do some ((← pt.toInt?), (← o.toInt?), ([] : Bytes))
          | _ => none
        some (b name, pl)
      | _ => none
    some (Req.offsetCommit (b g) (← gen.toInt?) (b m) (← ret.toInt?) tl)
  | "offsetFetch", [g, ts] => do
    let tl ← (if ts == "" then [] else ts.splitOn ";").mapM fun t =>
      match t.splitOn ":" with
      | [name, ps] => do some (b name, ← (if ps == "" then [] else ps.splitOn "+").mapM (·.toInt?))
      | _ => none
    some (Req.offsetFetch (b g) tl)
  | _, _ => none

def opWireReq (method desc impl : String) : String :=
  match wireReq method desc with
  | some bs => let h := toHex bs; s!"model={h} holds={if h == impl then 1 else 0}"
  | none => "bad-op"

def opWireBody (method desc impl : String) : String :=
  match wireBody method desc with
  | some b => let h := toHex b; s!"model={h} holds={if h == impl then 1 else 0}"
  | none => "bad-op"


end KV.OracleGW
