"""C09 — Close, cancellation and use-after-close behave and terminate in every schedule."""
import re

META = {
    "property_id": "C09",
    "engine": "lean-close-lts",
    "technique": "Lean 4 LTS models of the Writer close/enter/leave/spawn protocol and of Reader/ConsumerGroup Close with a termination measure (every internal event decreases it, a waiting Close always has an enabled event) and invariants (ErrClosedPipe/EOF after close, nothing sent after CloseReturn, live goroutine / open connection sets empty); tie = real Writer/Reader/ConsumerGroup/Transport run against fakes that decide when every network call returns (steered D1 window, rebalance/slow/silent brokers, random schedules); the observed external event trace is accepted by state-set simulation of the LTS in a compiled Lean oracle and judged by a trace monitor; goroutine and connection census",
    "level_claimed": {
        "category": "proof",
        "text": "Kernel-checked: for all event sequences of the models, every internal event after the closed mark decreases a measure and a waiting Close is never blocked (close_terminates, full, via the message-tracking invariant; group_run_terminates on the GroupRun model; termination in finitely many steps given each network call returns), calls arriving after Close get io.ErrClosedPipe / io.EOF, cancelled blocked calls can return the context error, at CloseReturn every accepted message had its Completion and no goroutine/connection of the model is live; D1 documented by a decide-checked stuck state of the unrepaired step relation. Wall-clock bounds are observed by watchdogs only (partial).",
        "design_ref": "DESIGN.md §7 C08,C07,C01,C09(Writer) and C09 — Reader / ConsumerGroup / Transport part",
    },
    "level_note": "Trusted: Lean kernel; propext/Classical.choice/Quot.sound; the hand-written LTS models (regenerated tie: 51 structural facts of the close protocol re-extracted by go/ast from writer.go/reader.go/consumergroup.go/transport.go/dialer.go on every run, Props/C09 proves they all hold and instantiates Cfg.fixed with the extracted fact; the Writer clause (safety, deadlock-freedom, termination measure) is also proved on the writer builder's Model/Writer.lean, which C01/C07/C08 tie by replaying W.* hook traces one event at a time; otherwise the models follow the source by hand and are tied by trace acceptance — existential over unobserved events for the Writer/Reader, deterministic over hook events for ConsumerGroup.run and Transport connections — internal events are existentially quantified by the oracle's state-set simulation, so an implementation whose internal order differs but whose observable behaviour is allowed is accepted); 'every network call returns' is no longer assumed: against a silent broker / coordinator an operation returns only through its deadline (stepSilent / stepSilentG / stepSilentT), and the deadline facts are extracted from reader.go / consumergroup.go / writer.go / transport.go; the Go runtime (WaitGroup, channels, timers) is modelled; the fakes (message-level RoundTripper, byte-level broker over net.Pipe); goroutine census by stack inspection. 'Bounded time' is a watchdog observation, not a theorem.",
}

MODULE = "KafkaVerif.Props.C09"


def run(ctx):
    ctx.assumptions += [
        "every network call returns (the fake answers or fails it, or its deadline / context ends): termination is in steps, not seconds",
        "WaitGroup count = calls between enter and leave + goroutines started through spawn (derived in the model)",
        "message sizes abstracted to 1: only BatchSize closes a batch (byte limits are C08's subject)",
        "watchdog %s for 'returns' observations; timings are reported, not asserted" % "4 s",
    ]
    broken = []
    ok, log = ctx.extract("closeproto", ["lean/KafkaVerif/Gen/CloseFacts.lean"])
    if not ok:
        broken.append({"kind": "obligation", "name": "translator go/extract closeproto", "detail": log[-1500:]})
    else:
        import os
        gen = open(os.path.join(os.path.dirname(os.path.dirname(os.path.abspath(__file__))), "lean/KafkaVerif/Gen/CloseFacts.lean")).read()
        false_facts = re.findall(r"def (\w+) : Bool := false", gen)
        ctx.coverage["source_facts"] = {"extracted": len(re.findall(r"def \w+ : Bool := ", gen)), "false": false_facts}
        if false_facts:
            broken.append({"kind": "obligation", "name": "structural facts of the close protocol no longer hold in the source", "facts": false_facts})
    res = ctx.prove(MODULE)
    if not res["ok"]:
        broken.append({"kind": "obligation", "theorems": res["failed"], "detail": res["reasons"][:10]})
    dis = []
    orc, olog = ctx.oracle_build("oracle_c09")
    drv, dlog = ctx.go_build("./cmd/c09", "c09")
    if orc is None or drv is None:
        broken.append({"kind": "obligation", "name": "correspondence C09 could not be built", "detail": (olog + dlog)[-1500:]})
    else:
        env = {}
        if ctx.replay:
            import json
            want = json.load(open(ctx.replay)).get("input") or ""
            m = re.match(r"(\w+) scenario (\d+)", want)
            if m:
                env["VERIF_C09_ONLY"] = "%s:%s" % (m.group(1), m.group(2))
        import subprocess
        try:
            lines, rc, err = ctx.run_driver(drv, ["all"], env=env, timeout=(1500 if ctx.tier == "thorough" else 600))
        except subprocess.TimeoutExpired as te:
            # the driver's own watchdog ends a blocked scenario after 60 s; getting here means it kept producing lines, slowly
            def txt(b): return b.decode("utf-8", "replace") if isinstance(b, (bytes, bytearray)) else (b or "")
            lines, rc, err = txt(te.stdout).split("\n"), 0, txt(te.stderr)
            marks = re.findall(r"^scenario (\w+) (\d+)(?: took (\S+))?$", err, re.M)
            slow = re.findall(r"^slow scenario .*$", err, re.M)
            broken.append({"kind": "obligation", "name": "driver c09 did not finish within its time limit",
                           "detail": "scenarios started: %d, last: %s; %s" % (len(marks), " ".join(marks[-1][:2]) if marks else "-", "; ".join(slow[-8:]))})
        crashed = None
        if rc != 0:
            last = re.findall(r"^scenario (\w+) (\d+)$", err, re.M)
            pan = re.search(r"^(panic: .*|fatal error: .*|driver c09: no progress for 60 s)", err, re.M)
            if last and pan:
                # the code under test died (or the scenario hung past every bound) while this scenario ran: a concrete failing schedule
                why = pan.group(1)[:300]
                if why.startswith("driver c09"):
                    # where the driver itself is blocked
                    frames = re.findall(r"^main\.(\w+)\(.*\n\t\S*/(\w+\.go:\d+)", err, re.M)
                    why += "; blocked in: " + ", ".join("%s %s" % f for f in frames[:8])
                crashed = {"op": last[-1][0], "n": last[-1][1], "why": why}
            else:
                broken.append({"kind": "obligation", "name": "driver c09 crashed", "detail": err[-1500:]})
        dis = ctx.correspond(lines, orc, "writer.go/reader.go/consumergroup.go/transport.go ↔ Model/WriterClose.lean, Model/ReaderClose.lean (observed-trace acceptance + monitor)")
        kinds = {}
        for l in lines:
            if "\t" in l:
                for t in l.split("\t")[0].split(" ")[2:]:
                    k = t.split("/")[0]
                    kinds[k] = kinds.get(k, 0) + 1
        ctx.coverage["observed_event_kinds"] = kinds
        ctx.coverage["outcomes"] = {}
        for l in lines:
            if "\t" in l:
                o = l.split("\t")[1]
                ctx.coverage["outcomes"][o] = ctx.coverage["outcomes"].get(o, 0) + 1
    ctx.coverage["rule"] = ("Writer: 10 steered schedule families (Close while a call sits in its metadata lookup = D1 window, with/without earlier traffic, "
                            "cancel inside lookup / while waiting for a batch that has no other way out, use after close, async write + Close from one goroutine on a single P; sync+async) x repetitions, plus random scripts of begin/hold/release/cancel/"
                            "close/probe/pause over BatchSize 1..3, MaxAttempts 1..3, BatchTimeout 1-3ms or 1h, produce outcomes ok/temporary/permanent. "
                            "Writer of NewWriter over its own Transport against a protocol-level loopback broker (6 families: answered / failing / held produce, Close during the metadata refresh, cancel, use after close; census of broker-side connections and goroutines after the timeouts). Reader/ConsumerGroup/Transport: scenario families listed in docs/notes/C09.md (17 reader kinds incl. ListOffsets failures inside the fetcher's initialize, the lag monitor, partition watcher on every second scenario, 20 s back-offs on odd ones; 10 transport kinds incl. a connect that completes after its caller left); every scenario closes twice; grun = ConsumerGroup.Close hook traces replayed deterministically through Model/GroupRun. distinct = distinct observed traces")
    concrete = [d for d in dis if d.get("kind") == "disagreement" and not d["holds_on_impl"]]
    others = [d for d in dis if d not in concrete]
    recorded = 0
    if orc is not None and drv is not None and crashed:
        scen = "%s scenario %s (seed %d, tier %s)" % (crashed["op"], crashed["n"], ctx.seed, ctx.tier)
        recorded += ctx.violation({"kind": "trace", "input": scen, "actual": "the process died while this scenario ran: " + crashed["why"],
                                   "expected": "Close and every call return; no panic",
                                   "monitor": "a panic / fatal error inside the library during a Close schedule"},
                                  True, signature="%s crashed %s" % (crashed["op"], crashed["why"][:120]))
    for d in concrete:
        if recorded >= 5: break      # cap on RECORDED violations: hits of known findings must not use it up
        sc = re.search(r"sc=(\d+)", d["op"])
        scen = "%s scenario %s (seed %d, tier %s)" % (d["op"].split(" ")[0], sc.group(1) if sc else "?", ctx.seed, ctx.tier)
        recorded += ctx.violation({"kind": "trace", "input": scen, "events": d["op"], "actual": d["impl"], "expected": d["model"],
                                   "correspondence": d["correspondence"],
                                   "monitor": "C09 trace monitor false on the implementation's observed trace (Close/calls return, Completion before CloseReturn, silence after Close, ErrClosedPipe/EOF, ctx errors, census)"},
                                  True, signature="%s => %s" % (re.sub(r"\s+", " ", d["op"])[:400], d["impl"]))
    if (broken or others) and recorded == 0:
        ctx.violation({"kind": "obligation", "broken": broken, "disagreements": others[:20],
                       "note": "a proof obligation or the trace correspondence no longer checks; the monitor held on all %d observed scenarios" % ctx.coverage["evaluations"]},
                      False, signature="obligation " + str(broken)[:300] + str([d.get("model") for d in others[:3]]))
    elif broken:
        for b in broken:
            ctx.notes.append("also broken: " + str(b)[:500])
