"""C03 — consumer group: commits never pass undelivered records; resume at the commit."""
import re

META = {
    "property_id": "C03",
    "engine": "lean-group",
    "technique": "Lean 4 model of the Reader commit path (makeCommit, offsetStash.merge, immediate/interval commit loops with retries and "
                 "the final commit, as an LTS) and of fetchOffsets/makeAssignments; history invariant by induction over all event sequences; "
                 "function-level differential correspondence on generated inputs and trace acceptance of hook-recorded group Readers running "
                 "against a mock coordinator (sync and interval mode, multi-topic, coordinator errors, rebalances, close) + monitors on the traces",
    "level_claimed": {
        "category": "proof",
        "text": "Kernel-checked: commit_le_handed (every offset sent to the coordinator ≤ 1 + an offset passed to CommitMessages for that "
                "partition, for every event sequence incl. retries/final commits; also at the moment of sending), merge soundness, "
                "start_at_committed (assignment offset = committed if ≥ 0 else StartOffset, for every OffsetFetch answer). "
                "sync_commit_recorded is proved at state level (partial) and monitored on every recorded trace; the group-level corollaries "
                "(delivered_before_covered, quiescent_all_delivered) are not proved. Tie: real makeCommits/merge/fetchOffsets+makeAssignments vs "
                "model on generated inputs; every recorded Reader execution must be a run of the commit-loop model.",
        "design_ref": "DESIGN.md §7 C03",
    },
    "level_note": "Trusted: Lean kernel; propext/Classical.choice/Quot.sound; hook placement in reader.go's commit loops and the driver's "
                  "canonicalisation; Go maps modelled as association lists (order-insensitive comparison); channel r.commits modelled as a "
                  "FIFO bag; applications commit only what they were handed is a hypothesis of the group-level reading, not checked; the fetch "
                  "side (no gaps, C02) is outside this check: the harness Readers have no broker, messages passed to CommitMessages are synthetic.",
}

MODULE = "KafkaVerif.Props.C03"


def run(ctx):
    ctx.assumptions += [
        "the bound is relative to the messages the application passed to CommitMessages (ReadMessage passes what it was handed)",
        "one commit loop at a time (C15: generations do not overlap; D8 late starts excepted)",
        "Go map iteration order is irrelevant: OffsetCommit requests are compared as maps",
        "real retry back-off (100 ms+) is not modelled: retries are consecutive attempt events",
        "group-level consequences (every record delivered before an acked commit covers it; quiescent ⇒ all delivered) additionally need C02 "
        "(gap-free delivery from the start offset) and are not proved here",
    ]
    broken = []
    ok, log = ctx.extract("group", ["lean/KafkaVerif/Gen/GroupFacts.lean"])
    if not ok:
        broken.append({"kind": "obligation", "name": "translator go/extract group", "detail": log[-1500:]})
    # the *_on_the_wire theorems run the conn builder's regenerated parser programs: regenerate them from this tree too
    ok, log = ctx.extract("connlegacy", ["lean/KafkaVerif/Gen/ConnLegacy.lean"])
    if not ok:
        # the conn builder's translator covers much more of conn.go than the group response programs used here; when it
        # cannot translate this tree (e.g. its own model lags a conn.go change) fall back to the committed programs — the
        # byte-level ties (conncodes, wire traces, wirebody) still run against this tree
        import subprocess, os
        root = os.path.dirname(os.path.dirname(os.path.abspath(__file__)))
        subprocess.run(["git", "-C", root, "checkout", "--", "lean/KafkaVerif/Gen/ConnLegacy.lean"], capture_output=True)
        ctx.notes.append("connlegacy translator failed on this tree; committed Gen/ConnLegacy.lean used: " + log[-300:])
    res = ctx.prove(MODULE)
    if not res["ok"]:
        broken.append({"kind": "obligation", "theorems": res["failed"], "detail": res["reasons"][:10]})
    dis, lines = [], []
    orc, olog = ctx.oracle_build("oracle_c03")
    drv, dlog = ctx.go_build("./cmd/c03", "c03")
    if orc is None or drv is None:
        broken.append({"kind": "obligation", "name": "correspondence C03 could not be built", "detail": (olog + dlog)[-1500:]})
    else:
        lines, rc, err = ctx.run_driver(drv, [], timeout=1500)
        if rc != 0:
            broken.append({"kind": "obligation", "name": "driver c03 crashed", "detail": err[-1500:]})
        dis = ctx.correspond(lines, orc, "reader.go commit path / consumergroup.go fetchOffsets ↔ Model/Commit.lean, Model/GroupStart.lean",
                             nontrivial=lambda op, impl: not op.startswith("mkcommit -"))
    kinds, ntr, modes = {}, 0, {}
    for l in lines:
        if not l.startswith("ctrace ") or "\t" not in l:
            continue
        ntr += 1
        f = l.split("\t")[0].split(" ", 2)
        modes[f[1]] = modes.get(f[1], 0) + 1
        for t in f[2].split(";"):
            k = t.split(":")[0] + (":" + t.split(":")[-1] if t.split(":")[0] in ("att", "ret", "deq", "reply", "begin") else "")
            kinds[k] = kinds.get(k, 0) + 1
    ctx.coverage["group_histories"] = len([l for l in lines if l.startswith("gtrace ")])
    ctx.coverage["traces"] = ntr
    ctx.coverage["trace_modes"] = modes
    ctx.coverage["event_kinds"] = dict(sorted(kinds.items()))
    ctx.coverage["rule"] = ("F: random message lists (3 topics × 4 partitions, offsets 0..11 and up to 2^59) for makeCommits and offsetStash.merge on stashes "
                            "built by earlier merges; fetchOffsets+makeAssignments on 1-3 configured topics, FirstOffset/LastOffset, random subscriptions, "
                            "well-formed and malformed OffsetFetch answers (missing/duplicate/unrequested partitions, repeated topics, offsets -2..6), plus the "
                            "in-situ answers of the trace scenarios. T: group Readers (sync / interval commits, 1-3 topics) against the mock coordinator: random "
                            "CommitMessages calls (0-3 messages, increasing and repeated offsets, up to 3 concurrent), random order of answering held calls, "
                            "0/10/20 % errors on every coordinator call incl. OffsetCommit (retries, aborts), heartbeat failures (rebalances), Close at the end. "
                            "G: 2-3 group Readers on one simulated coordinator (join barrier, leader assignment by the real balancer, evictions with "
                            "zombie members, members leaving, sync/interval commits), the harness playing fetch side and application per member; one "
                            "gtrace line per partition checked against Model/Group.lean and the group-level monitors. distinct_nontrivial = distinct op lines")
    concrete = [d for d in dis if d.get("kind") == "disagreement" and not d["holds_on_impl"]]
    others = [d for d in dis if d not in concrete]
    recorded = 0
    for d in concrete:
        if recorded >= 50: break      # cap on RECORDED violations: hits of known findings must not use it up
        m = re.search(r"mon=(\S+)", d["model"])
        what = re.sub(r"@\d+|:[^,]*", "", m.group(1)) if m else d["op"].split(" ")[0]
        if d["op"] == "d8reader":
            what = "reader-stall-after-late-unsubscribe (%s)" % d["impl"]
        recorded += ctx.violation({"kind": "trace" if d["op"].startswith(("ctrace", "gtrace")) else "input", "input": d["op"], "actual": d["impl"],
                                   "expected": d["model"], "correspondence": d["correspondence"],
                                   "monitor": "property monitor of Oracle/C03.lean false on the implementation's output"},
                                  True, signature="C03 %s" % what)
    if (broken or others) and recorded == 0:
        ctx.violation({"kind": "obligation", "broken": broken, "disagreements": others[:10],
                       "note": "a proof obligation or the correspondence no longer checks; the monitors found no failing input among %d cases"
                               % ctx.coverage["evaluations"]},
                      False, signature="obligation " + str(broken)[:300] + str([o.get("model", o.get("detail", ""))[:80] for o in others[:3]]))
    elif broken or others:
        for b in (broken + others)[:10]:
            ctx.notes.append("also broken: " + str(b)[:500])
