"""C05 — record batches: what is produced is exactly what a consumer decodes."""
import os, re

META = {
    "property_id": "C05",
    "engine": "lean-recordbatch",
    "technique": "Independent Lean reference codec for message sets v0/v1 and record batches v2 (Spec/RecordBatch: strict decoder + encoder, bitwise CRC-32/CRC-32C) with kernel-checked decode∘encode round-trip theorems; Lean models of kafka-go's writers (protocol writeToVersion2/1, Conn writeRecordBatch/writeRecord/writeMessage) proved to emit Spec-decodable bytes carrying the given records; reference-counted page LTS with a safety invariant over all op sequences; byte-level correspondence in both directions through a compiled Lean oracle (library-produced bytes decoded by the Spec; Spec-encoded layouts decoded by Client.Fetch, RecordSet.ReadFrom and Conn.ReadBatch).",
    "level_claimed": {
        "category": "proof",
        "text": "Kernel-checked: varint/zig-zag/fixed-width round trips and sizes; Spec decode(encode x) = x for records, v2 frames, v0/v1 messages and whole record sets (any mix, any number of entries); the writer models produce exactly the Spec encoding of the given records (offset deltas 0..n-1, timestamp deltas ms(t)-ms(first), null ≠ empty, headers, order, computed sizes = actual lengths) incl. the Conn path's timestamp-delta formula (D6 counterexample for the old formula); page pool/refcount invariant for all op sequences. Tied to the code by byte-exact writer-model correspondence and by the two-direction byte correspondence over formats × codecs × splits × shapes. The Client.Fetch-path DECODER is modelled (Model/RecordReader: readFromVersion2/1, RecordSet.ReadFrom, RecordStream) and proved to return the reference decoder's records on every valid response of v2 batches + plain v0/v1 messages (decoders_agree_client), to hide control batches (control_hidden) and to surface nothing of a batch with a wrong CRC (bad_crc_yields_no_records); the model is also run by the oracle on every fetch case (incl. v1 wrappers) and compared with the real decoder. Header sizes, patch offsets, attribute masks, magic offset are regenerated from the Go sources (go/extract records → Gen/RecordConsts) and proved equal to the Spec layout (gen_consts_match_spec). Round 4: v1 wrappers on the Client path proved (v1_wrapper_offsets); the Conn/Batch reader: field-by-field byte-level model (Model/ConnReader) proved to return the reference decoder's content up to null≈empty (decoders_agree_content) and run by the oracle on every fetch/conn case; the C02 builder's token-level reader model composed on bytes (decoders_agree_bytes via Spec/ByteTokens); compressed writer paths proved with an abstract compressor and tied byte-exactly modulo the compressor; field order/width of all writers/readers regenerated (gen_field_order); page hooks + trace acceptance through Model/Pages. Later: the Spec defines the timestamp type (LogAppendTime, attributes bit 3; finding C05-D30 fixed in /repo 795ac84) and all four decoder models read the tested masks from go/ast extraction (gen_timestamp_type); after fixes 4db07b4 / 314fa1c the Conn path is EXACT (null vs empty) and passes over control batches, so decoders_agree_content is an unconditional equality Conn = Client.Fetch on every valid complete response; decoders_agree_items composes with the C02 builder's byte-level tokenizer (C02.BItem / C02.tokenize); writeToVersion2 (plain and compressed), writeToVersion1 (plain and compressed: render in place, scan, Truncate, wrapper) and RecordSet.WriteTo are modelled THROUGH the page buffer (Model/RecordWriterPaged: placeholders, WriteAt back-patches, CRC over scan) and proved equal to the flat writer models for every page size and prior buffer content (v2_write_paged_spec, v2_write_compressed_paged_spec, v1_write_paged_spec, recordset_write_paged_spec), tied on the real page buffer across the 64 KiB boundary (ops pwset2, pwset2c, pwset1; export hooks); pages with their bytes (Model/PageHeap): held_bytes_intact. Round 6: the sizing (protocol/size.go) and writing (protocol/encode.go) helpers' choice of varint flavour, the per-record length expression of writeToVersion2 and the Conn path's recordSize/var…Len are regenerated (go/extract sizefns -> Gen/SizeFns); the writer model computes lengths WITH the extracted callee names, so recordV2_eq / v2_write_spec depend on the source (gen_size_calls, gen_legacy_size_calls, v2_record_length_exact). PARTIAL: truncated responses and the offset bookkeeping of Batch are C02's; decompressors are parameters.",
        "design_ref": "DESIGN.md §7 C05",
    },
    "level_note": "Trusted: Lean kernel; propext/Classical.choice/Quot.sound; Spec/RecordBatch.lean is my transcription of the Kafka message-format documentation (no Kafka source in the sandbox); hash/crc32 and the compressors are not verified (CRC definitions validated against hash/crc32 on every run, codecs are property C16; compressed payloads are decompressed by the harness with the library codec and handed to the oracle); the page LTS is tied to protocol/buffer.go by hook traces (counts) and by an observational concurrent test (keys/values stay intact while other decodes recycle pages); the byte-level heap (Model/PageHeap) adds only the rule `only a live pageBuffer stores into its pages`, read off buffer.go by inspection; int32 wrap of sizes/counts not modelled (requests < 2 GiB); consecutive-empty-batch layouts belong to C02; compressed v0 wrappers are outside the property.",
}

MODULE = "KafkaVerif.Props.C05"


def run(ctx):
    ctx.assumptions += [
        "record sets smaller than 2^31 bytes, fewer than 2^31 records per batch (int32 fields do not wrap)",
        "produce direction: timestamps are non-negative Unix times; a time inside the first millisecond of the epoch is 'unset' for the protocol writer; fetch direction: also records without timestamp (-1), which must be delivered as the zero time.Time",
        "codec: dec (enc x) = x (property C16); the harness decompresses with the library codec",
        "Conn read path: exact comparison (null vs empty told apart since /repo 4db07b4; control batches passed over since 314fa1c)",
        "writers never set the timestamp-type bit (hypothesis logAppend attrs = false of the writer theorems); brokers may: the fetch generator sets it",
        "message format 1 with headers given must be refused (op v1hdr; C05-D32 fixed in /repo a7712d5); otherwise headers are generated for format 2 only",
        "v0 wrappers (compressed magic 0) not generated (outside the property); empty retained v2 batches (count 0) are generated since C02-D4/D14 are fixed",
    ]
    broken = []
    ok, log = ctx.extract("records", ["lean/KafkaVerif/Gen/RecordConsts.lean"])
    if not ok:
        broken.append({"kind": "obligation", "name": "translator go/extract records", "detail": log[-1500:]})
    ok, log = ctx.extract("sizefns", ["lean/KafkaVerif/Gen/SizeFns.lean"])
    if not ok:
        broken.append({"kind": "obligation", "name": "translator go/extract sizefns", "detail": log[-1500:]})
    ok, log = ctx.extract("recordlayout", ["lean/KafkaVerif/Gen/RecordLayout.lean"])
    if not ok:
        broken.append({"kind": "obligation", "name": "translator go/extract recordlayout", "detail": log[-1500:]})
    res = ctx.prove(MODULE)
    if not res["ok"]:
        broken.append({"kind": "obligation", "theorems": res["failed"], "detail": res["reasons"][:10]})
    dis = []
    orc, olog = ctx.oracle_build("oracle_c05")
    drv, dlog = ctx.go_build("./cmd/c05", "c05")
    if orc is None or drv is None:
        broken.append({"kind": "obligation", "name": "correspondence C05 could not be built", "detail": (olog + dlog)[-1500:]})
    else:
        lines, rc, err = ctx.run_driver(drv, [], env={"VERIF_ORACLE": orc})
        if rc != 0:
            broken.append({"kind": "obligation", "name": "driver c05 crashed", "detail": err[-1500:]})
        dis = ctx.correspond(lines, orc, "record writers/readers ↔ Spec/RecordBatch (+ Model/RecordWriter byte-exact)",
                             nontrivial=lambda op, impl: not op.startswith("crc"))
        # page hooks of protocol/buffer.go: recorded traces must be accepted by the LTS of Model/Pages
        tlines, trc, terr = ctx.run_driver(drv, ["pagetrace"], env={"VERIF_ORACLE": orc})
        if trc != 0:
            broken.append({"kind": "obligation", "name": "driver c05 pagetrace crashed", "detail": terr[-1500:]})
        dis += ctx.correspond(tlines, orc, "protocol/buffer.go page events ↔ Model/Pages (trace acceptance)")
        tags = {}
        for l in lines:
            if l.startswith("wire "):
                t = l.split(" ", 2)[1].split("/")
                k = "/".join(t[:2]) if t[0] == "fetch" else "/".join(t[:4])
                k = re.sub(r"@\d+", "", k)
                tags[k] = tags.get(k, 0) + 1
        ctx.coverage["wire_cases_by_path"] = tags
        if ctx.tier == "thorough" or os.environ.get("VERIF_C05_PAGES"):
            pdrv, plog = ctx.go_build("./cmd/c05", "c05race", race=True)
            if pdrv is None:
                ctx.notes.append("race build of the pages test not available: " + plog[-300:])
                pdrv = drv
            plines, prc, perr = ctx.run_driver(pdrv, ["pages"], env={"VERIF_ORACLE": orc})
            if prc != 0:
                broken.append({"kind": "obligation", "name": "pages observational test crashed or raced", "detail": perr[-1500:]})
            dis += ctx.correspond(plines, orc, "protocol/buffer.go pages ↔ Model/Pages (observational)")
    ctx.coverage["rule"] = ("produce: kafka.Writer → writerRecords path added; on every path (proto, client, writer, conn) × v1/v2 × 5 codecs one 82-record batch in which every ordered pair of the 9 null/empty/non-empty key×value shapes is adjacent (Eulerian circuit); records (1..6, one case of 150) with null/empty/1..300 B/1..20 KB/64 KiB±1..200 000 B keys and values, 0..3 headers with null/empty values, "
                            "sub-millisecond non-monotone times (+ far apart, + the D6 shape) through protocol.RecordSet.WriteTo v1/v2, Client.Produce (Prepare+WriteRequest, api v2/3/7/8) and "
                            "Conn.WriteMessages / WriteCompressedMessages (produce v2/v3/v7 over net.Pipe) × codecs none/gzip/snappy/lz4/zstd; fetch: 1..4 entries per response out of v0 / v1 messages, "
                            "v1 wrappers (4 codecs, relative inner offsets), v2 batches (5 codecs, transactional, control, compaction gaps), base offsets 0/1/100/2^33, decoded by RecordSet.ReadFrom "
                            "(3 reader kinds), Client.Fetch and Conn.ReadBatch (fetch v2/v5/v10); every second layout also with one flipped CRC/payload bit (Client.Fetch must surface nothing of that entry). "
                            "distinct = distinct op lines other than `crc`")
    concrete = [d for d in dis if d.get("kind") == "disagreement"]
    others = [d for d in dis if d not in concrete]
    recorded = 0
    for d in concrete[:50]:
        op = d["op"]
        short = " ".join(op.split(" ")[:2])
        recorded += ctx.violation({"kind": "input", "input": op, "actual": d["impl"], "expected": d["model"],
                                   "correspondence": d["correspondence"],
                                   "monitor": "Spec/RecordBatch decoding of the wire bytes vs the records given / surfaced (holds=%s)" % d["holds_on_impl"]},
                                  True, signature="%s => %s || %s" % (short, d["impl"][:300], d["model"][:300]))
    if (broken or others) and recorded == 0:
        ctx.violation({"kind": "obligation", "broken": broken, "disagreements": others[:20],
                       "note": "a proof obligation or the correspondence no longer checks; the search over %d generated cases found no input on which the property monitor fails" % ctx.coverage["evaluations"]},
                      False, signature="obligation " + str(broken)[:300])
    elif broken:
        for b in broken:
            ctx.notes.append("also broken: " + str(b)[:500])
