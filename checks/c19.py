"""C19 — Offset and metadata queries report exactly the brokers' state."""

META = {
    "property_id": "C19",
    "engine": "lean-offsets",
    "technique": "Lean 4 theorems over executable models of protocol/listoffsets Split/Merge (entries exactness by induction over the positional results; grouping+sorting shown to be a permutation) and of Conn.Seek (equality with an independent reference for every whence mode); model↔code correspondence at function level (real Split/Merge on scripted part results) and end to end (Client.ListOffsets/OffsetFetch/OffsetCommit/ConsumerOffsets/Metadata through a real Transport, Conn.ReadFirstOffset/ReadLastOffset/ReadOffset/ReadOffsets/Seek/ReadPartitions over net.Pipe) against an in-process multi-broker fake cluster whose state is the reference",
    "level_claimed": {
        "category": "proof",
        "text": "Kernel-checked for all requests and all per-part outcomes: Split yields one single-partition request per requested entry; the merged response holds exactly one entry per requested (topic, partition, timestamp) — the leader's sub-result with the requested timestamp restored, or the UNKNOWN placeholder of that partition when its part failed — as a permutation (nothing lost, duplicated or altered by grouping and sorting); a failed part changes its own entry only; all parts failed → the first error; merged throttle = maximum. Conn.Seek — its body translated from conn.go by symbolic execution into a decision tree on every run (seek_src_eq, seek_src_correct) — equals the reference in all four whence modes with and without SeekDontCheck (designated position, bounds check against the broker's first/last offsets exactly when the mode demands it, offset unchanged on failure). mapping_exact_* theorems over Model/Mappings.lean: OffsetFetch (coordinator state → answer → user response = the state per requested partition, errors on their own entry), OffsetCommit (every commit reaches the wire unchanged; per-partition errors come back), ConsumerOffsets, Metadata and ReadPartitions (leader/replicas/ISR resolve to exactly the listed brokers, placeholders for unlisted ids, order and fields kept), Client.ListOffsets's fold per step and as a whole (clientApply_untouched, clientListOffsets_total: no panic, untouched partitions keep their record), ReadPartitions' error scope and topic selection, ReadOffsets. Constants, the Merge placeholder, sort keys and Split fields are regenerated from the source (Gen/Offsets.lean). These small models are tied to the code by the end-to-end correspondence against the fake cluster.",
        "design_ref": "DESIGN.md §7 C19",
    },
    "level_note": "Partial: the mapping models (Model/Mappings.lean) are hand-written and tied by end-to-end correspondence only (no F-level op per mapping function); Client.ListOffsets's whole fold is proved per step (mapping_exact_listOffsets_step), not as one closed form; Go maps require distinct topic names / broker ids / partition ids (hypotheses of the theorems). Trusted: Lean kernel; propext/Classical.choice/Quot.sound; sort.Slice modelled as a stable insertion sort (order inside (Partition, Offset) ties is unspecified in Go; comparisons canonicalise); int64 arithmetic modelled on Int (no overflow); the fake cluster's ListOffsets semantics (Spec/Offsets.listOffsetAnswer) transcribed from the Kafka protocol guide; the fake cluster and canonicalisation.",
}

MODULE = "KafkaVerif.Props.C19"


def _reference_oracle(ctx, exe, gen_files):
    """A translator refused the tree under test (already recorded as a broken obligation): build the oracle over the
    facts last committed for the unchanged tree, so that the search for a concrete failing input still runs (the
    monitors come from Spec, the model is the reference model of the unchanged code)."""
    import os, subprocess
    import kv
    for g in gen_files:
        p = subprocess.run(["git", "-C", kv.ROOT, "show", "HEAD:" + g], capture_output=True)
        if p.returncode != 0:
            return None, "no committed copy of " + g
        with open(os.path.join(kv.ROOT, g), "wb") as f:
            f.write(p.stdout)
    ok, log = ctx.lean_build([exe])
    path = os.path.join(kv.LEAN, ".lake", "build", "bin", exe)
    return (path if ok and os.path.exists(path) else None), log


def run(ctx):
    ctx.assumptions += [
        "results are positional (joined.await): result i is the outcome of split request i",
        "a well-formed part answer names the partition it was asked about (a foreign partition's entry is passed through with its own timestamp)",
        "offsets and whence arithmetic stay inside int64",
        "Client.ListOffsets keeps one timestamp per offset (map keyed by offset): two time queries resolving to the same offset report one of the requested timestamps",
    ]
    broken = []
    ok, log = ctx.extract("offsets", ["lean/KafkaVerif/Gen/Offsets.lean"])
    if not ok:
        broken.append({"kind": "obligation", "name": "translator go/extract offsets", "detail": log[-1500:]})
    ok2, log2 = ctx.extract("mappings", ["lean/KafkaVerif/Gen/Mappings.lean"])
    if not ok2:
        broken.append({"kind": "obligation", "name": "translator go/extract mappings", "detail": log2[-1500:]})
    res = ctx.prove(MODULE)
    if not res["ok"]:
        broken.append({"kind": "obligation", "theorems": res["failed"], "detail": res["reasons"][:10]})
    dis = []
    if ok and ok2:
        orc, olog = ctx.oracle_build("oracle_c19")
    else:
        orc, olog = _reference_oracle(ctx, "oracle_c19", ['lean/KafkaVerif/Gen/Offsets.lean', 'lean/KafkaVerif/Gen/Mappings.lean'])
    drv, dlog = ctx.go_build("./cmd/c19", "c19")
    if orc is None or drv is None:
        broken.append({"kind": "obligation", "name": "correspondence C19 could not be built", "detail": (olog + dlog)[-1500:]})
    else:
        lines, rc, err = ctx.run_driver(drv, [])
        if rc != 0:
            broken.append({"kind": "obligation", "name": "driver c19 crashed", "detail": err[-1500:]})
        dis = ctx.correspond(lines, orc, "listoffsets / conn.go / client mappings ↔ Model/ListOffsets.lean, Model/Seek.lean, Spec/Offsets.lean",
                             nontrivial=lambda op, impl: True)
    ctx.coverage["rule"] = ("merge: 0–4 topic entries (repeats allowed) × 0–3 partitions × timestamps −2/−1/times; per-part outcomes ok/error codes/transport failure/all failed/foreign-partition answers, throttles; "
                            "clientlo: 2–4 brokers with ListOffsets version sub-ranges v1..v5, 8 topics × 4 partitions over all leaders, per-partition ListOffsets errors, one unreachable leader, unknown topics; "
                            "seek: current offset incl. the −2/−1 sentinels × offsets × whence 0–6 × SeekDontCheck × [first,last] × lookup errors; readoffset: first/last/time/both × time index × errors; "
                            "ofetch/ocommit/coffsets: committed state with per-partition errors, coordinator on any broker, duplicate partitions, unknown topic; meta: all/filtered/empty filter; rparts: metadata v1 and v6. distinct = distinct op lines")
    concrete = [d for d in dis if d.get("kind") == "disagreement" and not d["holds_on_impl"]]
    others = [d for d in dis if d not in concrete]
    recorded = 0
    for d in concrete:
        if recorded >= 50: break      # cap on RECORDED violations: hits of known findings must not use it up
        recorded += bool(ctx.violation({"kind": "input", "input": d["op"], "actual": d["impl"], "expected": d["model"],
                                        "correspondence": d["correspondence"],
                                        "monitor": "reference value from the fake cluster's state (Spec/Offsets) differs from what the query returned"},
                                       True, signature="%s => %s" % (d["op"], d["impl"])))
    if (broken or others) and recorded == 0:
        ctx.violation({"kind": "obligation", "broken": broken, "disagreements": others[:20],
                       "note": "a proof obligation or the correspondence no longer checks; the search over %d generated cases found no input on which the property monitor fails" % ctx.coverage["evaluations"]},
                      False, signature="obligation " + str(broken)[:300] + str(others[:2])[:300])
    elif broken:
        for b in broken:
            ctx.notes.append("also broken: " + str(b)[:500])
