"""C01 — Writer: acknowledged messages are in the log; failures are attributed exactly."""
import os, sys
sys.path.insert(0, os.path.join(os.path.dirname(os.path.dirname(os.path.abspath(__file__))), "lib"))
import writer_common

META = {
    "property_id": "C01",
    "engine": "lean-writer-lts",
    "technique": "Lean 4 theorems by invariants over all event sequences of the Writer LTS (Model/Writer.lean) including the broker's per-partition logs and the journal of produce attempts with outcomes applied+acked / applied+ack lost / not applied / rejected; tie = trace acceptance of hook-recorded runs of the real Writer against a fault-injecting fake RoundTripper; the oracle predicts every return value, log and Completion argument from the trace and evaluates the ack-exactness monitor on the journal",
    "level_claimed": {
        "category": "proof",
        "text": "Kernel-checked for every configuration (acks != None) and every finite event sequence: a sync call returns nil only if every message's batch ended with an acknowledged applied attempt and the messages are in the log of the chosen topic-partition (ack_exact); WriteErrors[i] = nil iff message i's batch was acknowledged (werr_exact, batch_outcome_exact); Completion runs at most once per batch, exactly once with the batch's final error before the batch is completed (completion_once, completion_before_done); messages are only ever appended to the partition the balancer chose (no_foreign_partition); copies in the log = applied attempts, more than one only after a lost acknowledgement (dups_only_after_lost_ack). Tied to writer.go by trace acceptance on recorded runs.",
        "design_ref": "DESIGN.md §7 C08, C07, C01, C09(Writer)",
    },
    "level_note": "Trusted: Lean kernel; standard axioms; hook placement; the fake RoundTripper as broker (its applied/acked decisions are environment events; Client.Produce / transport encoding are outside this model: C04/C05/C06); sampled schedules for the tie. Compression and produce API versions do not influence the Writer's logic at this level (message-level RoundTripper); they are covered by the codec properties.",
}

MODULE = "KafkaVerif.Props.C01"

def run(ctx):
    writer_common.run_writer(ctx, "c01", MODULE, "holdsC01 (nil => all acked in the chosen partition; WriteErrors[i]=nil <=> acked; Completion exactly once with that outcome; no foreign partition; duplicates only after a lost ack)")
