"""C17 — A response cut off at any byte yields an error, never a panic, hang or fake data."""

META = {
    "property_id": "C17",
    "engine": "lean-conn",
    "technique": "Lean 4: the connection is a byte list followed by EOF, a response frame announces sz bytes; byte conservation of every parser program (mutual induction over all programs, including whatever the go/ast translator regenerates) gives the generic lemma 'a computation that ends with the frame counter at 0 consumed sz bytes, so it cannot on a stream holding fewer'; instantiated for every (*Conn).do operation, for ReadBatchWith/Batch over any byte-conserving message-set reader, and for protocol.ReadResponse under its discardAll contract; Transport connection pool as an LTS with trace acceptance; differential correspondence: Client/Writer over a real kafka.Transport and a Reader over a real Dialer against a stateful fake broker with per-connection journals (response cut at byte k, follow-up calls must succeed on a new connection), the real Conn over net.Pipe with the scripted broker delivering exactly k bytes, and protocol.ReadResponse on every registered response type x version x cut position through three reader kinds, against the compiled Lean oracle",
    "level_claimed": {
        "category": "proof",
        "text": "Kernel-checked for every cut position and EVERY byte content: a (*Conn).do operation whose response stream ends inside the size prefix, the correlation id or the body returns a non-kafka error and the Conn is closed (cut_is_error, cut_in_header_is_error), after which every operation fails (C11.closed_stays_failed, dead_stream_fails); what a Writer retry puts on the wire is the batch again (retry_carries_the_batch over the regenerated fact retryRebuildsRecords) and every read of the Reader's fetch, Batch.Close's skip included, happens under an armed deadline (reader_fetch_returns, armed_reads_return over readerClosesUnderDeadline); the same anywhere in a run of any number of operations: those answered completely before the cut give what each gives alone on a fresh connection, the cut one fails and closes, all later ones fail (cut_in_sequence, over C11.sequence_aligned); the un-framed sasl token exchange likewise (raw_token_cut_is_error); fetch on a cut stream, however far the batch was read before Close: a non-kafka error and the Conn closed (fetch_cut_is_error, every byte-conserving message-set reader; since the fix C02-D33 of Batch.close — regenerated fact batchCloseMindsDiscard) and inside the message set the C02 decoder model neither panics nor desynchronises and hands out exactly the completely received records (fetch_cut_no_panic). protocol.ReadResponse: the Decoder contract is PROVED for the structural decoder model of C04 (frame accounting for every schema: da_all; readResponse_ok_consumes_frame; readResponse_cut_is_error_structural: every strict prefix of a frame, every schema, no message). Transport connections: LTS over the existing T.* hook points, parameterised by a regenerated fact of (*conn).run; for ALL accepted event sequences a failed connection is never grabbed/served/released again and the next request runs on another one (failed_conn_never_reused, resume_after_cut), tied by trace acceptance. Reader: for every well-formed log, every start offset and every interleaving of complete rounds and rounds lost after any number of bytes, the delivered stream is exactly the log between start and final position — no loss, duplicate or reordering (reader_resume_after_cut, composed with C02's fetch_round/single_fetch and ReaderLoop). Writer: composed with C01 (writer_resume_after_cut). Split requests: a lost part fails a strict merge (mergeStrict_ok, lost_part_fails_call, regenerated strictMerges), ListOffsets via C19's model. Not proved (partial): 'blocks beyond its deadline' and progress of the follow-up (runtime, observed under watchdogs; the lock-release facts that rule out blocking on rlock are proved in C11).",
        "design_ref": "DESIGN.md §7 C17",
    },
    "level_note": "Trusted: as C11 (kernel, translator, hand transcription of the conn.go closures and of do/waitResponse/Batch.close, bufio/net.Conn model where a lost connection = EOF after k bytes). protocol/decode.go: the discardAll contract used here is PROVED for the C04 builder's structural decoder model (Lemmas/CodecAcct.lean) and sampled on every registered API version. message_reader.go is abstracted to 'any byte-conserving reader'. Frames for the Transport path are produced by protocol.WriteResponse from reflectively filled messages (the encoder is C04's subject); compressed payload decoders are the real libraries. Deadlines/blocking are observed, not proved.",
}

MODULE = "KafkaVerif.Props.C17"


def run(ctx):
    ctx.assumptions += [
        "a lost connection is EOF after the first k bytes (net.Pipe closed by the broker side); partial TCP delivery order is preserved",
        "Conn operations: as C11 (list-offsets and ApiVersions are covered by correspondence only)",
        "fetch: a response at the high watermark carries an empty set; message-set reader conserves bytes and does not panic (observed, not proved)",
        "protocol.ReadResponse: ok only after discardAll left remain = 0 (contract, sampled on every registered API/version)",
        "'blocks beyond its deadline' is observed with watchdogs (2-5 s deadlines, 3-30 s watchdogs; each scenario family stops after ~5 blocked cases), also against a broker that goes SILENT after k bytes instead of dropping the connection (c17s: every Conn operation, 300 ms deadline, 2 positions per op-version quick / 6 thorough; tp …/stall: the Client scenarios with a 400 ms timeout), not proved (the model has no time: a stalled stream is a stream that ends); the lock-release facts that rule out blocking on rlock are proved in Props/C11 over regenerated facts",
        "split requests: the expected merged result is computed by the C19 builder's model (Model/ListOffsets.lean; Props/C19 entries_exact, failure_isolated)",
        "Transport LTS: events are the existing verifEvent(\"T.*\") hook points of transport.go; Grab/Release/Remove are recorded under connGroup.mutex, Recv/Done/Exit on the connection's goroutine",
        "Transport keeps a failed INITIAL metadata state until its next refresh (MetadataTTL, 40 ms in the driver): follow-up calls are retried for up to 3 s",
        "fetch_cut_no_panic: a connection cut presents message_reader.go with the token stream `truncate` of Spec/Layout.lean (C02's bytes<->tokens tie)",
    ]
    broken = []
    ok, log = ctx.extract("connlegacy", ["lean/KafkaVerif/Gen/ConnLegacy.lean"])
    if not ok:
        broken.append({"kind": "obligation", "name": "translator go/extract connlegacy", "detail": log[-1500:]})
        # the code left the translatable subset: keep searching for a failing input with the last committed model
        # (the model of the unchanged code) so that the report carries a concrete replay, not only the broken obligation
        import subprocess, os
        subprocess.run(["git", "checkout", "--", "lean/KafkaVerif/Gen/ConnLegacy.lean"],
                       cwd=os.path.dirname(os.path.dirname(os.path.abspath(__file__))), capture_output=True)
        ctx.notes.append("translator failed: correspondence run against the committed Gen/ConnLegacy.lean")
    res = ctx.prove(MODULE)
    if not res["ok"]:
        broken.append({"kind": "obligation", "theorems": res["failed"], "detail": res["reasons"][:10]})
    dis = []
    orc, olog = ctx.oracle_build("oracle_c17")
    drv, dlog = ctx.go_build("./cmd/c17", "c17")
    if orc is None or drv is None:
        broken.append({"kind": "obligation", "name": "correspondence C17 could not be built", "detail": (olog + dlog)[-1500:]})
    else:
        lines, rc, err = ctx.run_driver(drv, [])
        for l in err.strip().split("\n")[-8:]:
            ctx.notes.append("driver: " + l[-300:])
        if rc != 0:
            broken.append({"kind": "obligation", "name": "driver c17 crashed", "detail": err[-1500:]})
        dis = ctx.correspond(lines, orc, "kafka.Conn / protocol.ReadResponse on a cut stream ↔ Model/ConnOps.lean, Props/C17 Decoder contract",
                             nontrivial=lambda op, impl: not impl.startswith("ok"))
    by_op = {}
    for l in (lines if (orc and drv) else []):
        f = l.split(" ")
        if len(f) > 2 and f[0] == "c17":
            k = ":".join(f[2].split(":")[:2])
            by_op[k] = by_op.get(k, 0) + 1
        elif f[0] in ("tp", "tt"):
            by_op[f[0] + " " + f[1]] = by_op.get(f[0] + " " + f[1], 0) + 1
        elif f[0] == "rr":
            by_op["ReadResponse"] = by_op.get("ReadResponse", 0) + 1
    ctx.coverage["cases_by_op_version"] = by_op
    ctx.coverage["rule"] = ("Conn path: every Conn operation x negotiated version x {no error, error code in the first error field; fetch: error frame, top-level error (v10), "
                            "empty at watermark, v2 one/two batches, v1 set, gzip v1/v2 (thorough: + snappy, lz4, zstd, three batches)} x cut k (quick: 0..12, last 4, 10 random, full; "
                            "thorough: every k in [0,|F|]). Transport path: protocol.ReadResponse for all registered APIs x all versions, frame from WriteResponse of a reflectively filled "
                            "message, k as above, through bufio.Reader / plain io.Reader (thorough: + one-byte reader). distinct_nontrivial = distinct cases whose outcome is not ok")
    concrete = [d for d in dis if d.get("kind") == "disagreement" and not d["holds_on_impl"]]
    others = [d for d in dis if d not in concrete]
    recorded = 0
    for d in concrete[:50]:
        recorded += ctx.violation({"kind": "input", "input": d["op"], "actual": d["impl"], "expected": d["model"],
                                   "correspondence": d["correspondence"],
                                   "monitor": "cut response: error (never ok/panic/hang), next operation fails, delivered records are a prefix of those sent"},
                                  True, signature="%s => %s" % (d["op"], d["impl"]))
    if (broken or others) and recorded == 0:
        ctx.violation({"kind": "obligation", "broken": broken, "disagreements": others[:20],
                       "note": "a proof obligation, the translator or the model<->code correspondence no longer checks; the property monitor failed on none of the %d generated cases" % ctx.coverage["evaluations"]},
                      False, signature="obligation " + str(broken)[:300] + str(others[:2])[:300])
    elif broken or others:
        for b in broken + others[:5]:
            ctx.notes.append("also broken: " + str(b)[:500])
