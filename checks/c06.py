"""C06 — a response is only ever delivered to the call that sent the request."""

META = {
    "property_id": "C06",
    "engine": "lean-mux-lts",
    "technique": "Lean 4 invariants over two labelled transition systems — the Conn request/response multiplexer (doRequest / waitResponse / do / Batch) and the "
                 "Transport's pooled connections (grab / run / roundTrip / release) — for ALL event sequences and ALL response streams; trace acceptance: hook-recorded "
                 "C.* / T.* events of the real code under many goroutines against a scripted fake broker (reordering, delays, drops, duplicates, foreign ids, error codes, "
                 "slow/truncated bodies, closes, cancellations, deadlines) are replayed through the model's step function by a compiled Lean oracle, which also derives every "
                 "call's result and evaluates the payload-tag equality monitor; a byte-level model of the Fetch Batch (Model/BatchBytes.lean over Base/Reader: header, "
                 "magic-0/1 messages, Read/ReadMessage callbacks, Close) with the theorem that a kept conn has consumed exactly the frame, and a generic theorem for every program in "
                 "message_reader.go's size-threading discipline (Model/WireProg.lean); regenerated go/ast ties: 25 Boolean shape facts and 12 decision tables obtained by "
                 "symbolic execution of waitResponse, do, doRequest, ApiVersions, ReadBatchWith, Batch.close, conn.run, RoundTrip and the pool functions, each recomputed from the models by `decide`; "
                 "a model of the two deadline objects sharing the socket's single read deadline (Model/ConnDeadline.lean) with the isolation theorem, its discipline checked on the same tables; "
                 "correlation-id wrap (2^31, 2^32) exercised on the real Conn and protocol.Conn with preset counters",
    "level_claimed": {
        "category": "proof",
        "text": "Kernel-checked for every event sequence and every response stream (any order, duplicates, foreign ids): a call that obtains a frame obtained the frame at a "
                "position nobody else obtained, whose correlation id is the id it wrote, and holds the read lock alone while parsing it; wire ids of calls less than 2^32 apart "
                "differ; with a broker that labels frames truthfully the delivered payload tag is the request's tag and no waiter is ever stranded (otherwise stranded waiters are released by the earliest deadline and by nothing else); nothing is taken from a conn after a read failure; "
                "while an operation holds the read lock the socket's read deadline is the current value of that operation's own deadline object; a Batch that keeps its conn "
                "has consumed exactly the declared frame on every read path (magic 0/1 byte-exact, every other reader by the size-threading discipline); a pooled connection in the idle stack has consumed a response "
                "for every request written on it and never runs two exchanges at once; an abandoned call's frame is never delivered to another call.",
        "design_ref": "DESIGN.md §7 C06",
    },
    "level_note": "Trusted: Lean kernel; propext/Classical.choice/Quot.sound; the hand-written models Model/ConnMux.lean, Model/TransportConn.lean, Model/BatchBytes.lean, tied to conn.go / batch.go / "
                  "transport.go by regenerated decision tables and shape facts (go/extract/muxfacts, which is trusted to read the syntax tree correctly) and by trace acceptance on sampled schedules (hooks `verif hooks:` b23b539, 5911b5b); atomicity of each event = the mutex that brackets the hooked "
                  "statements (wlock, rlock, connGroup.mutex, the single run goroutine per conn); frames are consumed whole or the Conn is closed (C11's alignment; D2 fixed); "
                  "the fake broker and its journal; goroutine ids are read from runtime.Stack to attribute C.Write events to harness calls.",
}

MODULE = "KafkaVerif.Props.C06"


def run(ctx):
    ctx.assumptions += [
        "frames are consumed whole or the Conn is closed (C11 alignment): a mis-aligned Conn is outside the model",
        "fewer than 2^32 requests between two calls that are in flight together on one Conn / pooled connection (int32 correlation ids wrap)",
        "the broker labels a frame with the correlation id of the request it answers (a broker that swaps labels cannot be detected by any client); "
        "it may reorder, delay, drop, duplicate and invent frames",
        "each event is atomic: it sits inside the critical section of wlock / rlock / connGroup.mutex, or in the single goroutine that owns a pooled connection",
    ]
    broken = []
    ok, log = ctx.extract("muxfacts", ["lean/KafkaVerif/Gen/MuxFacts.lean"])
    if not ok:
        broken.append({"kind": "obligation", "name": "translator go/extract muxfacts", "detail": log[-1500:]})
    res = ctx.prove(MODULE)
    if not res["ok"]:
        broken.append({"kind": "obligation", "theorems": res["failed"], "detail": res["reasons"][:10]})
    dis = []
    orc, olog = ctx.oracle_build("oracle_c06")
    drv, dlog = ctx.go_build("./cmd/c06", "c06")
    if orc is None or drv is None:
        broken.append({"kind": "obligation", "name": "correspondence C06 could not be built", "detail": (olog + dlog)[-1500:]})
    else:
        lines, rc, err = ctx.run_driver(drv, [], timeout=1500)
        if rc != 0:
            broken.append({"kind": "obligation", "name": "driver c06 crashed or hung (rc=%s)" % rc, "detail": err[-3000:]})
        dis = ctx.correspond(lines, orc, "conn.go/batch.go/transport.go ↔ Model/ConnMux.lean, Model/TransportConn.lean (trace acceptance)")
        # coverage: which events occurred, distinct event bigrams (kinds only)
        kinds, bigrams, outcomes = {}, set(), {}
        for l in lines:
            if "\t" not in l:
                continue
            op, impl = l.split("\t", 1)
            w = op.split(" ")
            if w[0] == "bb":
                outcomes["bb:" + impl.split(";")[1]] = outcomes.get("bb:" + impl.split(";")[1], 0) + 1
            if w[0] in ("mux", "tconn") and len(w) > 2:
                evs = [w[0] + "." + (e[0] + (e[e.rfind(":"):] if (e[0] in "FD" or (w[0] == "tconn" and e[0] == "L")) else "")) for e in w[2].split(",") if e and e != "-"]
                for e in evs:
                    kinds[e] = kinds.get(e, 0) + 1
                bigrams.update(zip(evs, evs[1:]))
                for r in impl.split(","):
                    k = w[0] + ":" + (r.split(":")[1] if ":" in r else r)
                    outcomes[k] = outcomes.get(k, 0) + 1
        ctx.coverage["events"] = kinds
        ctx.coverage["event_bigrams"] = len(bigrams)
        ctx.coverage["call_outcomes"] = outcomes
        # distinct_nontrivial stays what ctx.correspond counted (distinct op lines); the bigram count is event_bigrams
    ctx.coverage["rule"] = ("Byte-level (op bb): 160 (thorough 1600) single Fetch exchanges on a fresh Conn — fetch v2/v5/v10 headers, 0–3 magic-0/1 messages with null/empty/random "
                            "keys and values, some below the fetch offset; truncated last message, stream ending inside the frame, set-size mismatch, watermark = offset, partition "
                            "errors, a following frame; 0–4 ReadMessage / Read(cap) calls with capacities around the value lengths, then Close — results, Close error, conn kept and "
                            "bytes consumed compared with Model/BatchBytes.fetchBatch; monitor: a kept conn consumed exactly the declared frame. "
                            "Fetch family: one caller, fetch v2/v5/v10 × MaxBytes {1MiB, 64, 200, 1} × keyed/unkeyed, Batch read through rm / rdF / rdsmall / rdexact / rdlarge mixes, each "
                            "followed by a tagged ReadOffset; value tails and skipped bytes spell a frame for the next correlation id with a foreign tag. "
                            "Buffered stress: 8 goroutines × 60 (thorough 400) barrier-synchronised ReadOffset(tag) rounds on one Conn over a unix socketpair, 6 (20) scenarios; "
                            "Conn: 1–6 goroutines × 1–4 calls (ReadOffset(tag), ReadPartitions(t<tag>), ReadBatchWith(MaxWait=tag) holding the read lock) on one Conn over net.Pipe; "
                            "the broker holds 1..n requests and answers fifo / reversed / shuffled with gaps; faults by request index: drop, error code, header-then-late-body, "
                            "truncated body + close, close; single-caller scenarios add frames with foreign ids and duplicates; conn-wide deadlines 40–120 ms. "
                            "Transport: 2–7 goroutines × 1–4 RoundTrips (ListOffsets(tag) to the partition leader, FindCoordinator(g<tag>) on the control group), contexts with deadline / "
                            "cancelled at a scripted time / generous; per-request faults delay, drop, wrong correlation id, close, answer after the deadline; connections are socketpairs; every third scenario is the "
                            "late-answer family (deadline 15–40 ms < scripted delay 80–140 ms, then the same request kind with another tag). Monitors: tag equality at the API and no in-flight id reused by a C.Write. "
                            "distinct_nontrivial = distinct op lines; event_bigrams = number of distinct bigrams of event kinds")
    concrete = [d for d in dis if d.get("kind") == "disagreement" and not d["holds_on_impl"]]
    others = [d for d in dis if d not in concrete]
    recorded = 0
    for d in concrete[:50]:
        recorded += ctx.violation({"kind": "trace", "input": d["op"], "actual": d["impl"], "expected": d["model"],
                                   "correspondence": d["correspondence"],
                                   "monitor": "tag equality: a call that returned a response returned the one carrying its own request's tag"},
                                  True, signature="%s => %s" % (d["op"][:150], d["impl"][:200]))
    if (broken or others) and recorded == 0:
        ctx.violation({"kind": "obligation", "broken": broken, "disagreements": others[:10],
                       "note": "a proof obligation or the model↔code correspondence (trace acceptance / derived call results) no longer checks; the search over %d recorded schedules found none on which the tag-equality monitor fails" % ctx.coverage["evaluations"]},
                      False, signature="obligation " + str(broken)[:300] + str([(d.get("model") or "")[:60] for d in others[:3]]))
    elif broken or others:
        for b in broken + others[:5]:
            ctx.notes.append("also broken: " + str(b)[:500])
