"""C10 — types documented as goroutine-safe are free of data races."""
import concurrent.futures, json, os, re, subprocess, sys

sys.path.insert(0, os.path.join(os.path.dirname(os.path.abspath(__file__)), "..", "lib"))
import kv

META = {
    "property_id": "C10",
    "engine": "lean-lockset",
    "technique": "Lean 4: (1) generic soundness theorem of the lockset discipline over an abstract lock/happens-before semantics (Mutex, RWMutex modes, go statements, hand-offs); "
                 "(2) a must-lockset analysis over program skeletons, proved sound for all runs (an_sound, prog_sound) and evaluated by the kernel on skeletons REGENERATED from the "
                 "sources (control structure, lock operations, access sites, static/interface calls, closures) — it re-derives every lockset of the regenerated access table "
                 "(repo_table_justified, repo_locks_held); (3) a simulation theorem from per-goroutine skeleton runs to global executions (sim) giving Respects and race freedom "
                 "for every execution whose goroutines follow the skeletons (repo_no_race_of_conformance_tokens); the table and skeletons are validated by generated concurrent "
                 "client programs over all 120 exported methods run under the Go race detector, every report classified against the table by a compiled Lean oracle",
    "level_claimed": {
        "category": "proof",
        "text": "Kernel-checked: lockset_sound / lockset_sound_tokens (all tables, all executions); repo_race_free (the regenerated table, ~1360 rows / 280 locations incl. package-level "
                "variables, protocol pages, codec objects, followed pointer aliases, published pointees); an_sound + prog_sound (the lockset analysis is sound for every run of every "
                "skeleton program); repo_skeleton_check / repo_table_justified / repo_locks_held (all 469 locked rows of the table are re-derived from the ~860 regenerated skeletons, "
                "0 unjustified); repo_no_race_of_conformance_tokens (no race in any well-formed execution whose goroutines follow the skeletons, given table completeness, token "
                "hand-offs and 26 annotated assumptions). PARTIAL by nature: the translation source→skeleton/table (syntax only, positions) and the annotations are trusted, "
                "sampled by race-detector runs.",
        "design_ref": "DESIGN.md §7 C10",
    },
    "level_note": "Weakest fit of the twenty (stated in DESIGN.md): proof over an extracted abstraction + race-detector sampling. Trusted/assumed (docs/notes/C10.md, "
                  "section `What Respects assumes`, U1-U8, with regression patches seeded/C10-unsound-*): the go/types extractor — since round 4 only its TRANSLATION of syntax into skeletons and table rows (the dataflow is re-derived in Lean); interface calls "
                  "by class-hierarchy candidates under the icall restriction (5 of 444 sites use it); function values and go-targets from the empty lockset; pointer aliases followed only from &x.f call arguments into struct fields; "
                  "locks and fields identified by Type.field, not by instance; unlocks through unnamed *sync.Mutex locals ignored); the reviewed annotations in "
                  "go/extract/accesses/access_annotations.json (closure locks of Conn.do, the read-lock hand-off waitResponse→Batch incl. the data-dependent guard batch.err, ownership "
                  "tokens for writeBatch / Writer.writerStats / Reader.cancel / protocol pages / per-call codec objects, SASL-before-publication, atomic stats types); the Go "
                  "memory model as abstracted in Model/Lockset.lean (channels, Once, WaitGroup, Pool only as tokens); the race detector only sees the schedules that happened.",
}

MODULE = "KafkaVerif.Props.C10"
SCENARIOS = ["balancers", "writer", "writergrow", "codecs", "codecfail", "readerfront", "reader", "readergroup", "readerrebalance", "conn", "connproduce", "connstray", "batch", "transport", "transportchurn", "transporttls", "clientapis"]

HDR = re.compile(r"^(Read|Write|Previous read|Previous write|Atomic read|Atomic write|Previous atomic read|Previous atomic write) at 0x[0-9a-f]+ by (?:goroutine \d+|main goroutine):")
FRAME = re.compile(r"^\s+(\S+):(\d+)(?: \+0x[0-9a-f]+)?$")


def parse_reports(stderr):
    """→ list of {"text":…, "stacks":[[(func,file,line),…],[…]]}"""
    reports, cur = [], None
    for line in stderr.split("\n"):
        if line.startswith("WARNING: DATA RACE"):
            cur = {"text": [], "stacks": [], "_in": False}
            reports.append(cur)
            continue
        if cur is None:
            continue
        if line.startswith("=================="):
            cur = None
            continue
        cur["text"].append(line)
        if HDR.match(line):
            cur["stacks"].append([]); cur["_in"] = True; cur["_fn"] = None
            continue
        if cur["_in"]:
            if not line.strip():
                cur["_in"] = False
                continue
            m = FRAME.match(line)
            if m and cur["_fn"] is not None:
                cur["stacks"][-1].append((cur["_fn"], m.group(1), int(m.group(2))))
                cur["_fn"] = None
            else:
                cur["_fn"] = line.strip()
    for r in reports:
        r["text"] = "\n".join(r["text"][:60])
        r.pop("_in", None); r.pop("_fn", None)
    return reports


def site_of(stack, repo, table_sites):
    """first frame inside the repository that is a site of the table, else the top frame inside the repository"""
    inrepo = []
    for fn, f, l in stack:
        rf = os.path.realpath(f)
        if rf.startswith(repo + os.sep) and not rf.endswith("_test.go"):
            inrepo.append((os.path.relpath(rf, repo), l, fn))
    for rel, l, fn in inrepo:
        if (rel, l) in table_sites:
            return "%s:%d" % (rel, l), fn
    if inrepo:
        return "%s:%d" % (inrepo[0][0], inrepo[0][1]), inrepo[0][2]
    return None, None


def run(ctx):
    repo = os.path.realpath(kv.REPO)
    thorough = ctx.tier == "thorough"
    ctx.assumptions += [
        "real executions respect the extracted table: every access to a field of a tracked type is one of the tabulated sites and happens while the recorded locks are held (extractor soundness; sampled by the race detector)",
        "aliasing by field identity: a lock / field is identified by Type.field; holding Type.mutex of one instance while touching another instance's field is not distinguished",
        "interface calls are approximated by edges to every implementing method, function values start from the empty lockset; pointers to fields are followed only from &x.f call arguments into struct fields (readerStack.reader → Conn.rbuf); escapes through locals/returns/maps/channels are not (notes U2)",
        "hand-offs listed in go/extract/accesses/access_annotations.json (closure_locks, call_acquires, tokens, ctor_funcs, atomic_types) hold as justified there; tokens stand for channel/Once/WaitGroup ordering",
        "Go memory model as abstracted in Model/Lockset.lean: program order, unlock→lock (RUnlock↛RLock), go statement; atomics are race free among themselves",
        "race-detector validation covers only the schedules that occurred in the generated programs (quick: 17 scenarios × 8 rounds; thorough: × 500 rounds × 4 seeds, GOMAXPROCS 2/4/8/16)",
    ]
    broken = []
    # ---- 1. regenerate the table
    ok, log = ctx.extract("accesses", ["lean/KafkaVerif/Gen/Accesses.lean", "lean/KafkaVerif/Gen/Skeletons.lean", ".build/c10/accesses.json"])
    table = {"rows": [], "racy": [], "excluded": [], "unresolved": [], "confinement": [], "annotations_used": [], "fields": 0, "locks": []}
    if not ok:
        broken.append({"kind": "obligation", "name": "translator go/extract accesses", "detail": log[-1500:]})
    else:
        table = json.load(open(os.path.join(kv.BUILD, "c10", "accesses.json")))
        for k in ("racy", "excluded", "unresolved", "confinement", "annotations_used"):
            table[k] = table.get(k) or []
    for m in (table.get("missed_sites") or [])[:20]:
        broken.append({"kind": "obligation", "name": "translation incomplete: a field selection of a tracked type produced no table row", "detail": m})
    if table.get("lock_ops_in_source") != table.get("lock_ops_in_skeletons"):
        broken.append({"kind": "obligation", "name": "translation incomplete: lock operations in the sources vs in the skeletons",
                       "detail": "%s in the sources, %s translated" % (table.get("lock_ops_in_source"), table.get("lock_ops_in_skeletons"))})
    for c in table["confinement"]:
        broken.append({"kind": "obligation", "name": "annotation side condition violated", "detail": c})
    for c in [r for r in (table.get("reference_fields") or []) if r.endswith(": unclassified")][:20]:
        broken.append({"kind": "obligation", "name": "a reference-typed field of a tracked struct is neither tracked, nor declared unsafe (pointee rows), nor declared safe by contract",
                       "detail": c + " — classify its type in go/extract/accesses/access_annotations.json (unsafe_pointee_types / safe_pointee_types)"})
    for c in (table.get("copied_locks") or [])[:20]:
        broken.append({"kind": "obligation", "name": "lock operation on a by-value copy of a mutex (value receiver / struct parameter): it excludes nobody", "detail": c})
    table_sites = {(r["file"], r["line"]) for r in table["rows"]}
    # ---- 1b. lock facts: the compiled oracle computes the entry-lockset fixpoint and the list of table rows the
    # verified analysis does not re-derive; the kernel re-checks both (Props/C10 §4)
    lf = os.path.join(kv.LEAN, "KafkaVerif", "Gen", "LockFacts.lean")
    try: os.remove(lf)
    except FileNotFoundError: pass
    orc, olog = ctx.oracle_build("oracle_c10")
    lockfacts = {}
    if orc is not None:
        p = subprocess.run([orc, "lockfacts"], capture_output=True, text=True, timeout=300)
        if p.returncode == 0 and "def skEntryR" in p.stdout:
            open(lf, "w").write(p.stdout)
            m = re.search(r"def unjustifiedOcc : List Nat := \[([^\]]*)\]", p.stdout)
            unj = [int(x) for x in m.group(1).split(",") if x.strip()] if m else []
            m = re.search(r"def loweredEntries : List Nat := \[([^\]]*)\]", p.stdout)
            low = [int(x) for x in m.group(1).split(",") if x.strip()] if m else []
            by_occ = {r.get("occ"): r for r in table["rows"]}
            mi = re.search(r"def icallSites : Nat := (\d+)\ndef icallSitesUsingRestriction : Nat := (\d+)", p.stdout)
            lockfacts = {"unjustified_rows": len(unj), "lowered_entries": len(low),
                         "interface_call_candidate_sites": int(mi.group(1)) if mi else None,
                         "of_which_use_the_icall_restriction": int(mi.group(2)) if mi else None,
                         "skeletons": p.stdout.count("(.node (some [") // 2 if False else len(re.findall(r"^def sk\d+ : Cmd", open(os.path.join(kv.LEAN, "KafkaVerif", "Gen", "Skeletons.lean")).read(), re.M)),
                         "annotated_assumptions_asm": open(os.path.join(kv.LEAN, "KafkaVerif", "Gen", "Skeletons.lean")).read().count("(.asm ") // 2,
                         "unjustified_sites": sorted({"%s:%d %s" % (by_occ[o]["file"], by_occ[o]["line"], by_occ[o]["func"]) for o in unj if o in by_occ})[:80]}
        else:
            broken.append({"kind": "obligation", "name": "oracle_c10 lockfacts failed", "detail": (p.stdout[-300:] + p.stderr[-800:])})
    # ---- 2. proofs
    res = ctx.prove(MODULE)
    if not res["ok"]:
        pairs = ["%s: %s:%d %s [%s] ~ %s:%d %s [%s]" % (p["Field"], p["A"]["file"], p["A"]["line"], p["A"]["func"], ",".join(p["A"]["locks"] or []),
                                                       p["B"]["file"], p["B"]["line"], p["B"]["func"], ",".join(p["B"]["locks"] or [])) for p in table["racy"][:40]]
        broken.append({"kind": "obligation", "theorems": res["failed"], "detail": res["reasons"][:10],
                       "unprotected_pairs_in_table": pairs})
    # ---- 3. race-detector validation
    drv, dlog = ctx.go_build("./cmd/c10", "c10race", tags="c10", race=True)
    lines, reports, scen_info = [], [], {}
    if orc is None or drv is None:
        broken.append({"kind": "obligation", "name": "correspondence C10 could not be built (oracle / go build -race)", "detail": (olog + dlog)[-1500:]})
    else:
        jobs = []
        rounds = 500 if thorough else 8
        seeds = [ctx.seed] if not thorough else [ctx.seed, ctx.seed + 1000, ctx.seed + 2000, ctx.seed + 3000]
        procs = [None] if not thorough else ["2", "4", "8", "16"]
        only = None
        if ctx.replay:
            rp = json.load(open(ctx.replay))
            only = rp.get("scenario")
        for s in SCENARIOS:
            if only and s != only:
                continue
            for i, sd in enumerate(seeds):
                n = rounds
                if thorough and s == "writergrow":
                    n = 30       # partition counts grow by 384 per round: more rounds only make metadata answers huge
                if thorough and s == "readerrebalance":
                    n = 150      # ≈ 0.5 s per round (real rebalances)
                jobs.append((s, sd, n, procs[i % len(procs)]))
                if thorough and s == "writergrow":
                    for extra in range(1, 6):
                        jobs.append((s, sd + 7 * extra, n, procs[(i + extra) % len(procs)]))
        if only:  # a replay: races are schedule dependent — repeat the observation
            jobs = jobs * 12

        def one(job):
            s, sd, n, gmp = job
            env = dict(os.environ, VERIF_SEED=str(sd), VERIF_TIER=ctx.tier, GORACE="halt_on_error=0")
            if gmp:
                env["GOMAXPROCS"] = gmp
            try:
                p = subprocess.run([drv, s, str(n)], capture_output=True, text=True, timeout=600, env=env)
                return job, p.returncode, p.stdout, p.stderr
            except subprocess.TimeoutExpired as e:
                return job, -9, (e.stdout or b"").decode() if isinstance(e.stdout, bytes) else (e.stdout or ""), "timeout"

        with concurrent.futures.ThreadPoolExecutor(max_workers=6 if thorough else 4) as ex:
            results = list(ex.map(one, jobs))
        methods, opmap, round_ops = {}, {}, []
        for (s, sd, n, gmp), rc, out, err in results:
            reps = parse_reports(err)
            done = [l for l in out.split("\n") if l.startswith("done ")]
            if rc not in (0, 66) or not done:
                broken.append({"kind": "obligation", "name": "driver c10 %s crashed / hung (rc=%s)" % (s, rc), "detail": (out[-600:] + err[-1200:])})
            for l in out.split("\n"):
                if l.startswith("round "):
                    lines.append("%s\tran" % l)
                    ops_of_round = l.split("ops=", 1)[1].split(",")
                    round_ops.append((s, set(ops_of_round)))
                    for m in ops_of_round:
                        methods[m] = methods.get(m, 0) + 1
                elif l.startswith("opmap "):
                    _, o, ms = l.split(" ", 2)
                    opmap[o] = sorted(set(opmap.get(o, [])) | set(ms.split(",")))
                elif l.startswith("panic ") or l.startswith("skipped "):
                    ctx.notes.append("driver observation: " + l)
                elif l.startswith("stuck ") or l.startswith("codec-mismatch"):
                    ctx.notes.append("driver observation: " + l)
            scen_info["%s seed=%d" % (s, sd)] = {"rounds": n, "reports": len(reps), "rc": rc,
                                                 "succeeded_calls": done[0].split(" ok: ", 1)[1] if done and " ok: " in done[0] else ""}
            if not reps and rc != 66:
                lines.append("scen %s seed=%d rounds=%d\tclean" % (s, sd, n))
            for r in reps:
                if len(r["stacks"]) < 2:
                    broken.append({"kind": "obligation", "name": "unparsable race report", "detail": r["text"][:800]})
                    continue
                (l1, f1), (l2, f2) = site_of(r["stacks"][0], repo, table_sites), site_of(r["stacks"][1], repo, table_sites)
                if l1 is None or l2 is None:
                    if l1 is None and l2 is None:
                        broken.append({"kind": "obligation", "name": "race inside the harness itself (no kafka-go frame)", "detail": r["text"][:1200]})
                        continue
                    l1, l2 = l1 or "harness:0", l2 or "harness:0"
                a, b = sorted([l1, l2])
                r.update(scenario=s, seed=sd, rounds=n, gomaxprocs=gmp, key="race %s %s" % (a, b), funcs=sorted([str(f1), str(f2)]))
                reports.append(r)
        seen = set()
        for r in reports:
            if r["key"] not in seen and len(seen) < 30:   # a broken pool discipline yields hundreds of reports: the first 30 distinct pairs
                seen.add(r["key"])
                lines.append("%s\treported" % r["key"])
        ctx.coverage["detector_reports"] = {"total": len(reports), "distinct_site_pairs": len({r["key"] for r in reports})}
        ctx.coverage["methods_invoked"] = dict(sorted(methods.items()))
        # per-method reach table: in how many generated concurrent programs (rounds) was the exported method
        # invoked — by an operation named after it or by one the driver declares (`opmap`) to call it
        exported = table.get("exported_methods") or []
        reach = {m: {"programs": 0, "scenarios": set()} for m in exported}
        for scen, opset in round_ops:
            hit = set()
            for o in opset:
                hit.add(o)
                hit |= set(opmap.get(o, []))
            for m in hit:
                if m in reach:
                    reach[m]["programs"] += 1
                    reach[m]["scenarios"].add(scen)
        ctx.coverage["exported_methods_of_tracked_types"] = len(exported)
        ctx.coverage["method_reach"] = {m: {"programs": v["programs"], "scenarios": sorted(v["scenarios"])} for m, v in sorted(reach.items())}
        unreached = sorted(m for m, v in reach.items() if v["programs"] == 0)
        ctx.coverage["exported_methods_not_reached_by_driver_ops"] = unreached
        if unreached:
            ctx.notes.append("exported methods of tracked types not invoked by any generated program in this run: " + ", ".join(unreached))
    dis = ctx.correspond(lines, orc, "race detector reports ↔ Gen/Accesses.lean (lockset table)",
                         nontrivial=lambda op, impl: op.startswith("round ")) if orc and lines else []
    # ---- coverage
    ctx.coverage["rule"] = ("generated concurrent client programs: per scenario (balancers, writer+fake RoundTripper, writers over topics with growing partition counts through every balancer, codecs, codecs with failing destinations/sources and double Close, reader front with failing dialer, reader / consumer-group reader with a single-member fake coordinator / conn+batch / transport+client "
                            "against an in-process fake broker over net.Pipe) each round draws 5–18 operations from the exported methods (with forced Close / SetOffset / Seek / Batch.Err mixes), "
                            "runs each in its own goroutine released together, under `go build -race` without the verif tag (production synchronisation only). "
                            "distinct = distinct (scenario, operation multiset) rounds; evaluations also count one line per clean scenario run and per distinct detector report")
    ctx.coverage["table"] = {"rows": len(table["rows"]), "fields": table["fields"], "locks": table["locks"],
                             "published_rows": sum(1 for r in table["rows"] if r["phase"] == "published"),
                             "atomic_rows": sum(1 for r in table["rows"] if r["atomic"]),
                             "rows_with_lock": sum(1 for r in table["rows"] if r["locks"]),
                             "annotations_used": table["annotations_used"], "unresolved_lock_ops": table["unresolved"],
                             "excluded_rows": len(table["excluded"]), "unprotected_pairs": len(table["racy"]),
                             "global_variables": sum(1 for f in {r["field"] for r in table["rows"]} if f.startswith("global:")),
                             "pointer_aliases_followed": table.get("pointer_aliases") or [],
                             "interface_call_edges_added": table.get("interface_call_edges", 0),
                             "field_selections_without_row": len(table.get("missed_sites") or []),
                             "lock_ops_in_source": table.get("lock_ops_in_source"), "lock_ops_in_skeletons": table.get("lock_ops_in_skeletons")}
    try:
        sk_src = open(os.path.join(kv.LEAN, "KafkaVerif", "Gen", "Skeletons.lean")).read()
        mex = re.search(r"def exemptOcc : List Nat := \[([^\]]*)\]", sk_src)
        exempt = [int(v) for v in mex.group(1).split(",") if v.strip()] if mex else []
    except OSError:
        exempt = []
    if exempt:
        by_occ2 = {r.get("occ"): r for r in table["rows"]}
        lockfacts["exempt_rows"] = len(exempt)
        ctx.notes.append("rows whose function uses goto/fallthrough (locksets not re-derived from skeletons, Go-side dataflow assumed): " +
                         ", ".join(sorted({"%s:%d %s" % (by_occ2[o]["file"], by_occ2[o]["line"], by_occ2[o]["func"]) for o in exempt if o in by_occ2})[:20]))
    if lockfacts.get("unjustified_rows") or lockfacts.get("lowered_entries"):
        broken.append({"kind": "obligation", "name": "locksets of the access table not re-derived by the verified analysis of the skeletons",
                       "detail": "unjustified rows: %s; entry locksets lowered by the fixpoint: %s" % (lockfacts.get("unjustified_sites"), lockfacts.get("lowered_entries"))})
    rows_with_real_locks = sum(1 for r in table["rows"] if [l for l in (r["locks"] or []) if ":" not in l.split(":R")[0]])
    ctx.coverage["lockset_analysis"] = dict(lockfacts, rows_with_real_locks=rows_with_real_locks,
                                            note="rows outside unjustified_sites: locksets re-derived by the verified analysis of the regenerated skeletons (repo_locks_held)")
    ctx.coverage["scenarios"] = scen_info
    # ---- decide
    recorded = 0
    by_key = {r["key"]: r for r in reports}
    for d in dis:
        if d.get("kind") == "disagreement" and d["op"].startswith("race "):
            r = by_key.get(d["op"], {})
            sig = "race %s %s / %s (%s)" % (d["model"], (r.get("funcs") or ["?", "?"])[0], (r.get("funcs") or ["?", "?"])[1], d["op"])
            recorded += ctx.violation({"kind": "ops", "input": d["op"], "scenario": r.get("scenario"), "scenario_seed": r.get("seed"), "rounds": r.get("rounds"),
                                       "gomaxprocs": r.get("gomaxprocs"), "table_says": d["model"],
                                       "actual": "Go race detector report on the real code", "report": r.get("text", ""),
                                       "correspondence": d["correspondence"],
                                       "expected": "no report, or a report on a pair the table marks unprotected under a recorded finding",
                                       "manual": "cd go && CGO_ENABLED=1 go build -race -o ../.build/c10race ./cmd/c10 && VERIF_SEED=%s ../.build/c10race %s %s" % (r.get("seed"), r.get("scenario"), r.get("rounds"))},
                                      True, signature=sig)
        elif d.get("kind") != "disagreement" or not d["op"].startswith("race "):
            broken.append({"kind": "obligation", "name": "oracle/driver protocol", "detail": str(d)[:500]})
    # rows excluded under a recorded finding: each must be a KNOWN finding
    for f in sorted({r.get("finding") for r in table["excluded"] if r.get("finding")}):
        rows = [r for r in table["excluded"] if r.get("finding") == f]
        recorded += ctx.violation({"kind": "obligation", "input": "excluded %s" % f, "rows": rows[:10],
                                   "note": "rows excluded from repo_race_free by access_annotations.json"}, False,
                                  signature="excluded %s %s" % (f, rows[0]["field"]))
    if broken and recorded == 0:
        ctx.violation({"kind": "obligation", "broken": broken[:20],
                       "note": "a proof obligation, the translator or the race-detector correspondence no longer checks; %d generated concurrent programs produced no detector report"
                               % sum(1 for l in lines if l.startswith("round "))},
                      False, signature="obligation " + str(broken)[:300])
    elif broken:
        for b in broken:
            ctx.notes.append("also broken: " + str(b)[:700])
