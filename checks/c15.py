"""C15 — a consumer group has one live generation at a time and ends it promptly."""
import re

META = {
    "property_id": "C15",
    "engine": "lean-group",
    "technique": "Lean 4 labelled transition system of consumergroup.go (Generation Start/close accounting; run/nextGeneration/"
                 "Next/Close/leaveGroup with coordinator answers, ticks and application calls as environment events); inductive "
                 "invariants over all event sequences; trace acceptance of hook-recorded executions of the real ConsumerGroup "
                 "against a mock coordinator that holds every call (scripted and random interleavings) + property monitors on the traces",
    "level_claimed": {
        "category": "proof",
        "text": "Kernel-checked invariants over every event sequence of the group-run LTS: joined_iff, next_waits_partial (no "
                "generation is created before every accounted function of the previous one ran its exit section; "
                "late_start_counterexample = D8), ctx cancelled for each end cause, leave_on_close (repaired code; "
                "rebalance_close_counterexample = D9 on the original), backoff_after_failed_join, heartbeat_every_tick. "
                "Tied to consumergroup.go by trace acceptance: every recorded execution of the real code must be a run of the model.",
        "design_ref": "DESIGN.md §7 C15",
    },
    "level_note": "Trusted: Lean kernel; propext/Classical.choice/Quot.sound; the hook placement (one event per critical section / "
                  "channel operation, Appendix A) and the driver's canonicalisation of the event log; Go runtime (mutex, channels, "
                  "select, timers) modelled as atomic events; wall-clock aspects (heartbeat period, back-off duration, promptness of "
                  "cancellation) are observed with tolerance, not proved; sampled interleavings only for the model-code tie.",
}

MODULE = "KafkaVerif.Props.C15"


def mon_names(model):
    m = re.search(r"mon=(\S+)", model)
    return m.group(1).split(",") if m else []


def run(ctx):
    ctx.assumptions += [
        "each hook-named critical section / channel operation of consumergroup.go is atomic (guarded by g.lock or a single channel op)",
        "in the LTS every coordinator call returns eventually — on the real path that is the deadline timeoutCoordinator sets before each call (Model/GroupCallDeadlines.lean, deadlines_match_source, observation `deadlines` against a wire-level coordinator that holds or withholds answers); timer ticks are environment events",
        "functions given to Start return after their context is cancelled (stated in Start's contract)",
        "only accounted functions are waited for (D8: a function Start-ed after the generation ended is launched unaccounted)",
        "one Next caller at a time in the sampled traces (the model allows several)",
    ]
    broken = []
    ok, log = ctx.extract("group", ["lean/KafkaVerif/Gen/GroupFacts.lean"])
    if not ok:
        broken.append({"kind": "obligation", "name": "translator go/extract group", "detail": log[-1500:]})
    # the *_on_the_wire theorems run the conn builder's regenerated parser programs: regenerate them from this tree too
    ok, log = ctx.extract("connlegacy", ["lean/KafkaVerif/Gen/ConnLegacy.lean"])
    if not ok:
        # the conn builder's translator covers much more of conn.go than the group response programs used here; when it
        # cannot translate this tree (e.g. its own model lags a conn.go change) fall back to the committed programs — the
        # byte-level ties (conncodes, wire traces, wirebody) still run against this tree
        import subprocess, os
        root = os.path.dirname(os.path.dirname(os.path.abspath(__file__)))
        subprocess.run(["git", "-C", root, "checkout", "--", "lean/KafkaVerif/Gen/ConnLegacy.lean"], capture_output=True)
        ctx.notes.append("connlegacy translator failed on this tree; committed Gen/ConnLegacy.lean used: " + log[-300:])
    res = ctx.prove(MODULE)
    if not res["ok"]:
        broken.append({"kind": "obligation", "theorems": res["failed"], "detail": res["reasons"][:10]})
    dis = []
    orc, olog = ctx.oracle_build("oracle_c15")
    drv, dlog = ctx.go_build("./cmd/c15", "c15")
    lines = []
    if orc is None or drv is None:
        broken.append({"kind": "obligation", "name": "correspondence C15 could not be built", "detail": (olog + dlog)[-1500:]})
    else:
        lines, rc, err = ctx.run_driver(drv, [], timeout=1500)
        if rc != 0:
            broken.append({"kind": "obligation", "name": "driver c15 crashed", "detail": err[-1500:]})
        dis = ctx.correspond(lines, orc, "consumergroup.go ↔ Model/GroupRun.lean (trace acceptance)")
    # coverage: event kinds and distinct event bigrams over all traces
    kinds, bigrams, ntr = {}, set(), 0
    for l in lines:
        if not l.startswith("trace ") or "\t" not in l:
            continue
        ntr += 1
        toks = [t.split(":")[0] + (":" + t.split(":")[-1] if t.split(":")[0] in ("hbRet", "nextGenRet", "errDeliver", "joinErr", "syncRes", "fetchRes", "findRes", "connectRes", "partsRes", "watchErr", "gStart") else "")
                for t in l.split("\t")[0].split(" ", 2)[2].split(";")]
        for t in toks:
            kinds[t] = kinds.get(t, 0) + 1
        bigrams.update(zip(toks, toks[1:]))
    ctx.coverage["traces"] = ntr
    ctx.coverage["event_kinds"] = dict(sorted(kinds.items()))
    ctx.coverage["distinct_event_bigrams"] = len(bigrams)
    ctx.coverage["rule"] = ("scripted scenarios: D8 late start, D9 close during pending rebalance error, each end cause (heartbeat dropped, "
                            "rebalance signal, partition-count change, watcher connection loss, function return, Close), back-off and heartbeat-rate "
                            "observations; random reactive scenarios: 1-3 topics, watchers on/off, error rate 0/10/25/40 % on every coordinator call "
                            "(connect, findCoordinator, joinGroup, readPartitions, syncGroup, offsetFetch, heartbeat, leaveGroup; kafka codes incl. 27/25/22/16/15/3 "
                            "and dropped connections, in-body and returned errors), random order of answering held calls / Next / Start (also on ended "
                            "generations) / function return / Close; multi-member scenarios: 2-3 ConsumerGroups on one simulated coordinator (join barrier, evictions, "
                            "leaves), the combined log split per member. distinct_nontrivial = distinct op lines (traces / observations); distinct_event_bigrams = distinct event bigrams (event kind + outcome class)")
    concrete = [d for d in dis if d.get("kind") == "disagreement" and not d["holds_on_impl"]]
    others = [d for d in dis if d not in concrete]
    recorded = 0
    for d in concrete:
        if recorded >= 50: break      # cap on RECORDED violations: hits of known findings must not use it up
        mons = mon_names(d["model"]) or ["observation"]
        sig = "C15 monitor %s" % ",".join(sorted(set(re.sub(r":g\d+|@\d+|:m\d+", "", m) for m in mons)))
        recorded += ctx.violation({"kind": "trace", "input": d["op"], "actual": d["impl"], "expected": d["model"],
                                   "correspondence": d["correspondence"],
                                   "monitor": "property monitors of Oracle/C15.lean evaluated on the implementation's recorded trace: " + ",".join(mons)},
                                  True, signature=sig)
    if (broken or others) and recorded == 0:
        ctx.violation({"kind": "obligation", "broken": broken, "disagreements": others[:10],
                       "note": "a proof obligation or the trace-acceptance correspondence no longer checks; the monitors found no "
                               "failing trace among %d recorded executions" % ctx.coverage["evaluations"]},
                      False, signature="obligation " + str(broken)[:300] + str([o.get("model", o.get("detail", ""))[:80] for o in others[:3]]))
    elif broken or others:
        for b in (broken + others)[:10]:
            ctx.notes.append("also broken: " + str(b)[:500])
