"""C07 — Writer preserves per-partition submission order, also across retries."""
import os, sys
sys.path.insert(0, os.path.join(os.path.dirname(os.path.dirname(os.path.abspath(__file__))), "lib"))
import writer_common

META = {
    "property_id": "C07",
    "engine": "lean-writer-lts",
    "technique": "Lean 4 theorems by invariants over all event sequences of the Writer LTS (Model/Writer.lean): one partition writer per topic-partition, FIFO queue, one in-flight batch per sender, submission sequence numbers as ghost state; tie = trace acceptance of hook-recorded runs of the real Writer (fake RoundTripper holding / failing attempts while later batches queue up) + order monitor on the broker journal",
    "level_claimed": {
        "category": "proof",
        "text": "Kernel-checked for every configuration and every finite event sequence: the log of each topic-partition is a concatenation of whole copies of batches of that partition's single writer, in batch-creation order (every copy of an earlier batch precedes every copy of a later one, also across retries), and inside a batch / across batches the ghost submission numbers increase (order_preserved); stamps follow the index order within a call (add_in_index_order), and if a call returned before another began all its stamps are smaller (successive_calls_ordered, begin_after_return); one partition writer per topic-partition (one_sender_per_partition, no_writer_after_close). Tied to writer.go by trace acceptance on recorded runs.",
        "design_ref": "DESIGN.md §7 C08, C07, C01, C09(Writer)",
    },
    "level_note": "Trusted: Lean kernel; standard axioms; hook placement; the fake broker; sampled schedules for the tie. 'One goroutine submits in successive calls' is represented by: call k returns before call k+1 begins, so its adds carry smaller sequence numbers (global counter). Requires the D1/D1b fix (no partition writer after Close); the seeded reverse patches are detected by trace rejection (W.NewPW after close) and, when the race is realised, by the order monitor.",
}

MODULE = "KafkaVerif.Props.C07"

def run(ctx):
    writer_common.run_writer(ctx, "c07", MODULE, "holdsC07 (per goroutine and partition: order inside each applied request, every copy of an earlier batch before every copy of a later one)")
