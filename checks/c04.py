"""C04 — every frame on the wire is the canonical Kafka encoding; decoding inverts it."""
import os, sys
sys.path.insert(0, os.path.join(os.path.dirname(os.path.dirname(os.path.abspath(__file__))), "lib"))
import codec

META = {
    "property_id": "C04",
    "engine": "lean-wire-codec",
    "technique": "Lean 4: one mutual-induction round-trip theorem over an executable model of the reflection codec (encode.go/decode.go/request.go/response.go) for ALL resolved schemas and values; struct tags re-extracted from protocol/*/*.go on every run and resolved per version by a Lean model of protocol.go; byte-level model<->code correspondence in both directions through a compiled Lean oracle; independent Kafka wire reference + audited golden schema table as monitor; the hand-written Conn codec (sizeof.go/write.go writers, write*RequestV* functions incl. the message-set writer, readFrom / reflective response readers) re-translated from the source into Lean on every run with generated theorems: announced size = bytes written, writer = model encoder = reference encoding under the golden schema, reader inverts writer",
    "level_claimed": {
        "category": "proof",
        "text": "Kernel-checked: decode (encode v ++ rest) = (norm v, rest) for every resolved schema type and every well-typed value (no size bound besides int32 frames), frame size prefix = bytes that follow, a framed response is consumed exactly, unknown tagged fields are skipped, model encoder = Kafka reference encoder; Conn codec: legacy_size, legacy_model, legacy_eq_spec, read_write, legacy_read_spec for every translated type / call site; instantiated at every registered API x version re-extracted from the source. Tied to the code by regenerated schemas and by running WriteRequest/WriteResponse/ReadRequest/ReadResponse (default and unsafe builds) against the model on generated values, both directions.",
        "design_ref": "DESIGN.md §7 C04",
    },
    "level_note": "Trusted: Lean kernel + propext/Classical.choice/Quot.sound; the go/ast schema extractor; the driver/oracle correspondence (sampled values); Spec/KafkaWire.lean and the golden table Spec/KafkaSchemas.lean are transcriptions from the published Kafka protocol (all 39 registered APIs audited over the tree's version ranges, CreateTopics v5 excepted; nullability deviations are accepted as audit notes and follow the tree); RecordSet payloads are opaque blobs here (C05). Conn codec: the go/ast translators of go/extract/legacy (types, writers, readers — untranslatable items are listed in Gen.Legacy.untranslated / noReader / noSchema and covered by correspondence only); []byte nil ~ empty and the `remain` byte accounting of the readers are not modelled; which argument lands in which same-typed field of a write*RequestV* body is checked by correspondence (connreqv) only.",
}

MODULE = "KafkaVerif.Props.C04"


def run(ctx, variants=(("verif", "c04"), ("verif,unsafe", "c04u"))):
    ctx.assumptions += [
        "values fit int32-sized frames: strings < 2^15 bytes in non-flexible versions, arrays/bytes < 2^31 (WellTyped)",
        "schemas are well-formed (Ty.wf, evaluated on every resolved registered schema): array elements have positive width, tag ids distinct and >= 0",
        "RecordSet / RawRecordSet fields are an int32-size-prefixed opaque payload (their inside is C05)",
        "golden table: all 39 APIs registered by the tree are audited (transcribed from the Kafka message definitions) over the version ranges the tree supports, CreateTopics v5 excepted (reference = tree there); nullability deviations accepted as audit notes (Spec.auditNotes); C04-D30 (DescribeAcls v2-v3 request) is a known finding",
        "Go's empty string stands for null in nullable string fields (library convention accepted as canonical)",
    ]
    broken = []
    codec.extract_all(ctx, broken)
    res = ctx.prove(MODULE)
    if not res["ok"]:
        broken.append({"kind": "obligation", "theorems": res["failed"], "detail": res["reasons"][:10]})
    thms = list(ctx.coverage.get("theorems", []))
    # the hand-written Conn codec: size()/writeTo() of every root-package request type, re-translated and re-proved
    okl, logl = ctx.extract("legacy", ["lean/KafkaVerif/Gen/Legacy.lean", "lean/KafkaVerif/Gen/LegacyGolden.lean"])
    if not okl:
        broken.append({"kind": "obligation", "name": "translator go/extract legacy", "detail": logl[-1500:]})
    resl = ctx.prove("KafkaVerif.Gen.Legacy", thorough_leanchecker=False)
    if not resl["ok"]:
        broken.append({"kind": "obligation", "name": "Gen/Legacy.lean: legacy_size (announced size = bytes written) / legacy_model / read_write (reader inverts writer) no longer prove for the Conn codec",
                       "theorems": resl["failed"], "detail": resl["reasons"][:10]})
    thms += list(ctx.coverage.get("theorems", []))
    # … and what each (*Conn).writeRequest call site emits is the reference encoding under the golden schema
    # (depends on Gen.Legacy: when that does not build, its failure is the report — no second 50 s attempt)
    resg = ctx.prove("KafkaVerif.Gen.LegacyGolden", thorough_leanchecker=False) if resl["ok"] else {"ok": True, "failed": [], "reasons": []}
    if not resg["ok"]:
        broken.append({"kind": "obligation", "name": "legacy_eq_spec / legacy_read_spec (Conn request body = reference encoding under the golden schema; response reader inverts it) no longer prove",
                       "theorems": resg["failed"], "detail": resg["reasons"][:10]})
    ctx.coverage["theorems"] = thms + list(ctx.coverage.get("theorems", []))
    try:
        gl = open(os.path.join(os.path.dirname(os.path.dirname(os.path.abspath(__file__))), "lean", "KafkaVerif", "Gen", "Legacy.lean")).read()
        import re as _re
        m = _re.search(r"def untranslated : List \(String × String\) := \[(.*)\]", gl)
        ctx.coverage["legacy_untranslated"] = _re.findall(r'\("([A-Za-z0-9]+)", "((?:[^"\\]|\\.)*)"\)', m.group(1)) if m else []
        m = _re.search(r"def emitted : List String := \[(.*)\]", gl)
        ctx.coverage["legacy_emitted_types"] = _re.findall(r'"([A-Za-z0-9?]+)"', m.group(1)) if m else []
    except Exception as e:
        ctx.notes.append("legacy summary: %s" % e)
    dis = []
    orc, olog = ctx.oracle_build("oracle_c04")
    if orc is None:
        broken.append({"kind": "obligation", "name": "oracle_c04 could not be built", "detail": olog[-1500:]})
    # struct tags that say `compact` below the message's first flexible version: no effect on the wire (the codec never reads the
    # option: compactness follows the message's flexibility, see enc/dec of those versions against the golden table) — listed
    if orc is not None:
        lint, _e = codec.oracle_lines(ctx, orc, ["lint compact => -"])
        if lint and lint[0].startswith("model="):
            ctx.coverage["compact_tag_below_flexible_version (dead metadata, no wire effect)"] = [x for x in lint[0][6:lint[0].rindex(" holds=")].split(",") if x]
    orcleg, oleglog = ctx.oracle_build("oracle_c04leg") if resl["ok"] else (None, "Gen/Legacy.lean does not build")
    if orcleg is None and resl["ok"]:
        broken.append({"kind": "obligation", "name": "oracle_c04leg (needs Gen/Legacy.lean) could not be built", "detail": oleglog[-1500:]})
    for tags, name in variants:
        if orc is None:
            break
        drv, dlog = ctx.go_build("./cmd/c04", name, tags=tags)
        if drv is None:
            broken.append({"kind": "obligation", "name": "driver c04 (%s) could not be built" % tags, "detail": dlog[-1500:]})
            continue
        lines, rc, err = ctx.run_driver(drv, [])
        if rc != 0:
            broken.append({"kind": "obligation", "name": "driver c04 (%s) crashed" % tags, "detail": err[-1500:]})
        direct = [l for l in lines if "\t" in l and not l.startswith("spec ")]
        dis += ctx.correspond(direct, orc, "protocol codec (%s) <-> Model/Codec.lean" % tags)
        # the generated Lean models of the Conn response readers (Gen/Legacy.lean T.readFrom, subject of read_write) on the
        # same bodies: same bytes left, same re-encoding
        if orcleg is not None:
            leg = []
            for l in lines:
                if l.startswith("legread ") and "\t" in l:
                    op, impl = l.split("\t", 1)
                    w = op.split(" ")
                    if len(w) == 5:
                        leg.append("legmodel %s %s %s\t%s" % (w[2], w[3], w[4], impl))
            dis += ctx.correspond(leg, orcleg, "Conn response readers (%s) <-> Gen/Legacy.lean readFrom models" % tags)
        # second direction: reference frames (Spec encoder, golden schema) decoded by the real code
        frames, ferr = codec.spec_frames(ctx, orc, lines)
        if frames is None:
            broken.append({"kind": "obligation", "name": "reference frames", "detail": ferr})
            continue
        # … and the same values as a NEWER peer sends them: unknown tagged fields in the header and in every struct (flexible versions)
        xframes, xerr = codec.unknown_tag_frames(ctx, orc, lines)
        if xframes is None:
            broken.append({"kind": "obligation", "name": "frames with unknown tagged fields", "detail": xerr})
            xframes = []
        ctx.coverage["frames_with_unknown_tagged_fields"] = ctx.coverage.get("frames_with_unknown_tagged_fields", 0) + len(xframes)
        frames = frames + xframes
        path = os.path.join(os.path.dirname(drv), "c04-spec-%s-%d.txt" % (name, ctx.seed))
        # the override request type (rawproduce) is never selected by ReadRequest
        codec.write_cases(path, [f for f in frames if f[2]])
        lines2, rc2, err2 = ctx.run_driver(drv, ["-dec", path])
        if rc2 != 0:
            broken.append({"kind": "obligation", "name": "driver c04 -dec (%s) crashed" % tags, "detail": err2[-1500:]})
        dis += ctx.correspond([l for l in lines2 if "\t" in l], orc, "reference frames -> protocol decoder (%s)" % tags)
        ctx.coverage.setdefault("audited_frames", 0)
        ctx.coverage["audited_frames"] += sum(1 for f in frames if f[3])
    # request emission of the hand-written Conn codec: real Conn methods over net.Pipe, strictly framing fake broker
    if orc is not None:
        drvc, dlogc = ctx.go_build("./cmd/c04conn", "c04conn", tags="verif")
        if drvc is None:
            broken.append({"kind": "obligation", "name": "driver c04conn could not be built", "detail": dlogc[-1500:]})
        else:
            linesc, rcc, errc = ctx.run_driver(drvc, [])
            if rcc != 0:
                broken.append({"kind": "obligation", "name": "driver c04conn crashed", "detail": errc[-1500:]})
            dis += ctx.correspond([l for l in linesc if "\t" in l], orc, "Conn request emission (write.go/sizeof.go, conn.go writeRequest) <-> golden schema / Kafka wire spec")
            # response side of the Conn codec, every response delivered in two pieces cut at every position
            linesr, rcr, errr = ctx.run_driver(drvc, ["-resp"])
            if rcr != 0:
                broken.append({"kind": "obligation", "name": "driver c04conn -resp crashed", "detail": errr[-1500:]})
            dis += ctx.correspond([l for l in linesr if "\t" in l], orc, "Conn response decoding (read.go, conn.go, batch.go) under split delivery: values, exact frame consumption")
    ctx.coverage["rule"] = ("CONN RESPONSES: every Conn operation that reads a response (connfake.Ops x negotiated versions; fetch v2/v5/v10 with magic-1 and magic-2 "
                            "record sets whose varints are multi-byte) with the response frame written as frame[:k], frame[k:] for EVERY k (frames > 700 bytes: k < 80 and every 3rd): "
                            "outcome ok, 0 bytes left in the Conn buffer, same decoded values. CONN: Conn.CreateTopics (v0-v2, replica assignments and config entries), DeleteTopics (v0,v1), ReadPartitions (metadata v1,v6), "
                            "ReadLastOffset (listoffsets v1) and the group/sasl operations of VerifConnOp captured by a fake broker that frames strictly by the size prefix; "
                            "op connreq: capture must parse under the golden schema, re-encode to exactly the captured bytes and match the argument values. REFLECTION CODEC: "
                            "every type passed to protocol.Register/RegisterOverride (80 message types) x every version of its range x values: "
                            "zero value, small full value, random (nil/empty/1-3 element slices nested, strings empty/1/127-129/random bytes, "
                            "thorough: 16383/16384/32767 bytes; ints min/max/-1/0/random; float64 bit patterns; nil/empty/random []byte; "
                            "RecordSets v1/v2 with 1-2 records); ops enc (real encoder vs model, monitor = reference encoder over golden schema), "
                            "dec (real decoder on its own frames and on reference frames); both build variants. distinct = distinct op lines")
    concrete = [d for d in dis if d.get("kind") == "disagreement"]
    others = [d for d in dis if d not in concrete]
    recorded = 0
    for d in concrete:
        if recorded >= 60:          # (disagreements that match a known finding do not count against the cap)
            break
        what = "model and implementation disagree" if d["model"] != d["impl"] else "implementation output is not the reference (golden schema / Kafka wire spec) encoding"
        op = d["op"]
        sig = "%s => %s" % (" ".join(op.split(" ")[:3]), "ref-mismatch" if d["model"] == d["impl"] else "model-mismatch")
        recorded += ctx.violation({"kind": "input", "input": op, "actual": d["impl"][:4000], "expected_model": d["model"][:4000],
                                   "monitor_holds": d["holds_on_impl"], "what": what, "correspondence": d["correspondence"]},
                                  True, signature=sig)
    if (broken or others) and recorded == 0:
        ctx.violation({"kind": "obligation", "broken": broken, "disagreements": others[:20],
                       "note": "a proof obligation, a translator or the correspondence no longer checks; the search over %d generated cases found no input on which the monitor fails" % ctx.coverage["evaluations"]},
                      False, signature="obligation " + str(broken)[:300])
    elif broken:
        for b in broken:
            ctx.notes.append("also broken: " + str(b)[:500])
