"""C18 — with SASL configured, nothing is sent before authentication succeeds."""

META = {
    "property_id": "C18",
    "engine": "lean-auth-lts",
    "technique": "Lean 4 theorems over an executable model of Dialer.connect/authenticateSASL and connGroup.connect/authenticateSASL "
                 "(straight-line machines driven by arbitrary broker/mechanism answer scripts, both handshake versions, raw and framed tokens); "
                 "trace acceptance: a fake broker over net.Pipe journals every connection of the real Dialer / Transport, a wrapper records the real "
                 "sasl.Mechanism's outputs, the compiled Lean oracle replays the script and evaluates the RFC 4616 / ordering monitors; "
                 "SCRAM run against xdg-go/scram's server side, an independent stdlib RFC 5802 server and an impostor broker that forges the server signature; the fake broker also runs behind a real crypto/tls server and notes what reaches its raw socket first; "
                 "regenerated go/ast ties: the PLAIN format string, the SCRAM adaptor's shape facts, call orders, and decision tables obtained by symbolic execution of both "
                 "authenticateSASL functions, Dialer.connect, connGroup.connect, the handshake/authenticate wrappers, Conn.saslAuthenticate and protocol.Conn.RoundTrip, each recomputed "
                 "from Model/Auth.lean by `decide`",
    "level_claimed": {
        "category": "proof",
        "text": "Kernel-checked for every answer script, both paths and handshake versions: only ApiVersions/SaslHandshake/SaslAuthenticate/raw tokens are "
                "written before the client has seen a positive answer that completed the mechanism; with a mechanism that completes only on the broker's final "
                "answer the broker-side ordering monitor holds; any error code / EOF / I/O failure / mechanism failure ends in an error with the connection closed and "
                "nothing written afterwards; set-up ends with every request answered and never pipelines; with TLS configured the ClientHello is the only thing in clear and a failed handshake is a failed dial with the socket closed; PLAIN builds the RFC 4616 message; the SCRAM adaptor reports completed only "
                "if the conversation verified that very challenge (reduced to the dependency's contract ConvSound). Partial: SCRAM's cryptography and SASLprep are not modelled (exercised against two "
                "reference servers only).",
        "design_ref": "DESIGN.md §7 C18",
    },
    "level_note": "Trusted: Lean kernel; propext/Classical.choice/Quot.sound; the hand-written model Model/Auth.lean, tied to the code by regenerated decision tables / shape facts (go/extract/saslplain, muxfacts: trusted to read the syntax tree correctly) and by trace acceptance on sampled scripts; the fake broker (responses encoded with kafka-go's own protocol "
                  "package); Spec/SaslPlain.lean is a transcription of RFC 4616; xdg-go/scram (client inside kafka-go, server in the harness) and the stdlib crypto. "
                  "Timeouts of a silent broker are not part of the property and not exercised.",
}

MODULE = "KafkaVerif.Props.C18"


def run(ctx):
    ctx.level = "proof"   # partial aspects (SCRAM crypto not modelled) are listed in assumptions and META
    ctx.assumptions += [
        "the sasl.Mechanism reports completed only on the broker's final positive answer (mechSound) — proved for PLAIN's shape; for SCRAM reduced to the contract ConvSound of "
        "xdg-go/scram's conversation (scram_completed_only_if_verified; exercised by the impostor-broker cases), "
        "see unsound_mechanism_counterexample",
        "PLAIN: user name and password contain no NUL (RFC 4616 forbids it; plain.go does not check) — plain_nul_counterexample",
        "SCRAM cryptography / SASLprep not modelled: checked only by running the real exchange against reference servers",
        "each connection is set up by one goroutine (straight-line code), so the script order is the program order",
    ]
    broken = []
    ok, log = ctx.extract("saslplain", ["lean/KafkaVerif/Gen/SaslPlainFmt.lean"])
    if not ok:
        broken.append({"kind": "obligation", "name": "translator go/extract saslplain", "detail": log[-1500:]})
    ok2, log2 = ctx.extract("muxfacts", ["lean/KafkaVerif/Gen/MuxFacts.lean"])
    if not ok2:
        broken.append({"kind": "obligation", "name": "translator go/extract muxfacts", "detail": log2[-1500:]})
    res = ctx.prove(MODULE)
    if not res["ok"]:
        broken.append({"kind": "obligation", "theorems": res["failed"], "detail": res["reasons"][:10]})
    dis = []
    orc, olog = ctx.oracle_build("oracle_c18")
    drv, dlog = ctx.go_build("./cmd/c18", "c18")
    if orc is None or drv is None:
        broken.append({"kind": "obligation", "name": "correspondence C18 could not be built", "detail": (olog + dlog)[-1500:]})
    else:
        lines, rc, err = ctx.run_driver(drv, [], timeout=900)
        if rc != 0:
            broken.append({"kind": "obligation", "name": "driver c18 crashed", "detail": err[-1500:]})
        dis = ctx.correspond(lines, orc, "dialer.go/transport.go/conn.go SASL set-up ↔ Model/Auth.lean (trace acceptance)",
                             nontrivial=lambda op, impl: True)
        kinds = {}
        for l in lines:
            if l.startswith("auth ") and "\t" in l:
                impl = l.split("\t", 1)[1]
                k = l.split(" ")[1] + ":" + impl.split(";")[1]
                kinds[k] = kinds.get(k, 0) + 1
        ctx.coverage["outcomes"] = kinds
    ctx.coverage["rule"] = ("per path (Dialer, Transport) × independently advertised SaslHandshake {absent,0-0,0-1} × SaslAuthenticate {absent,0-0,0-1,0-2} ranges (+1-1, 0-5, 0–-1) × mechanism (PLAIN, SCRAM-SHA-256/512, "
                            "scripted n-round): successful exchange followed by a normal request; failure placed at ApiVersions / handshake / auth round 1..3 as error code, "
                            "close, wrong correlation id, truncated frame; mechanism failure at Start / Next i; credential table (right/wrong, ',' '=' escapes, SASLprep examples "
                            "of RFC 4013, random strings) against xdg-go/scram's server and an independent stdlib server, bad credentials reported as error code or as e= challenge. "
                            "distinct = distinct op lines (SCRAM nonces are random inside the library, so SCRAM lines differ between runs)")
    concrete = [d for d in dis if d.get("kind") == "disagreement" and not d["holds_on_impl"]]
    others = [d for d in dis if d not in concrete]
    recorded = 0
    for d in concrete[:50]:
        recorded += ctx.violation({"kind": "trace", "input": d["op"], "actual": d["impl"], "expected": d["model"],
                                   "correspondence": d["correspondence"],
                                   "monitor": "Spec/SaslPlain: ordering monitor on the broker journal / failure ⇒ error+closed / RFC 4616 layout / completes iff credentials right"},
                                  True, signature="%s => %s" % (d["op"][:200], d["impl"][:200]))
    if (broken or others) and recorded == 0:
        ctx.violation({"kind": "obligation", "broken": broken, "disagreements": others[:20],
                       "note": "a proof obligation or the model↔code correspondence no longer checks; the search over %d generated cases found no input on which the property monitor fails" % ctx.coverage["evaluations"]},
                      False, signature="obligation " + str(broken)[:300] + str(others[:2])[:300])
    elif broken or others:
        for b in broken + others[:5]:
            ctx.notes.append("also broken: " + str(b)[:500])
