"""C12 — Transport routes requests to the right broker at a mutually supported version."""

META = {
    "property_id": "C12",
    "engine": "lean-routing",
    "technique": "Lean 4 theorems over an executable model of transport.go sendRequest / the Broker() methods / ApiKey.SelectVersion / makeLayout / filterMetadataResponse / update, stated over tables regenerated from /repo on every run (method sets, Broker() body shapes, struct-tag version ranges, type-switch case order); routing-class table compared with the Kafka designation by `decide`; model↔code correspondence at function level (export hooks) and at journal level (a real kafka.Transport against an in-process multi-broker fake cluster)",
    "level_claimed": {
        "category": "proof",
        "text": "Kernel-checked for all inputs: SelectVersion (its body is translated from protocol.go on every run) returns the highest common version inside both ranges whenever the ranges overlap (and through the per-connection version map); every registered request type is routed to the class of broker Kafka designates (regenerated table, decide); produce/fetch requests accepted by Broker() go to the one broker leading every requested partition, mismatching leaders are refused; a split ListOffsets part goes to its partition leader; topic-filtered metadata served from the cache equals the restriction of the last (normalised) broker answer (the cache's sortedness is proved from update's normalisation); roundTrip's metadata arm (cache vs broker, auto topic creation) and the split of DescribeGroups/ListGroups/DescribeConfigs/ListOffsets requests are modelled with theorems; after update(m) layout and connection groups (with their dial addresses) are exactly those of m, along every history of updates; the refresh loop (LTS of discover with return guards regenerated from the source) survives every sequence of refresh faults unless the pool is closed, and the next answered refresh installs m (refresh_loop_survives_faults, refresh_after_faults). The model is tied to the code by regenerated tables and by running the real Transport against a fake cluster and diffing the journal (broker, api key, version) with the model's prediction.",
        "design_ref": "DESIGN.md §7 C12",
    },
    "level_note": "Partial: 'within one metadata TTL plus a round trip' is timing — observed with tolerance by the driver (follow op), not proved. Trusted: Lean kernel; propext/Classical.choice/Quot.sound; the go/ast extractor (method sets, Broker() body shape classification, tags, switch order); Spec/Routing.lean is a transcription of the Kafka protocol guide (28 audited APIs; ListGroups, ACL, config, quota and SCRAM APIs are unaudited and never alarm); Go's sort.Slice modelled as insertion sort (unique result for distinct keys); coordinator lookup assumed to succeed; the fake cluster and canonicalisation.",
}

MODULE = "KafkaVerif.Props.C12"


def _reference_oracle(ctx, exe, gen_files):
    """A translator refused the tree under test (already recorded as a broken obligation): build the oracle over the
    facts last committed for the unchanged tree, so that the search for a concrete failing input still runs (the
    monitors come from Spec, the model is the reference model of the unchanged code)."""
    import os, subprocess
    import kv
    for g in gen_files:
        p = subprocess.run(["git", "-C", kv.ROOT, "show", "HEAD:" + g], capture_output=True)
        if p.returncode != 0:
            return None, "no committed copy of " + g
        with open(os.path.join(kv.ROOT, g), "wb") as f:
            f.write(p.stdout)
    ok, log = ctx.lean_build([exe])
    path = os.path.join(kv.LEAN, ".lake", "build", "bin", exe)
    return (path if ok and os.path.exists(path) else None), log


def run(ctx):
    ctx.assumptions += [
        "FindCoordinator succeeds and names a broker of the cluster (sendRequest ignores its error code; a failed lookup falls back to the bootstrap connection)",
        "broker ids, topic names and partition indexes are pairwise distinct inside one metadata answer and broker ids are >= 0 (sort.Slice result is then unique)",
        "metadata v0 brokers (no controller id on the wire) are outside the controller clause; FindCoordinator v0 has no key type",
        "timing clause (one TTL + a round trip) observed with tolerance only",
        "Spec/Routing.lean: 28 audited API keys; unaudited keys state nothing",
    ]
    ok, log = ctx.extract("routing", ["lean/KafkaVerif/Gen/Routing.lean"])
    broken = []
    if not ok:
        broken.append({"kind": "obligation", "name": "translator go/extract routing", "detail": log[-1500:]})
    ok2, log2 = ctx.extract("mappings", ["lean/KafkaVerif/Gen/Mappings.lean"])
    if not ok2:
        broken.append({"kind": "obligation", "name": "translator go/extract mappings", "detail": log2[-1500:]})
    res = ctx.prove(MODULE)
    if not res["ok"]:
        broken.append({"kind": "obligation", "theorems": res["failed"], "detail": res["reasons"][:10]})
    dis = []
    if ok and ok2:
        orc, olog = ctx.oracle_build("oracle_c12")
    else:
        orc, olog = _reference_oracle(ctx, "oracle_c12", ['lean/KafkaVerif/Gen/Routing.lean', 'lean/KafkaVerif/Gen/Mappings.lean'])
    drv, dlog = ctx.go_build("./cmd/c12", "c12")
    if orc is None or drv is None:
        broken.append({"kind": "obligation", "name": "correspondence C12 could not be built", "detail": (olog + dlog)[-1500:]})
    else:
        lines, rc, err = ctx.run_driver(drv, [])
        if rc != 0:
            broken.append({"kind": "obligation", "name": "driver c12 crashed", "detail": err[-1500:]})
        ctx.notes += [l for l in err.split("\n") if l.startswith("follow:")][:3]
        dis = ctx.correspond(lines, orc, "transport.go / protocol ↔ Model/Routing.lean",
                             nontrivial=lambda op, impl: True)
    ctx.coverage["rule"] = ("selver: every registered key (+unknown keys) × broker ranges inside/around/below/above/inverted; layout/filter/broker: random metadata answers "
                            "(1–5 brokers, 0–5 topics, 0–4 partitions, unknown leaders/controller, internal topics, error codes) × requests with same-leader bias, unknown topics/partitions, "
                            "empty lists, broker resources; send: 24 (quick) / 200 (thorough) scenarios of a real Transport against the fake cluster with per-broker version tables "
                            "(full, sub-range, beyond, older, disjoint above/below, hidden, duplicate entries), every routed request type, leader moves, broker add/remove, controller and "
                            "coordinator moves, unreachable brokers, topic creation; follow: refresh faults (stall / late / delay / drop / failing redial at the 1st–3rd refresh) interleaved with leader moves, metadata-request gap. distinct = distinct op lines")
    concrete = [d for d in dis if d.get("kind") == "disagreement" and not d["holds_on_impl"]]
    others = [d for d in dis if d not in concrete]
    recorded = 0
    for d in concrete:
        if recorded >= 50: break      # cap on RECORDED violations: hits of known findings must not use it up
        op = d["op"]
        sig = "%s %s => %s" % (op.split(" ")[0], op.split(" ")[1] if " " in op else "", d["impl"])
        recorded += bool(ctx.violation({"kind": "input", "input": op, "actual": d["impl"], "expected": d["model"],
                                        "correspondence": d["correspondence"],
                                        "monitor": "Spec/Routing: designated broker class / version clause false on the journal of the real Transport"},
                                       True, signature=sig))
    if (broken or others) and recorded == 0:
        ctx.violation({"kind": "obligation", "broken": broken, "disagreements": others[:20],
                       "note": "a proof obligation or the correspondence no longer checks; the search over %d generated cases found no input on which the property monitor fails" % ctx.coverage["evaluations"]},
                      False, signature="obligation " + str(broken)[:300] + str(others[:2])[:300])
    elif broken:
        for b in broken:
            ctx.notes.append("also broken: " + str(b)[:500])
