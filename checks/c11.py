"""C11 — A Conn stays usable after broker-reported errors and is never reused misaligned."""

META = {
    "property_id": "C11",
    "engine": "lean-conn",
    "technique": "Lean 4 theorems over an executable model of kafka.Conn's response side: a size-threading reader monad (read.go/discard.go), parser programs interpreted over it (the readFrom methods, reflective struct layouts and the framing call table are regenerated from /repo by a go/ast translator on every run; the inline closures of conn.go/read.go are transcribed), (*Conn).do / waitResponse / ReadBatchWith+Batch as a connection state machine; byte conservation proved once for all parser programs by mutual induction; model<->code differential correspondence through a compiled Lean oracle driving the real Conn over net.Pipe against a scripted broker",
    "level_claimed": {
        "category": "proof",
        "text": "Kernel-checked over an executable model of kafka.Conn's response side whose parser programs are ALL regenerated from /repo or checked step-for-step against the regenerated ones (readFrom methods, reflective struct layouts, read.go fetch headers, conn.go element callbacks, ApiVersions; closures_regenerated + stepsEq_sound) and equal the Kafka layouts (gen_matches_spec). For every operation going through (*Conn).do (list-offsets included since fix C11-D34) and for ApiVersions (since fix C11-D33), every negotiated version, EVERY byte content of a fully delivered response frame (so any int16 in any error field) and any following bytes: either the result is ok/a kafka error, exactly the frame was consumed, the Conn stays open and its state equals that of a fresh Conn at the next frame (aligned_or_closed, next_op_as_fresh), or the result is a non-kafka error and the Conn is closed, after which every operation fails (closed_stays_failed); any NUMBER of operations in a row give, one by one, what each gives alone on a fresh connection holding only its own frame, up to the first failing one, after which all fail (sequence_aligned; mixed_sequence_aligned for operations AND fetches in any order, with fetch_depends_only_on_frame — locality of ReadBatchWith+Batch for every conserving, local message-set reader, both hypotheses discharged for the reader-stack model: stackBody_conserves, stackBody_local); the Conn's version cache is part of the state: a broker error on the ApiVersions exchange of a negotiating operation is what the caller gets, nothing is cached and the Conn is a fresh one at the next frame (negotiation_error_leaves_fresh_conn, next_negotiating_op_as_fresh over Model/ConnVersions.lean, regenerated fact loadVersionsStrict); the result of an exchange depends on its own frame's bytes only and whatever follows is left untouched (result_depends_only_on_frame: locality + conservation, two mutual inductions over all parser programs); a response under a foreign correlation id closes the Conn (desync_closes, fix C11-D30), so does one whose size prefix is below 4, negative ones included (bad_size_closes, bad_size_closes_fetch). Fetch: same statement for every byte-conserving message-set reader (fetch_aligned_or_closed), the conservation hypothesis discharged for the reader-stack accounting of message_reader.go (stack_run_adv, stack_discard_empties, regenerated facts). List-offsets additionally: every frame of the one-partition shape is consumed exactly (listOffsets_aligned_wf), unfixed shape refuted (listOffsets_two_partitions_counterexample); ApiVersions additionally: every well-formed frame is consumed exactly (apiVersions_aligned_wf), unfixed shape refuted (apiVersions_trailing_counterexample). The read lock is released on every exit path of an exchange (regenerated facts; lock_released_on_every_path, leaked_lock_blocks). D2 shape refuted (d2_regression_counterexample). Tied by running the real Conn and the model on the same frames: op x version x error codes in every error field (also in non-last array entries) x following op, partial reads of plain/compressed batches, Conn.Read/ReadMessage, framing-error frames, three-operation chains after a foreign correlation id.",
        "design_ref": "DESIGN.md §7 C11",
    },
    "level_note": "Trusted: Lean kernel; propext/Quot.sound; the go/ast translator go/extract/connlegacy.go (restricted Go subset, anything else = untranslated = broken obligation); the hand transcription of the control flow of (*Conn).do / waitResponse / ReadBatchWith / Batch.close into Model/ConnOps.lean (connDo, connFetch, fetchRead; its branch conditions — drain, expectZeroSize, close rules, lock releases, buffer drop, discard result — are regenerated facts, its shape is checked by correspondence on generated frames, pairs, runs and pipelined calls); every parser program is regenerated (closures_regenerated); bufio.Reader/net.Conn modelled (Peek/Discard/ReadFull on a byte list followed by EOF); message_reader.go abstracted to 'any byte-conserving (and, for the sequence theorems, local) reader', both discharged for the reader-stack accounting model (its record-level internals belong to C02/C05); deadlines never expire in the model; an honest frame size prefix or one below 4 (bad_size_closes); response layouts in the driver are transcribed from the Kafka protocol documentation (no broker in the sandbox).",
}

MODULE = "KafkaVerif.Props.C11"


def run(ctx):
    ctx.assumptions += [
        "frames are fully delivered (C11) — truncation is C17; a frame's size prefix is honest or below 4 (bad_size_closes: fail + closed); a prefix >= 4 that lies is judged by model agreement only",
        "fetch: message-set reader = any byte-conserving reader (discharged for the reader-stack accounting of message_reader.go)",
        "deadlines do not expire during an exchange (checkTimeoutErr = io.EOF)",
        "read-lock discipline is a syntactic fact per exit path (go/extract/connlegacy: every break of the wait loop, the statements after waitResponse in do/ApiVersions/ReadBatchWith, Batch.close); blocking itself is observed with per-operation watchdogs (2 s Conn deadline, 4 s watchdog; generation stops after 5 blocked cases)",
    ]
    broken = []
    ok, log = ctx.extract("connlegacy", ["lean/KafkaVerif/Gen/ConnLegacy.lean"])
    if not ok:
        broken.append({"kind": "obligation", "name": "translator go/extract connlegacy", "detail": log[-1500:]})
        # the code left the translatable subset: keep searching for a failing input with the last committed model
        # (the model of the unchanged code) so that the report carries a concrete replay, not only the broken obligation
        import subprocess, os
        subprocess.run(["git", "checkout", "--", "lean/KafkaVerif/Gen/ConnLegacy.lean"],
                       cwd=os.path.dirname(os.path.dirname(os.path.abspath(__file__))), capture_output=True)
        ctx.notes.append("translator failed: correspondence run against the committed Gen/ConnLegacy.lean")
    res = ctx.prove(MODULE)
    if not res["ok"]:
        broken.append({"kind": "obligation", "theorems": res["failed"], "detail": res["reasons"][:10]})
    dis = []
    orc, olog = ctx.oracle_build("oracle_c11")
    drv, dlog = ctx.go_build("./cmd/c11", "c11")
    if orc is None or drv is None:
        broken.append({"kind": "obligation", "name": "correspondence C11 could not be built", "detail": (olog + dlog)[-1500:]})
    else:
        lines, rc, err = ctx.run_driver(drv, [])
        ctx.notes.append("driver: " + err.strip()[-300:])
        if rc != 0:
            broken.append({"kind": "obligation", "name": "driver c11 crashed", "detail": err[-1500:]})
        dis = ctx.correspond(lines, orc, "kafka.Conn (conn.go, read.go, batch.go) ↔ Model/ConnOps.lean",
                             nontrivial=lambda op, impl: "kafka:" in impl)
    by_op = {}
    for l in (lines if (orc and drv) else []):
        f = l.split(" ")
        if len(f) > 2 and f[0] == "c11":
            k = ":".join(f[2].split(":")[:2])
            by_op[k] = by_op.get(k, 0) + 1
        elif f[0] == "rr":
            by_op["ReadResponse"] = by_op.get("ReadResponse", 0) + 1
    ctx.coverage["cases_by_op_version"] = by_op
    ctx.coverage["rule"] = ("every Conn operation (apiVersions, listOffsets, metadata v1/v6, brokers, controller, produce v2/v3/v7, fetch v2/v5/v10, "
                            "create/delete topics, findCoordinator, joinGroup v1/v2, heartbeat, leaveGroup, syncGroup, listGroups, offsetCommit, offsetFetch, "
                            "saslHandshake v0/v1, saslAuthenticate) x {no error, each error field with sampled codes incl. -1/32767/-32768/36, several fields at once} "
                            "x random shapes (array lengths, null strings, record sets v1/v2) x a following operation drawn from all operations (quick: 6 codes per field, 3 repetitions; thorough: all 21 codes, 10 repetitions). "
                            "Further families: framing-error frames (trailing bytes / missing tail), damaged frames (one byte overwritten anywhere or an array count changed; 12 per op-version quick, 80 thorough; fetch: header bytes only), "
                            "partial reads of fetch responses (every j of n records, Close at once, Conn.ReadMessage, Conn.Read; plain and gzip/snappy/lz4/zstd; 1-2 batches; v1 sets), responses at the high watermark that carry a set, "
                            "three-operation chains after a response under a foreign correlation id (incl. stray id = next id). "
                            "distinct_nontrivial = distinct cases in which a broker error code was reported by A or B")
    concrete = [d for d in dis if d.get("kind") == "disagreement" and not d["holds_on_impl"]]
    others = [d for d in dis if d not in concrete]
    recorded = 0
    for d in concrete[:50]:
        recorded += ctx.violation({"kind": "ops", "input": d["op"], "actual": d["impl"], "expected": d["model"],
                                   "correspondence": d["correspondence"],
                                   "monitor": "after ok/kafka error: 0 bytes of the frame unread and the next op as on a fresh Conn; after another error: next op fails"},
                                  True, signature="%s => %s" % (d["op"], d["impl"]))
    if (broken or others) and recorded == 0:
        ctx.violation({"kind": "obligation", "broken": broken, "disagreements": others[:20],
                       "note": "a proof obligation, the translator or the model<->code correspondence no longer checks; the property monitor failed on none of the %d generated cases" % ctx.coverage["evaluations"]},
                      False, signature="obligation " + str(broken)[:300] + str(others[:2])[:300])
    elif broken or others:
        for b in broken + others[:5]:
            ctx.notes.append("also broken: " + str(b)[:500])
