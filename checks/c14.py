"""C14 — group balancers assign every partition to exactly one subscriber, evenly."""

META = {
    "property_id": "C14",
    "engine": "lean-groupbalancer",
    "technique": "Lean 4 theorems over an executable model of groupbalancer.go (Range, RoundRobin, RackAffinity with Go's map iteration orders as explicit parameters), for all member / partition lists; model↔code differential correspondence through a compiled Lean oracle on exhaustively enumerated small groups and seeded random large ones; the C14 monitor (cover, only-subscribers, balance, run/stride shape, rack bound) is evaluated on the implementation's output",
    "level_claimed": {
        "category": "proof",
        "text": "Kernel-checked theorems for every list of members with distinct ids (topic lists may repeat topics) and every list of partitions (no size bound): each listed partition of a subscribed topic goes to exactly one subscriber, nothing to non-subscribers, loads differ by at most one — for Range, RoundRobin and RackAffinity; Range = contiguous runs by id rank, RoundRobin = strides by id rank, both invariant under member listing order; RackAffinity for every iteration order of its two Go map loops: no out-of-range slice/index (rack_total), cover, balance and the per-rack affinity bound min(led in rack, members in rack x floor(P/M)). The model is tied to groupbalancer.go by index/selection/ordering expressions re-extracted from the source on every run (Gen/GroupBalancerSel.lean, *_regenerated theorems) and by running the real AssignGroups and the model on the same generated groups (RackAffinity: equal to the model for some pair of iteration orders). Leader glue (joinGroup / makeMemberProtocolMetadata / assignTopicPartitions / makeSyncGroupRequestV0 / syncGroup) modelled as pure functions: glue_preserves (what a member decodes is its own entry of the balancer's map, nothing leaks between members, for every map iteration order), *_delivered (cover / balance / only-subscribers hold of what the members RECEIVE); tied by driving the real glue through verif_export_c14b.go and by extracted structural facts (fresh per-member map, repeated-topic guard).",
        "design_ref": "DESIGN.md §7 C14",
    },
    "level_note": "Trusted: Lean kernel; propext/Classical.choice/Quot.sound; the driver/oracle correspondence (exhaustive small + sampled large inputs; Go's map iteration order is sampled, the theorems quantify over all orders); Go's sort.Slice and string comparison are modelled (insertion sort over an order-embedding of the ids) and validated by correspondence only; ids/topics/racks are opaque keys.",
}

MODULE = "KafkaVerif.Props.C14"


def run(ctx):
    ctx.assumptions += [
        "member ids are distinct (the property speaks of a set of members)",
        "a member's topic list may repeat a topic (user input); it subscribes to t iff t occurs in the list — finding C14-D30 (fixed) was the code counting such a member twice",
        "glue: the wire is modelled as the sequence of (topic, int32 array) entries; the primitive byte codecs are C04's (exercised here on the real code, not re-proved); partition ids fit int32; the coordinator hands every member the bytes listed under its id",
        "partition ids are arbitrary ints and may repeat: cover is stated on multisets (listed partitions)",
        "RackAffinity: the iteration orders are duplicate-free lists containing every rack that leads a partition of the topic (IterOrder) — what ranging over a Go map gives when only the current key is replaced/deleted inside the loop",
        "Go int arithmetic on indices/lengths is modelled on Nat: index x length products do not overflow int64 for real slices",
        "the glue is driven synchronously (one rebalance round, members[0] leader, byte-forwarding coordinator); the concurrent life cycle around it belongs to C15",
    ]
    broken = []
    ok, log = ctx.extract("groupbalancer", ["lean/KafkaVerif/Gen/GroupBalancerSel.lean"])
    if not ok:
        broken.append({"kind": "obligation", "name": "translator go/extract groupbalancer", "detail": log[-1500:]})
    res = ctx.prove(MODULE)
    if not res["ok"]:
        broken.append({"kind": "obligation", "theorems": res["failed"], "detail": res["reasons"][:10]})
    dis = []
    orc, olog = ctx.oracle_build("oracle_c14")
    drv, dlog = ctx.go_build("./cmd/c14", "c14")
    if orc is None or drv is None:
        broken.append({"kind": "obligation", "name": "correspondence C14 could not be built", "detail": (olog + dlog)[-1500:]})
    else:
        lines, rc, err = ctx.run_driver(drv, DRIVER_ARGS)
        if rc != 0:
            broken.append({"kind": "obligation", "name": "driver c14 crashed", "detail": err[-1500:]})
        dis = ctx.correspond(lines, orc, "groupbalancer.go ↔ Model/GroupBalancer.lean",
                             nontrivial=lambda op, impl: impl != "-")
    ctx.coverage["rule"] = (
        "exhaustive: members 1..4 (ids from a pool of tricky strings: prefixes, empty, NUL, high-bit, 'member-10' vs 'member-9'), "
        "topics <= 2 with all 7 subscription listings per member ({}, {0}, {1}, {0,1}, {1,0}, {0,0}, {1,0,1}), partitions (p0,p1) with p0+p1 <= 6 listed interleaved "
        "in shuffled id order (sometimes sparse ids), all member listing orders for n <= 3 (n = 4: 1/6 sample x 2 orders in quick, all 24 in thorough); "
        "random: 1200 (quick) / 6000 (thorough) groups with 1..40 members, 1..4 topics, 0..60 (..400) partitions per topic incl. near multiples of the "
        "member count, 1..4 racks; 1/5 of the random members repeat a topic; 300 cases outside the hypothesis (equal ids) for model fidelity only. leader glue: ops grange/grr/grack = the same groups run through the real joinGroup+syncGroup round (members[0] leader), 3x (quick) / 8x (thorough) to sample map orders, impl = what every member receives: every small group with >= 2 members (one balancer each, rotating) and every random group (all three). "
        "helpers findMembersByTopic / findPartitions (verif export hook) on every random group and 1/7 of the small ones; "
        "RackAffinity: each group called 4 (quick) / 12 (thorough) times, every distinct output is a case (Go map order is sampled, not controlled). "
        "distinct = distinct op lines with a non-empty assignment")
    concrete = [d for d in dis if d.get("kind") == "disagreement" and not d["holds_on_impl"]]
    cids = {id(d) for d in concrete}          # (list membership on 10^5 dicts is quadratic: a mutant must cost seconds)
    others = [d for d in dis if id(d) not in cids]
    recorded = 0
    for d in concrete[:50]:
        recorded += ctx.violation({"kind": "input", "input": d["op"], "actual": d["impl"], "expected": d["model"],
                       "correspondence": d["correspondence"],
                       "monitor": "C14 monitor (Spec/GroupAssign: cover / only subscribers / balance / shape / rack bound) is false on the implementation's output"},
                      True, signature="%s => %s" % (d["op"], d["impl"]))
    if (broken or others) and recorded == 0:
        ctx.violation({"kind": "obligation", "broken": broken, "disagreements": others[:20],
                       "note": "a proof obligation or the correspondence no longer checks; the search over %d generated cases found no input on which the property monitor fails" % ctx.coverage["evaluations"]},
                      False, signature="obligation " + str(broken)[:300])
    elif broken:
        for b in broken:
            ctx.notes.append("also broken: " + str(b)[:500])


DRIVER_ARGS = []
