"""C14 — group balancers assign every partition to exactly one subscriber, evenly."""

META = {
    "property_id": "C14",
    "engine": "lean-groupbalancer",
    "technique": "Lean 4 theorems over an executable model of groupbalancer.go (Range, RoundRobin, RackAffinity with Go's map iteration orders as explicit parameters), for all member / partition lists; model↔code differential correspondence through a compiled Lean oracle on exhaustively enumerated small groups and seeded random large ones; the C14 monitor (cover, only-subscribers, balance, run/stride shape, rack bound) is evaluated on the implementation's output",
    "level_claimed": {
        "category": "proof",
        "text": "Kernel-checked theorems for every list of members with distinct ids (topic lists may repeat topics) and every list of partitions (no size bound): each listed partition of a subscribed topic goes to exactly one subscriber, nothing to non-subscribers, loads differ by at most one — for Range, RoundRobin and RackAffinity; Range = contiguous runs by id rank, RoundRobin = strides by id rank, both invariant under member listing order; RackAffinity for every iteration order of its two Go map loops: no out-of-range slice/index (rack_total), cover, balance and the per-rack affinity bound min(led in rack, members in rack x floor(P/M)). The model is tied to groupbalancer.go by index/selection/ordering expressions re-extracted from the source on every run (Gen/GroupBalancerSel.lean, *_regenerated theorems) and by running the real AssignGroups and the model on the same generated groups (RackAffinity: equal to the model for some pair of iteration orders). Leader glue (joinGroup / makeMemberProtocolMetadata / assignTopicPartitions / makeSyncGroupRequestV0 / syncGroup) modelled as pure functions: glue_preserves (what a member decodes is its own entry of the balancer's map, nothing leaks between members, for every map iteration order), *_delivered (cover / balance / only-subscribers hold of what the members RECEIVE); tied by driving the real glue through verif_export_c14b.go and by extracted structural facts (fresh per-member map, repeated-topic guard). Round 4: extractTopics/readPartitions and makeAssignments steps (range/rr/rack_round, generation_view_is_delivered: C14 of Generation.Assignments w.r.t. the cluster's listing); byte-level model of groupMetadata / groupAssignment with read-after-write theorems in the reader monad (assignment/metadata_bytes_roundtrip); the concurrent life cycle as an LTS of N members and a coordinator over any number of rebalances (Model/GroupRound: generation_from_its_round, lifecycle_good), linked to C15's GroupRun steps and exercised on real concurrent ConsumerGroups. Round 5: missing-topic path of assignTopicPartitions / readTopicMetadata (missing_topic_reads; finding C14-D31 fixed), executable acceptor of the life-cycle model proved sound and fed with traces of real ConsumerGroups against the independent groupmock.Sim coordinator. Round 6: the wire side end to end over the regenerated legacy codec (wire_delivery, join_wire_delivery), regenerated dataflow facts of assignTopicPartitions / nextGeneration.",
        "design_ref": "DESIGN.md §7 C14",
    },
    "level_note": "Trusted: Lean kernel; propext/Classical.choice/Quot.sound; the driver/oracle correspondence (exhaustive small + sampled large inputs; Go's map iteration order is sampled, the theorems quantify over all orders); Go's sort.Slice and string comparison are modelled (insertion sort over an order-embedding of the ids) and validated by correspondence only; ids/topics/racks are opaque keys.",
}

MODULE = "KafkaVerif.Props.C14"


def run(ctx):
    ctx.assumptions += [
        "member ids are distinct (the property speaks of a set of members)",
        "a member's topic list may repeat a topic (user input); it subscribes to t iff t occurs in the list — finding C14-D30 (fixed) was the code counting such a member twice",
        "glue: the wire is modelled as the sequence of (topic, int32 array) entries; the primitive byte codecs are C04's (exercised here on the real code, not re-proved); partition ids fit int32; the coordinator hands every member the bytes listed under its id",
        "partition ids are arbitrary ints and may repeat: cover is stated on multisets (listed partitions)",
        "RackAffinity: the iteration orders are duplicate-free lists containing every rack that leads a partition of the topic (IterOrder) — what ranging over a Go map gives when only the current key is replaced/deleted inside the loop",
        "Go int arithmetic on indices/lengths is modelled on Nat: index x length products do not overflow int64 for real slices",
        "life cycle (Model/GroupRound): the coordinator is an environment model of Kafka's group protocol (one assignment stored per generation, SyncGroup answered per (member id, generation id) with what that generation's leader stored); one member's control flow is C15's GroupRun LTS",
        "C14 speaks about the assignments that are distributed: a metadata lookup failing with anything but UnknownTopicOrPartition fails the join (nothing is distributed); a missing topic is 'no assignments for that topic' (finding C14-D31 fixed: it used to be no assignments for any topic)",
        "equal member ids are outside the quantifier: member ids are generated by the coordinator (client id + UUID, or one id per group.instance.id) and the JoinGroup member list is keyed by them",
    ]
    broken = []
    ok, log = ctx.extract("groupbalancer", ["lean/KafkaVerif/Gen/GroupBalancerSel.lean"])
    if not ok:
        broken.append({"kind": "obligation", "name": "translator go/extract groupbalancer", "detail": log[-1500:]})
    res = ctx.prove(MODULE)
    if not res["ok"]:
        broken.append({"kind": "obligation", "theorems": res["failed"], "detail": res["reasons"][:10]})
    dis = []
    orc, olog = ctx.oracle_build("oracle_c14")
    drv, dlog = ctx.go_build("./cmd/c14", "c14")
    if orc is None or drv is None:
        broken.append({"kind": "obligation", "name": "correspondence C14 could not be built", "detail": (olog + dlog)[-1500:]})
    else:
        lines, rc, err = ctx.run_driver(drv, DRIVER_ARGS)
        if rc != 0:
            broken.append({"kind": "obligation", "name": "driver c14 crashed", "detail": err[-1500:]})
        dis = ctx.correspond(lines, orc, "groupbalancer.go ↔ Model/GroupBalancer.lean",
                             nontrivial=lambda op, impl: impl != "-")
        budget = exhaustive_budget(lines)
        ctx.coverage["exhaustive_budget"] = budget
        if not budget["ok"]:
            broken.append({"kind": "obligation", "name": "generator budget: the exhaustive part of the C14 generator no longer enumerates what the evidence claims", "detail": str(budget)})
    ctx.coverage["rule"] = (
        "exhaustive: members 1..4 (ids from a pool of tricky strings: prefixes, empty, NUL, high-bit, 'member-10' vs 'member-9'), "
        "topics <= 2 with all 7 subscription listings per member ({}, {0}, {1}, {0,1}, {1,0}, {0,0}, {1,0,1}), partitions (p0,p1) with p0+p1 <= 6 listed interleaved "
        "in shuffled id order (sometimes sparse ids), all member listing orders for n <= 3 (n = 4: 1/6 sample x 2 orders in quick, all 24 in thorough); "
        "random: 1200 (quick) / 6000 (thorough) groups with 1..40 members, 1..4 topics, 0..60 (..400) partitions per topic incl. near multiples of the "
        "member count, 1..4 racks; 1/5 of the random members repeat a topic; 300 cases outside the hypothesis (equal ids) for model fidelity only. leader glue: ops grange/grr/grack = the same groups run through the real joinGroup+syncGroup round (members[0] leader), 3x (quick) / 8x (thorough) to sample map orders, impl = what every member receives: every small group with >= 2 members (one balancer each, rotating) and every random group (all three). "
        "helpers findMembersByTopic / findPartitions (verif export hook) on every random group and 1/7 of the small ones; "
        "RackAffinity: each group called 4 (quick) / 12 (thorough) times, every distinct output is a case (Go map order is sampled, not controlled). "
        "round 4: xtopics (extractTopics), v<balancer> (Generation.Assignments after fetchOffsets/makeAssignments), byte level abytes/aread/mbytes/mread (600 / 8000 values: names up to 400 bytes, any int32, nil/empty user data, cut frames), life cycle l<balancer>: 9 / 60 histories of 2..5 real ConsumerGroups joining and leaving against an in-process coordinator, one case per stable generation (a phase that does not stabilise within 4 s is skipped, never a violation). "
        "round 5: w<balancer> = a round in which one subscribed topic does not exist (Metadata answer read by the real readTopicMetadatav1; 1/4 of the random groups with >= 2 topics); life-cycle racks decoded from the members' real JoinGroup metadata. "
        "ltrace2: the life histories of Range / RoundRobin (heterogeneous subscriptions) replayed through the same acceptor from the harness coordinator's own trace. ltrace: 6 / 40 histories of real ConsumerGroups (Range) against groupmock.Sim, coordinator answers recorded and replayed through the executable acceptor of Model/GroupRound (accepted + every SyncGroup answer predicted). exhaustive budget measured from the driver lines (coverage.exhaustive_budget). "
        "distinct = distinct op lines with a non-empty assignment")
    concrete = [d for d in dis if d.get("kind") == "disagreement" and not d["holds_on_impl"]]
    cids = {id(d) for d in concrete}          # (list membership on 10^5 dicts is quadratic: a mutant must cost seconds)
    others = [d for d in dis if id(d) not in cids]
    recorded = 0
    for d in concrete[:50]:
        recorded += ctx.violation({"kind": "input", "input": d["op"], "actual": d["impl"], "expected": d["model"],
                       "correspondence": d["correspondence"],
                       "monitor": "C14 monitor (Spec/GroupAssign: cover / only subscribers / balance / shape / rack bound) is false on the implementation's output"},
                      True, signature="%s => %s" % (d["op"], d["impl"]))
    if (broken or others) and recorded == 0:
        ctx.violation({"kind": "obligation", "broken": broken, "disagreements": others[:20],
                       "note": "a proof obligation or the correspondence no longer checks; the search over %d generated cases found no input on which the property monitor fails" % ctx.coverage["evaluations"]},
                      False, signature="obligation " + str(broken)[:300])
    elif broken:
        for b in broken:
            ctx.notes.append("also broken: " + str(b)[:500])


DRIVER_ARGS = []

LISTINGS = {"-", "0", "1", "0,1", "1,0", "0,0", "1,0,1"}


def exhaustive_budget(lines):
    """measured, not assumed: the exhaustive part must contain, for Range and RoundRobin, every ORDERED tuple of the 7
    subscription listings for 1..3 members (7 + 49 + 343 = 399) with every split (p0, p1), p0 + p1 <= 6 (28 each), and a
    sample of the 4-member tuples; the other op families must be present at all"""
    seen = {"range": set(), "rr": set()}
    four = {"range": set(), "rr": set()}
    fams = {}
    for l in lines:
        if "\t" not in l:
            continue
        req = l.split("\t", 1)[0].split(" ")
        op = req[0]
        fams[op] = fams.get(op, 0) + 1
        if op not in seen or len(req) != 3:
            continue
        ms = [] if req[1] == "-" else req[1].split(";")
        tl = tuple(m.split("/")[2] for m in ms)
        if not (1 <= len(tl) <= 4) or any(t not in LISTINGS for t in tl):
            continue
        ps = [] if req[2] == "-" else req[2].split(";")
        topics = [p.split("/")[0] for p in ps]
        if any(t not in ("0", "1") for t in topics) or len(ps) > 6:
            continue
        key = (tl, topics.count("0"), topics.count("1"))
        (seen if len(tl) <= 3 else four)[op].add(key)
    want = 399 * 28
    need_fams = ["range", "rr", "rack", "grange", "grr", "grack", "vrange", "vrr", "vrack", "wrange", "wrr", "wrack", "fmbt", "fparts",
                 "xtopics", "abytes", "aread", "mbytes", "mread"]
    res = {"range_le3": len(seen["range"]), "rr_le3": len(seen["rr"]), "want_le3": want,
           "range_4": len(four["range"]), "rr_4": len(four["rr"]), "want_4_at_least": 3000,
           "missing_families": [f for f in need_fams if fams.get(f, 0) == 0]}
    res["ok"] = (res["range_le3"] >= want and res["rr_le3"] >= want and res["range_4"] >= 3000 and res["rr_4"] >= 3000
                 and not res["missing_families"])
    return res
