"""C08 — Writer batches respect size limits and are flushed without further input."""
import os, sys
sys.path.insert(0, os.path.join(os.path.dirname(os.path.dirname(os.path.abspath(__file__))), "lib"))
import writer_common

META = {
    "property_id": "C08",
    "engine": "lean-writer-lts",
    "technique": "Lean 4 theorems by invariants over all event sequences of one labelled transition system for writer.go (events = critical sections / channel operations), all configurations; tie = trace acceptance: add-only hooks in writer.go record the real Writer's events against a message-level fake RoundTripper (scripted faults, held calls), the compiled Lean oracle replays every trace through `step`, predicts the observations, and evaluates the decidable monitor on the broker journal",
    "level_claimed": {
        "category": "proof",
        "text": "Kernel-checked for every configuration (BatchSize, BatchBytes, MaxAttempts, sync/async, retry classification) and every finite event sequence of the Writer LTS: every produce request carries one batch of at most BatchSize messages and BatchBytes bytes for a single topic-partition (batch_limits); oversize messages and topic conflicts return before anything of the call is queued (reject_before_send); a batch is detached only when full / next message does not fit / timer fired / Close and the recorded reason keeps holding (queued_when_full_or_timer, detach_reason); outside the batchMessages critical section no attached batch is full (closed_when_full); timer-fire, detach, queue.Put are always enabled for an attached batch (flushed_by_timer); the sender takes the queue head only when idle (sent_after_predecessors). The model is tied to writer.go by trace acceptance on recorded runs of the real Writer.",
        "design_ref": "DESIGN.md §7 C08, C07, C01, C09(Writer)",
    },
    "level_note": "Trusted: Lean kernel; propext/Classical.choice/Quot.sound; hook placement (atomicity of each event = the lock bracketing it); the fake RoundTripper as broker; sampled schedules for the tie (trace acceptance is checked on recorded runs, not proved for all schedules); timer firing is an environment event (elapsed time not proved); liveness ('eventually produced') is observed per run (unsent=0 within a generous bound) and structurally proved only as enabledness (queue FIFO + sender takes head when idle).",
}

MODULE = "KafkaVerif.Props.C08"

def run(ctx):
    writer_common.run_writer(ctx, "c08", MODULE, "holdsC08 (limits per produce request, single topic-partition, reject-before-send, everything accepted gets produced)")
