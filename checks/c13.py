"""C13 — partition balancers return offered partitions and match the reference hashes."""

META = {
    "property_id": "C13",
    "engine": "lean-balancer",
    "technique": "Lean 4 theorems over an executable model of balancer.go (murmur2 loop ≡ block-recursive MurmurHash2 by induction; range/min/cycle invariants by induction over call histories); constants regenerated from source; model↔code differential correspondence through a compiled Lean oracle",
    "level_claimed": {
        "category": "proof",
        "text": "Kernel-checked theorems for every key, partition count (< 2^31 / 2^32), chunk size and call history: offered-partition, agreement with the Sarama / librdkafka / Java partition formulas incl. nil/empty-key rules, RoundRobin cycle for the first 2^64 calls and every ChunkSize, also for one balancer shared by lists of different lengths (64-bit call counter since the fix of D10; the 32-bit version of the pinned tree and the reverted position-keeping repair are kept as RoundRobinLegacy / RoundRobinPos with their counterexamples), LeastBytes minimality as an invariant over reachable states. The model is tied to balancer.go by constants re-extracted on every run and by running real balancers and the model on the same generated inputs.",
        "design_ref": "DESIGN.md §7 C13",
    },
    "level_note": "Trusted: Lean kernel; propext/Classical.choice/Quot.sound; the go/ast constant extractor; the driver/oracle correspondence (sampled inputs); Spec/Partitioners.lean is a transcription of the published reference formulas (no reference client in the sandbox); stdlib crc32/fnv modelled and validated by correspondence only; mutex atomicity of Balance bodies assumed (sampled by a concurrent multiset test); byte totals < 2^64.",
}

MODULE = "KafkaVerif.Props.C13"


def run(ctx):
    ctx.assumptions += [
        "partition counts < 2^31 (Hash/ReferenceHash) resp. < 2^32 (CRC32/Murmur2), as len() of a real slice",
        "RoundRobin: fewer than 2^64 calls on one balancer value (uint64 call counter; 584 years at one call per nanosecond) — beyond that the cycle breaks once (roundRobin_wrap64_counterexample); ChunkSize < 1 normalised to 1; no bound on ChunkSize",
        "LeastBytes: fixed duplicate-free partition list; byte totals < 2^64",
        "each Balance body is atomic: lock bracket extracted by go/ast on every run (theorem balance_bodies_atomic); mutex semantics trusted; sampled by rrconc/lbconc cases",
        "Hash/ReferenceHash: the hasher is acquired before and released (deferred) after its uses on both paths — event lists regenerated on every run (hasher_paths_owned); sync.Pool / sync.Mutex semantics trusted (pool_exclusive is about the Pool model); sampled by hashconc cases incl. a -race build",
        "Writer: a metadata topic entry without error lists >= 1 partition (MetaWF; the Writer does not check it: an empty list would make every built-in balancer panic); (*Writer).partitions is hand-modelled, tied by the woffer cases",
    ]
    ok, log = ctx.extract("balancer", ["lean/KafkaVerif/Gen/BalancerConsts.lean"])
    broken = []
    if not ok:
        broken.append({"kind": "obligation", "name": "translator go/extract balancer", "detail": log[-1500:]})
    res = ctx.prove(MODULE)
    if not res["ok"]:
        broken.append({"kind": "obligation", "theorems": res["failed"], "detail": res["reasons"][:10]})
    # correspondence + search for a failing input
    dis = []
    orc, olog = ctx.oracle_build("oracle_c13")
    drv, dlog = ctx.go_build("./cmd/c13", "c13")
    drvrace, rlog = ctx.go_build("./cmd/c13", "c13race", race=True)
    races = []
    if orc is None or drv is None or drvrace is None:
        broken.append({"kind": "obligation", "name": "correspondence C13 could not be built", "detail": (olog + dlog + rlog)[-1500:]})
    else:
        lines, rc, err = ctx.run_driver(drv, [])
        if rc != 0:
            broken.append({"kind": "obligation", "name": "driver c13 crashed", "detail": err[-1500:]})
        # the concurrent key-hashing cases once more under the Go race detector: two Balance calls touching one hasher
        # at the same time is a schedule on which the answer is not a function of key and count
        rlines, rrc, rerr = ctx.run_driver(drvrace, [], env={"C13_CONC_ONLY": "1", "GORACE": "halt_on_error=0 exitcode=0"})
        for rep in rerr.split("==================")[1:]:
            if "DATA RACE" in rep and "balancer.go" in rep:
                races.append(rep.strip()[:3000])
        if rrc != 0 and not races:
            broken.append({"kind": "obligation", "name": "driver c13 (race build) crashed", "detail": rerr[-1500:]})
        lines = lines + [l.replace("hashconc ", "hashconc race-", 1) for l in rlines if l.startswith("hashconc ")]
        dis = ctx.correspond(lines, orc, "balancer.go ↔ Model/Balancer.lean",
                             nontrivial=lambda op, impl: not op.startswith("cached"))
        ctx.coverage["race_reports_in_balancer"] = len(races)
    ctx.coverage["rule"] = ("keys: nil, empty, every length 1..40, test-vector strings, random lengths (bias to high-bit bytes); partition counts "
                            "1..65536 (+2^20 for index balancers); sparse/shifted id lists; RoundRobin chunk sizes incl. <1 and starting points just before 2^32 and 2^63 calls (placed by the verif hook); rrvar = lists that change between calls, checked against the global-call-number formula; "
                            "LeastBytes size sequences on permuted lists; concurrent multiset cases; hashconc = 8..32 goroutines sharing one key-hashing balancer "
                            "(pool / user hasher / crc32 / murmur2; keys up to 2 KB), also under the race detector; woffer = a real Writer over a fake RoundTripper "
                            "(topic missing / topic-level error codes / 1..9 partitions / decoy entry first; every built-in balancer + the default). distinct = distinct op lines other than `cached`")
    concrete = [d for d in dis if d.get("kind") == "disagreement" and not d["holds_on_impl"]]
    cid = {id(d) for d in concrete}
    others = [d for d in dis if id(d) not in cid]
    recorded = 0
    for d in concrete:
        if recorded >= 50: break      # cap on RECORDED violations: hits of known findings must not use it up
        recorded += ctx.violation({"kind": "input", "input": d["op"], "actual": d["impl"], "expected": d["model"],
                       "correspondence": d["correspondence"], "monitor": "Spec/Partitioners reference value / property monitor false on the implementation's output"},
                      True, signature="%s => %s" % (d["op"], d["impl"]))
    import re as _re
    for rep in races[:5]:
        frames = _re.findall(r"^\s+((?:github\.com/segmentio/kafka-go|hash/fnv)\S*)\(", rep, _re.M)
        recorded += ctx.violation({"kind": "schedule", "input": "hashconc (driver built with -race, C13_CONC_ONLY=1): concurrent Balance calls on one shared balancer value",
                                   "actual": "the Go race detector observed two Balance calls operating on the same hasher at the same time",
                                   "expected": "exclusive use of the hasher between acquire and (deferred) release — Props/C13 hasher_paths_owned, pool_exclusive",
                                   "race_report": rep}, True, signature="race in Balance: " + " | ".join(frames[:4]))
    # NB: decide on violations actually *recorded* — concrete failures that match a known finding do not count
    if (broken or others) and recorded == 0:
        ctx.violation({"kind": "obligation", "broken": broken, "disagreements": others[:20],
                       "note": "a proof obligation or the correspondence no longer checks; the search over %d generated cases found no input on which the property monitor fails" % ctx.coverage["evaluations"]},
                      False, signature="obligation " + str(broken)[:300])
    elif broken:
        for b in broken:
            ctx.notes.append("also broken: " + str(b)[:500])
