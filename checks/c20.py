"""C20 — malformed length fields from the network cannot crash or balloon the client."""
import os, sys
sys.path.insert(0, os.path.join(os.path.dirname(os.path.dirname(os.path.abspath(__file__))), "lib"))
import codec

META = {
    "property_id": "C20",
    "engine": "lean-wire-codec",
    "technique": "Lean 4: totality + allocation-bound theorem for the model of the reflection decoder on ARBITRARY bytes (outcomes ok/error/panic/balloon), by mutual induction over all schema types incl. tagged fields; the 'lengths are checked against decoder.remain before allocating' fact is re-extracted from decode.go/response.go/request.go on every run and the theorem is instantiated at it; counterexample theorems for the unchecked decoder; model<->code correspondence of the outcome class on systematically mutated frames decoded in a memory-limited child process",
    "level_claimed": {
        "category": "proof",
        "text": "Kernel-checked: for every schema type, every input byte string and every frame size, ReadResponse/decode of the bounded decoder returns a message or an error - no panic outcome and no allocation request larger than the bytes left in the frame (decode_total_bounded, readResponse_total_bounded), instantiated at the decoder configuration extracted from the current source. Tied to the code by the extracted guard facts and by decoding ~20k (quick) mutated frames of every response type x version in a child process (ulimit -v, GOMEMLIMIT, timeout) and comparing the outcome class and measured allocation with the model.",
        "design_ref": "DESIGN.md §7 C20",
    },
    "level_note": "Trusted: Lean kernel + standard axioms; the syntactic guard extractor (go/ast patterns G1-G5); the child-process harness. The bound is in terms of the bytes ANNOUNCED by the frame size and not yet consumed (= bytes received when the frame is complete); a frame whose size prefix itself lies can still request up to that size. RecordSet payload internals (record_v1/v2 lengths) are outside this model (C05/C17). CPU time is not modelled (sticky-error short-circuit); hangs are observed by the harness only.",
}

MODULE = "KafkaVerif.Props.C20"


def run(ctx, variants=(("verif", "c04"), ("verif,unsafe", "c04u"))):
    ctx.assumptions += [
        "allocation bound: every make()/makeArray request <= decoder.remain at that moment (c = 1 element or byte per remaining frame byte, k = 0); a Go element is at most a constant number of bytes per schema (harness threshold 256 B per frame byte + 1 MiB)",
        "remain is the announced frame size minus what was consumed: equals bytes received when the frame is complete",
        "RecordSet payload insides are opaque (C05/C17)",
        "after the first decoder error nothing more is allocated (sticky error: every later read returns 0) - modelled by short-circuit, sampled by the correspondence",
    ]
    broken = []
    codec.extract_all(ctx, broken)
    res = ctx.prove(MODULE)
    if not res["ok"]:
        broken.append({"kind": "obligation", "theorems": res["failed"], "detail": res["reasons"][:10]})
    dis = []
    orc, olog = ctx.oracle_build("oracle_c04")
    if orc is None:
        broken.append({"kind": "obligation", "name": "oracle_c04 could not be built", "detail": olog[-1500:]})
    if ctx.tier != "thorough":
        variants = variants[:2]
    for n, (tags, name) in enumerate(variants):
        if orc is None:
            break
        drv, dlog = ctx.go_build("./cmd/c04", name + "m", tags=tags)
        if drv is None:
            broken.append({"kind": "obligation", "name": "driver c04 (%s) could not be built" % tags, "detail": dlog[-1500:]})
            continue
        gen, rc, err = ctx.run_driver(drv, ["-malgen"])
        if rc != 0:
            broken.append({"kind": "obligation", "name": "driver c04 -malgen (%s) crashed" % tags, "detail": err[-1500:]})
            continue
        cases = [l for l in gen if l.strip()]
        if n > 0 and ctx.tier != "thorough":
            cases = cases[::4]          # the unsafe build shares decode.go; sample it in the quick tier
        path = os.path.join(os.path.dirname(drv), "c20-cases-%s-%d.txt" % (name, ctx.seed))
        with open(path, "w") as f:
            f.write("\n".join(cases) + "\n")
        lines, rc, err = ctx.run_driver(drv, ["-mal", path], timeout=3000)
        if rc != 0:
            broken.append({"kind": "obligation", "name": "driver c04 -mal (%s) crashed" % tags, "detail": err[-1500:]})
        got = [l for l in lines if "\t" in l]
        if len(got) != len(cases):
            broken.append({"kind": "obligation", "name": "driver c04 -mal (%s): %d outcomes for %d cases" % (tags, len(got), len(cases)), "detail": err[-800:]})
        dis += ctx.correspond(got, orc, "ReadResponse on mutated frames (%s) <-> Model/Codec.lean readResponse" % tags)
    ctx.coverage["rule"] = ("every response type x version: the well-formed small-full frame and copies with ONE position overwritten as an int32 "
                            "{-1, min, max, rest+1, orig+-1, 0}, int16 {-1, max, min, rest+1} or varint {2^31-1, 2^31, 2^63, 2^64-1, 11 continuation bytes, 0,1,2} "
                            "(quick: frame size, first body offsets, 6 random offsets; thorough: every offset, random values too), plus size prefix 2^31-1; "
                            "decoded by the real ReadResponse in a child process (ulimit -v 4 GiB, GOMEMLIMIT 512 MiB, 8 s timeout, stops after 20 crashed cases), outcome ok/err/panic/oom/timeout "
                            "and measured TotalAlloc <= 256*len+1MiB compared with the model's ok/err/panic/balloon. distinct = distinct frames")
    concrete = [d for d in dis if d.get("kind") == "disagreement" and not d["holds_on_impl"]]
    others = [d for d in dis if d not in concrete]
    recorded = 0
    for d in concrete[:60]:
        op = d["op"]
        p = op.split(" ")
        sig = "mal %s %s => %s" % (p[1], p[2], d["impl"])
        recorded += ctx.violation({"kind": "input", "input": op, "actual": d["impl"], "expected_model": d["model"],
                                   "monitor": "outcome must be a decoded message or an error (never panic / out of memory / hang)",
                                   "correspondence": d["correspondence"]}, True, signature=sig)
    if (broken or others) and recorded == 0:
        ctx.violation({"kind": "obligation", "broken": broken, "disagreements": others[:20],
                       "note": "a proof obligation, the guard extraction or the outcome correspondence no longer checks; no mutated frame among %d made the real decoder panic, balloon or hang" % ctx.coverage["evaluations"]},
                      False, signature="obligation " + str(broken)[:300])
    elif broken:
        for b in broken:
            ctx.notes.append("also broken: " + str(b)[:500])
