"""C20 — malformed length fields from the network cannot crash or balloon the client."""
import os, sys, struct
sys.path.insert(0, os.path.join(os.path.dirname(os.path.dirname(os.path.abspath(__file__))), "lib"))
import codec

META = {
    "property_id": "C20",
    "engine": "lean-wire-codec",
    "technique": "Lean 4: totality + allocation-bound theorem for the model of the reflection decoder on ARBITRARY bytes (outcomes ok/error/panic/balloon), by mutual induction over all schema types incl. tagged fields, extended by a model of RecordSet.ReadFrom / readFromVersion1 / readFromVersion2 (nested remains, message sizes, batchLength, numRecords, record/key/value/header varints) plugged into the frame decoder; the 'lengths are checked against decoder.remain before allocating' facts (G1-G5 in decode.go/response.go/request.go, 7 record-set guards in record*.go) are re-extracted on every run and the theorems are instantiated at them; exact-frame-accounting theorem (one frame consumed whatever the fields say); counterexample theorems for the unchecked decoder; model<->code correspondence of the outcome class on systematically mutated frames decoded in a memory-limited child process",
    "level_claimed": {
        "category": "proof",
        "text": "Kernel-checked: for every schema type, every input byte string and every frame size, ReadResponse/decode of the bounded decoder returns a message or an error - no panic outcome and no allocation request beyond the bytes left in the frame nor more than a constant ahead of the bytes actually received (decode_total_bounded, readResponse_total_bounded, readRequest_total_bounded, readResponse_total_with_records, readResponse_consumes_frame_with_records), instantiated at the decoder configuration extracted from the current source. Tied to the code by the extracted guard facts and by decoding ~20k (quick) mutated frames of every response type x version in a child process (ulimit -v, GOMEMLIMIT, timeout) and comparing the outcome class and measured allocation with the model.",
        "design_ref": "DESIGN.md §7 C20",
    },
    "level_note": "Trusted: Lean kernel + standard axioms; the syntactic guard extractors (go/ast patterns G1-G5, 7 record-set guard patterns); the child-process harness. The model distinguishes `remain` (bytes the size prefix ANNOUNCES) from `inp` (bytes the connection really delivers): a decoder that checks every length against `remain` but allocates the announced amount upfront is `balloon` in the model (Cfg.growing = false; counterexamples lying_count_/lying_length_counterexample = C20-D30/D33), the safety theorems need Guarded = bounded (G1-G5) AND growing (G8 arrays, G9 strings/bytes), both re-extracted; allocation constants (1024 elements / 64 KiB ahead of the data) are the model's abstraction of arrayChunk / readChunk. Decompression and CRC are parameters of the record-set model (any function): what a codec allocates while inflating is C16's. CPU time is not modelled (sticky-error short-circuit); hangs are observed by the harness only.",
}

MODULE = "KafkaVerif.Props.C20"


def run(ctx, variants=(("verif", "c04"), ("verif,unsafe", "c04u"))):
    ctx.assumptions += [
        "allocation bound: every make()/makeArray request <= decoder.remain at that moment (c = 1 element or byte per remaining frame byte, k = 0); a Go element is at most a constant number of bytes per schema (harness threshold 256 B per frame byte + 1 MiB)",
        "remain is the announced frame size minus what was consumed: equals bytes received when the frame is complete",
        "CRC and decompression are arbitrary functions in the record-set model (theorems hold for all of them); the oracle runs with the real CRCs and no decompressor (generated cases are uncompressed)",
        "after the first decoder error nothing more is allocated (sticky error: every later read returns 0) - modelled by short-circuit, sampled by the correspondence",
    ]
    broken = []
    codec.extract_all(ctx, broken)
    res = ctx.prove(MODULE)
    if not res["ok"]:
        broken.append({"kind": "obligation", "theorems": res["failed"], "detail": res["reasons"][:10]})
    dis = []
    orc, olog = ctx.oracle_build("oracle_c04")
    if orc is None:
        broken.append({"kind": "obligation", "name": "oracle_c04 could not be built", "detail": olog[-1500:]})
    if ctx.tier != "thorough":
        variants = variants[:2]
    lying_all = set()
    for n, (tags, name) in enumerate(variants):
        if orc is None:
            break
        drv, dlog = ctx.go_build("./cmd/c04", name + "m", tags=tags)
        if drv is None:
            broken.append({"kind": "obligation", "name": "driver c04 (%s) could not be built" % tags, "detail": dlog[-1500:]})
            continue
        # (a) deterministic: every length / count field of every well-formed frame (positions from the schema via
        #     the oracle's `lens` op, inside record sets too) x the full value set
        fl, rc, err = ctx.run_driver(drv, ["-malframes"])
        frames = [l.split() for l in fl if len(l.split()) == 3]
        if rc != 0 or not frames:
            broken.append({"kind": "obligation", "name": "driver c04 -malframes (%s) failed" % tags, "detail": err[-1500:]})
            continue
        cases, nfields, nofields = [], 0, 0

        def expand(fr_list):
            nonlocal nfields, nofields
            outs, e = codec.oracle_lines(ctx, orc, ["lens %s %s %s => -" % tuple(f) for f in fr_list])
            if outs is None:
                broken.append({"kind": "obligation", "name": "oracle lens op", "detail": e}); return []
            parsed = []
            for f, o in zip(fr_list, outs):
                m = o[6:o.rindex(" holds=")] if o.startswith("model=") else "-"
                fields = codec.parse_fields(m)
                if not fields:
                    nofields += 1
                raw = bytes.fromhex(f[2])
                cases.append("%s %s %s" % (f[0], f[1], f[2]))
                for fd in fields:
                    nfields += 1
                    for mb in codec.field_mutations(raw, fd, ctx.tier == "thorough"):
                        cases.append("%s %s %s" % (f[0], f[1], mb.hex()))
                parsed.append((f, raw, fields))
            return parsed

        parsed = expand(frames)
        # magic-0 message sets (the writer never produces them): rewritten from the magic-1 frames
        v0 = []
        for f, raw, fields in parsed:
            b0 = codec.v1_to_v0(raw, fields)
            if b0:
                v0.append([f[0], f[1], b0.hex()])
        parsed0 = expand(v0)
        # (a') announced sizes consistent with each other but the STREAM ends early: every frame cut at every offset
        #      (the decoder must report an error - never a message, a panic or a hang - wherever the bytes stop,
        #      inside record sets included)
        ncut = 0
        for f, raw, fields in parsed + parsed0:
            hexs = f[2]
            step = 1 if (ctx.tier == "thorough" or len(raw) <= 400 or any(x["crc"] for x in fields)) else 3
            for k in range(0, len(raw), step):
                cases.append("%s %s %s" % (f[0], f[1], hexs[:2 * k] or "-"))
                ncut += 1
        ctx.coverage["truncated_stream_cases"] = ctx.coverage.get("truncated_stream_cases", 0) + ncut
        if nofields:
            broken.append({"kind": "obligation", "name": "lens: %d well-formed frames could not be walked" % nofields, "detail": ""})
        ctx.coverage["length_fields_mutated"] = ctx.coverage.get("length_fields_mutated", 0) + nfields
        ctx.coverage["v0_message_set_frames"] = len(v0)
        # (a4) exactly ONE frame must be consumed: every case below is followed on the same connection by a second,
        #      clean frame of the same type (correlation id 9) and both are decoded with one bufio.Reader:
        #      honest frames whose record set has a stump / unknown-magic tail after its last batch; frames whose size
        #      prefix ends the frame right after a length field; and the well-formed frames themselves
        npipe = 0
        for f, raw, fields in parsed + parsed0:
            second = bytearray(raw); second[4:8] = b"\x00\x00\x00\x09"
            firsts = [raw] + [b for _, b in codec.record_set_tails(raw, fields)]
            if any(x["crc"] for x in fields) or ctx.tier == "thorough" or len(raw) <= 120:
                firsts += codec.frame_ends_after(raw, fields)
            for b in firsts:
                cases.append("P%s %s %s.%s" % (f[0], f[1], b.hex(), bytes(second).hex()))
                npipe += 1
            for b in codec.tag_marker_recursion(raw, fields):
                cases.append("%s %s %s" % (f[0], f[1], b.hex()))
        ctx.coverage["pipelined_two_frame_cases"] = ctx.coverage.get("pipelined_two_frame_cases", 0) + npipe
        # (a'') the un-framed SASL token exchange on the Transport path (handshake v0): its only length field
        for h in ["0000000401020304", "00000000", "ffffffff", "80000000", "7fffffff0102", "fffffffe", "0000000501020304", "000000", "7ffffff0", "00010000" + "00" * 16]:
            cases.append("sasl 0 %s" % h)
        # (a3) TWO lying fields: a frame-size prefix of 2^31-1 AND a count that is huge yet below it.  The bound check
        #      compares with the ANNOUNCED remaining bytes, so the allocation is proportional to what the frame claims,
        #      not to what was received (finding C20-D30; see docs/notes/C20.md)
        lying = []
        for f, raw, fields in parsed:
            cnt = [x for x in fields if x["kind"] == "i32" and x["off"] >= 8 and not x["crc"] and len(x["encl"]) == 1]
            if f[0] == "61" and cnt:                     # metadata responses: brokers []struct (48-byte elements)
                b = bytearray(raw)
                b[0:4] = bytes.fromhex("7fffffff")
                o = cnt[0]["off"]
                b[o:o + 4] = bytes.fromhex("08000000")
                lying.append("%s %s %s" % (f[0], f[1], bytes(b[:o + 4]).hex()))
        cases += lying[:2]
        lying_all |= set(c.split(" ")[2] for c in lying[:2])
        # (a3') the same with EVERY top-level int32 / compact length or count field of every response type x version (strings,
        #       bytes, arrays, tagged-field sizes): size prefix 2^31-1, the field set to 0x7f000000 (within the announced rest),
        #       the frame cut right after the field and 3 bytes later.  Only ~20 bytes were received: error, no allocation
        nly = 0
        for f, raw, fields in parsed:
            top = [x for x in fields if x["kind"] in ("i32", "uv") and x["off"] >= 8 and not x["crc"] and len(x["encl"]) == 1]
            if ctx.tier != "thorough":
                top = top[:4]
            for x in top:
                o, w = x["off"], x["width"]
                huge = bytes.fromhex("7f000000") if x["kind"] == "i32" else codec.enc_uv(0x7f000000)
                b = bytearray(raw[:o]) + huge
                b[0:4] = bytes.fromhex("7fffffff")
                for tail in (b"", b"\x01\x02\x03"):
                    cases.append("%s %s %s" % (f[0], f[1], (bytes(b) + tail).hex()))
                    nly += 1
            # … and INSIDE record sets: every enclosing length (frame, record-set size, batch length / message size) lies
            #     consistently (each inside the one around it) and the field itself is huge; cut after the field
            deep = [x for x in fields if x["kind"] in ("i32", "uv", "zv") and x["off"] >= 8 and len(x["encl"]) > 1]
            if ctx.tier != "thorough":
                deep = deep[:6]
            for x in deep:
                o = x["off"]
                huge = {"i32": bytes.fromhex("60000000"), "uv": codec.enc_uv(0x60000000), "zv": codec.enc_zv(0x60000000)}[x["kind"]]
                b = bytearray(raw[:o]) + huge + b"\x01\x02"
                for lvl, e in enumerate(sorted(x["encl"])):
                    b[e:e + 4] = struct.pack(">i", 0x7fffffff - lvl * 0x04000000)
                cases.append("%s %s %s" % (f[0], f[1], bytes(b).hex()))
                nly += 1
        # (a3'') … and with MORE than the first chunk actually delivered (read: 64 KiB, decodeElems: 1024 elements): the lying field
        #        announces 256 MiB, the peer sends 66 560 / 204 800 bytes of it and stops.  The buffer must have grown with what
        #        arrived (Props/C20 read_/array_allocations_follow_data: each allocation <= 2 x received), not to the announced size
        nbig = 0
        names = codec.schema_names()
        bigmsgs = ("syncgroup_Response", "saslauthenticate_Response", "metadata_Response", "createacls_Response", "describegroups_Response", "joingroup_Response")
        pick = [p for p in parsed if p[0][0].isdigit() and int(p[0][0]) < len(names) and names[int(p[0][0])] in bigmsgs]
        seenb = set()
        if True:                        # lowest and highest version of each picked message (thorough: both delivery sizes for all)
            vers = {}
            for p in pick:
                vers.setdefault(p[0][0], []).append(int(p[0][1]))
            pick = [p for p in pick if int(p[0][1]) in (min(vers[p[0][0]]), max(vers[p[0][0]]))]
            pick = list({(p[0][0], p[0][1]): p for p in pick}.values())
        for f, raw, fields in pick:
            top = [x for x in fields if x["kind"] in ("i32", "uv") and x["off"] >= 8 and not x["crc"] and len(x["encl"]) == 1]
            for x in top[-1:] + top[:1]:
                key = (f[0], f[1], x["off"])
                if key in seenb: continue
                seenb.add(key)
                o = x["off"]
                huge = bytes.fromhex("10000000") if x["kind"] == "i32" else codec.enc_uv(0x10000001)
                for delivered in ((66560, 204800) if ctx.tier == "thorough" or nbig < 4 else (66560,)):
                    b = bytearray(raw[:o]) + huge + bytes((i * 7 + 1) & 0x7f for i in range(delivered))
                    b[0:4] = bytes.fromhex("7fffffff")
                    cases.append("%s %s %s" % (f[0], f[1], bytes(b).hex()))
                    nbig += 1
        ctx.coverage["lying_length_with_first_chunk_delivered_cases"] = ctx.coverage.get("lying_length_with_first_chunk_delivered_cases", 0) + nbig
        ctx.coverage["lying_size_and_length_cases"] = ctx.coverage.get("lying_size_and_length_cases", 0) + nly
        # (b) extra: blind overwrites at random offsets
        gen, rc, err = ctx.run_driver(drv, ["-malgen"])
        if rc != 0:
            broken.append({"kind": "obligation", "name": "driver c04 -malgen (%s) crashed" % tags, "detail": err[-1500:]})
            continue
        cases += [l for l in gen if l.strip()]
        cases = list(dict.fromkeys(cases))
        if n > 0:
            cases = cases[::4] if ctx.tier != "thorough" else cases[::2]   # the unsafe build shares decode.go; sampled
        path = os.path.join(os.path.dirname(drv), "c20-cases-%s-%d.txt" % (name, ctx.seed))
        with open(path, "w") as f:
            f.write("\n".join(cases) + "\n")
        lines, rc, err = ctx.run_driver(drv, ["-mal", path], timeout=3000)
        if rc != 0:
            broken.append({"kind": "obligation", "name": "driver c04 -mal (%s) crashed" % tags, "detail": err[-1500:]})
        got = [l for l in lines if "\t" in l]
        if len(got) != len(cases) and "stopping after" not in err:
            broken.append({"kind": "obligation", "name": "driver c04 -mal (%s): %d outcomes for %d cases" % (tags, len(got), len(cases)), "detail": err[-800:]})
        dis += ctx.correspond(got, orc, "ReadResponse on mutated frames (%s) <-> Model/Codec.lean readResponse" % tags)
        if any(d.get("kind") == "disagreement" and not d["holds_on_impl"] and d["op"].split(" ")[-1] not in lying_all for d in dis):
            break                       # failing inputs found: no need to spend the budget on the other build variant
    ctx.coverage["rule"] = ("PIPELINED: two frames back to back on one connection (first: well-formed / record set with a stump of 1,5,16 bytes or an unknown-magic batch "
                            "after its last batch, sizes honest / frame size ending the frame right after each length field; second: clean frame) - the second must decode to its own "
                            "correlation id whenever the first decodes. TAG MARKER: tag id 2^64-1 (the `_ struct{}` marker's map key) with nested tag buffers. TRUNCATED STREAM: every well-formed response frame (Fetch with magic 0/1/2 record sets included) cut at every offset with "
                            "all announced sizes left consistent - outcome must be an error. DETERMINISTIC: every response type x version (Fetch: one frame per message-set format magic 0/1/2 with 3 records, keys, a header): "
                            "EVERY length/count field (frame size, string/bytes/array prefixes fixed and compact, tag-buffer counts, record-set size, message size, "
                            "batchLength, numRecords, v0/v1 key/value lengths, v2 record/key/value/header varints; positions computed from the schema by the oracle) x "
                            "{-1,-2,min,max,0,orig+-1,rest,rest+1,255,2^16,2^24} resp. varints {0,1,2,orig+-1,rest+1,rest+2,2^31,2^32,2^62,2^63,2^64-1,-2^63,over-long}, "
                            "enclosing sizes kept consistent, checksummed fields both raw and with the CRC recomputed. EXTRA (blind): "
                            "the well-formed small-full frame and copies with ONE position overwritten as an int32 "
                            "{-1, min, max, rest+1, orig+-1, 0}, int16 {-1, max, min, rest+1} or varint {2^31-1, 2^31, 2^63, 2^64-1, 11 continuation bytes, 0,1,2} "
                            "(quick: frame size, first body offsets, 6 random offsets; thorough: every offset, random values too), plus size prefix 2^31-1; "
                            "decoded by the real ReadResponse in a child process (ulimit -v 4 GiB, GOMEMLIMIT 512 MiB, 5 s timeout, stops after 8 crashed cases), outcome ok/err/panic/oom/timeout "
                            "and measured TotalAlloc <= 256*len+1MiB compared with the model's ok/err/panic/balloon. distinct = distinct frames")
    concrete = [d for d in dis if d.get("kind") == "disagreement" and not d["holds_on_impl"]]
    others = [d for d in dis if d not in concrete]
    recorded = 0
    for d in concrete:
        if recorded >= 60:          # (disagreements that match a known finding do not count against the cap)
            break
        op = d["op"]
        p = op.split(" ")
        sig = "mal %s %s => %s" % (p[1], p[2], d["impl"])
        if len(p) > 3 and p[3] in lying_all:
            sig = "lying-size-and-count " + sig + " " + p[3]
        recorded += ctx.violation({"kind": "input", "input": op, "actual": d["impl"], "expected_model": d["model"],
                                   "monitor": "outcome must be a decoded message or an error (never panic / out of memory / hang)",
                                   "correspondence": d["correspondence"]}, True, signature=sig)
    if (broken or others) and recorded == 0:
        ctx.violation({"kind": "obligation", "broken": broken, "disagreements": others[:20],
                       "note": "a proof obligation, the guard extraction or the outcome correspondence no longer checks; no mutated frame among %d made the real decoder panic, balloon or hang" % ctx.coverage["evaluations"]},
                      False, signature="obligation " + str(broken)[:300])
    elif broken:
        for b in broken:
            ctx.notes.append("also broken: " + str(b)[:500])
