"""C02 — Reader delivers exactly the partition's records from its position, in order."""
import re

META = {
    "property_id": "C02",
    "engine": "lean-fetch-decoder",
    "technique": "Lean 4 theorems over an executable model of the fetch-response decoder (message_reader.go readerStack/readHeader/readMessageV1/V2/markRead, batch.go readMessage/ReadMessage/close) as a token machine, of the fetch iteration of a Conn against a contract-obeying broker, and of reader.go's run/initialize/read loop and FetchMessage/SetOffset front; model↔code correspondence by running the real Conn.ReadBatch and the real Reader against an in-process fake broker that serves scripted logs in scripted physical layouts with scripted faults, through a compiled Lean oracle",
    "level_claimed": {
        "category": "proof",
        "text": "Kernel-checked: for every layout of a log (message formats 0/1/2, any batch boundaries, compressed batches and wrappers, compaction holes at head/inside/tail, retained empty batches in any number, batches beginning before the start offset), every byte cut and every start offset, one fetch round delivers exactly the completely contained records at or above the start offset, in order, each once, never panics/desynchronises, never jumps over a stored record — stated for the token machine, for the statement-level model of message_reader.go/batch.go (pull parser, pull_eq_run) and about bytes (tokenize_items). Under the fetch contract the position strictly advances; iterating against any contract-obeying answers delivers the log from the start offset gap-free and duplicate-free. The Reader's reconnect/backoff loop is a total LTS; with the read outcomes computed (broker under the fetch contract, connections lost at any byte, deadlines, cancellation; decoder as written) it pushes exactly the stored records from the resolved start offset, each once, in order (reader_end_to_end), cannot starve (reader_no_starvation), and is the fetcher the front model assumes (reader_loop_is_fetcher). The whole Reader (front with version tags + one loop per fetcher + world): after SetOffset(o) FetchMessage returns take n (feed log o) for every interleaving (reader_delivers); sequential API spec with Offset(), SetOffset's no-op rule and the lazy start (reader_api). The models are tied to the code by running both on the same generated layouts/cuts/offsets (byte level through Conn.ReadBatch for fetch v2/v5/v10), scripted Reader runs, hook traces of the loop and the front replayed through the LTSs, and go/ast facts incl. the normalised text of readMessage/readMessageV1/markRead/unwindStack.",
        "design_ref": "DESIGN.md §7 C02",
    },
    "level_note": "Proved in general: single_fetch / fetch_progress / iterated_fetch (all message formats, any cut/offset/budgets; `Safe` = no v0/v1 message skipped right before a v2 batch, implied by the fetch contract); bytes↔tokens for everything the Spec encoder can emit, truncated anywhere (codec as a parameter with dec∘enc = id), and for uncompressed v2/v1/v0 layouts as a theorem about the byte-level Go reads strung together (walk_bytes, single_fetch_walk; header_bytes/record_bytes/message_bytes/wrapper_bytes per item, reads_within_remain: no read looks beyond the set, varint_refill: independent of how the network cuts the stream); pull parser = token machine on every token stream unless the latter reports desync; loop/world/front/system theorems over every event sequence. Structural facts of the decoder and loop source are re-extracted by go/ast on every run (Gen/DecoderFacts.lean, after a normalisation pass that makes extract-method refactorings, local renames and clause reorderings invisible) and compared by theorems. Trusted: Lean kernel; propext/Classical.choice/Quot.sound; that the Lean models transcribe the Go text (sampled: driver cases, rtrace/ftrace replays, pullfuzz, tok; pinned by the go/ast facts); the fetch contract (first batch whole, KIP-74) and Env.ok (a reported first offset is not above a stored record) as hypotheses; codecs/net modelled not verified, bufio only where control flow depends on it (readVarInt's refill loop: varint_refill); deadlines and cancellation are environment events; the consumer-group mode is outside the statement; LastOffset means the log end the broker reports at the first successful initialize.",
}

MODULE = "KafkaVerif.Props.C02"


def run(ctx):
    ctx.assumptions += [
        "the broker obeys the fetch contract: a response starts with the batch containing the fetch offset and that batch is whole (hypothesis of fetch_progress / iterated_fetch; single_fetch holds for every layout, cut and offset)",
        "record offsets in a layout increase strictly; batch ranges [base,last] are disjoint and increasing; an empty v2 batch is a bare header (as the log cleaner writes it)",
        "decompression of a complete payload succeeds and yields the records the producer wrote (codec dec∘enc = id; C16)",
        "deadline expiry is a boolean parameter of the model (`expired`)",
        "generated timestamps are > 0; a stored CreateTime of exactly 0 ms is delivered as the zero time.Time: known finding D21 (corpus op fetchts)",
        "Safe o L: readMessageV1's loop never has to step from a v0/v1 message it skipped into a v2 batch (holds under the fetch contract, for pure v2 and pure v0/v1 layouts)",
        "Env.ok: a first offset reported by the broker (ListOffsets, at initialize or after OffsetOutOfRange) is not above a record that is still stored, and first <= last (hypothesis of reader_end_to_end / reader_delivers / reader_api)",
        "reader_delivers: SetOffset with an absolute offset or FirstOffset; reader_delivers_last: SetOffset(LastOffset) delivers the stored records from the log end l the broker reports at the fetcher's first successful initialize (CEv.okAt ties l to that report); reader_api covers Close; the consumer-group mode is outside the statement",
    ]
    broken = []
    ok, log = ctx.extract("decoder", ["lean/KafkaVerif/Gen/DecoderFacts.lean"])
    if not ok:
        broken.append({"kind": "obligation", "name": "translator go/extract decoder (message_reader.go, batch.go, conn.go, reader.go → Gen/DecoderFacts.lean)", "detail": log[-1500:]})
    res = ctx.prove(MODULE)
    if not res["ok"]:
        broken.append({"kind": "obligation", "theorems": res["failed"], "detail": res["reasons"][:10]})
    dis = []
    orc, olog = ctx.oracle_build("oracle_c02")
    drv, dlog = ctx.go_build("./cmd/c02", "c02")
    if orc is None or drv is None:
        broken.append({"kind": "obligation", "name": "correspondence C02 could not be built", "detail": (olog + dlog)[-1500:]})
    else:
        lines, rc, err = ctx.run_driver(drv, [], timeout=1500)
        if rc != 0:
            # the decoder panicking in a background goroutine of the Reader kills the driver: the last op line
            # printed to stderr names the scenario
            broken.append({"kind": "obligation", "name": "driver c02 crashed", "detail": err[-1500:]})
        dis = ctx.correspond(lines, orc, "conn.go ReadBatch / batch.go / message_reader.go / reader.go ↔ Model/MessageSetReader.lean, Model/Batch.lean, Model/ReaderLoop.lean",
                             nontrivial=lambda op, impl: " L=-" not in op)
    ctx.coverage["rule"] = (
        "fetch … chunk=<n>: the response frame reaches the client in pieces of n bytes (54 quick / ~450 thorough; n in 1,2,3,5,16,rand; multi-byte varints; same expected result; then a ReadLastOffset on the same Conn must work after a clean round); every third v2 data batch carries the transactional attribute bit; fetch v4+ responses report last stable offset = fetch offset < high watermark; the fake is a cluster (broker k at fake:9092+k-1; partition requests on a connection dialled to a non-leader address get NotLeaderForPartition; `move` faults move the leadership to another address); fault `stall<k>`: the frame stops after k bytes and the connection stays open and silent; an error handed to the application fails the monitor; every reader scenario ends with Reader.Close and `all connections the fetch loop opened are over`; oore: ReaderConfig.OffsetOutOfRangeError on/off with a start beyond the log end, through the loop LTS; unkcodec: a v2 batch with compression codec 5-7 (errUnknownCodec branch of the loop: 4 errors, nothing delivered, no connection left behind); reader … faults=i:err1h: OffsetOutOfRange, then the ListOffsets on that connection is never answered (the reader comes back after its 10 s deadline); tok: the driver's real bytes (uncompressed layouts, random cut) through the Lean byte tokenizer and through the byte-level readers (readHeaderB, readRecordV2, readBodyV1); rtrace / ftrace: RL.* / RF.* hook traces of every Reader scenario replayed through the loop LTS / checked against the front model; fetchx: the fetch generator read after the batch's adjusted deadline has passed (58 cases quick / 318 thorough; out must be RequestTimedOut); fetchts: stored timestamp 0 (D21); fetch: logs of 1..6 original batches in format 2 / 1 / 0 / mixed(1 then 2), compaction modes keep-all, random holes, head holes, tail holes, "
        "empty (retained bare header, sometimes dropped), whole-batch gaps, codecs none/gzip/snappy/lz4/zstd (v2) and gzip/snappy/lz4 wrappers (v0/v1; one in three with a key of 0-8 bytes, C05-D31), start offset anywhere "
        "in the log incl. the log end, served from the batch containing it (3/4) or from the log start, cut: none / uniform byte / within the last 70 bytes; fetch v2/v5/v10 round robin; "
        "iter: the same logs served under the fetch contract with 1..3 cycling byte budgets from {1,80,150,300,1000,2^20}+rand; "
        "reader: scripted Reader runs (faults cut/err/hang/move, log-start truncation, SetOffset). distinct = distinct op lines with a non-empty layout")
    concrete = [d for d in dis if d.get("kind") == "disagreement" and not d["holds_on_impl"]]
    others = [d for d in dis if d not in concrete]
    recorded = 0
    for d in concrete:
        if recorded >= 50: break      # cap on RECORDED violations: hits of known findings must not use it up
        recorded += bool(ctx.violation(
            {"kind": "input", "input": d["op"], "actual": d["impl"], "expected": d["model"],
             "correspondence": d["correspondence"],
             "monitor": "delivered sequence ≠ stored records at/above the start offset completely contained in the response(s) (or the position jumped over a stored record / moved backwards / the round did not end cleanly)"},
            True, signature="%s => %s" % (sig_of(d["op"]), d["impl"][-40:])))
    if (broken or others) and recorded == 0:
        ctx.violation({"kind": "obligation", "broken": broken, "disagreements": others[:20],
                       "note": "a proof obligation or the correspondence no longer checks; the search over %d generated cases found no input on which the property monitor fails" % ctx.coverage["evaluations"]},
                      False, signature="obligation " + str(broken)[:300])
    elif broken:
        for b in broken:
            ctx.notes.append("also broken: " + str(b)[:500])


def sig_of(op):
    """shape of the failing input: op kind, fetch version and the layout's item kinds (for known-finding signatures)"""
    m = re.search(r" L=(\S+)", op)
    shape = ""
    if m:
        for it in m.group(1).split("/"):
            f = it.split(":")
            if f[0] == "b":
                shape += ("e" if f[5] == "-" else ("z" if f[3] != "0" else "d"))
            else:
                shape += f[0]
    return "%s %s" % (op.split(" ", 1)[0], shape)
