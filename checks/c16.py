"""C16 — compression codecs are lossless, interoperable and history-independent."""
import os

META = {
    "property_id": "C16",
    "engine": "lean-xerial",
    "technique": "Lean model of compress/snappy/xerial.go (writer loop/Flush/Close, reader readChunk/Read with header detection, unframed and direct-decode paths, Reset) over an abstract block codec with kernel-checked theorems (content conservation, block bounds, output = Spec framing, Spec.parse∘frame = id, reader drains reference streams, round trip, Reset = fresh); independent framing spec Spec/Xerial; correspondence of the real codecs (gzip, snappy framed/unframed, lz4, zstd) through a compiled Lean oracle: writer block partition and reader Read-size sequences vs the model, losslessness under random Write/Read chunking, interop both ways with stdlib gzip, golang/snappy + eapache/go-xerial-snappy, pierrec/lz4 and klauspost/zstd used directly, pooled-object history independence (after normal, truncated, corrupt, abandoned and failed-sink streams), concurrent use (-race in thorough).",
    "level_claimed": {
        "category": "proof",
        "text": "Kernel-checked for the xerial framing and the pool protocol, for every payload, every split into Write calls and any block codec with dec(enc b) = b: the writer's output is exactly the Spec framing of blocks that concatenate to the payload, each non-empty and ≤ 32 KiB (one raw block when unframed); Spec.parse accepts it; the reader drains every Spec-framed reference stream and every unframed block (not starting with the magic) to the concatenation; round trip writer→reader; Reset yields the fresh state. The READER is proved for ARBITRARY Read buffer sizes (reads_reference_streams, reads_reference_unframed, xerial_roundtrip full: writer→reader for every payload, Write split and Read size sequence, framed and unframed) and also compared with the real reader's Read-size sequences. Pool protocol LTS (acquire/Reset/use/Close/Put, repeated Close, pool drops): pool_inv / pool_no_sharing (an object is in the pool at most once, never while in use, never used by two wrappers) over all op sequences, close_idempotent, double_close_counterexample for a Close that keeps its object. Block size / flush threshold regenerated from xerial.go (gen_xerial_consts). Round 3: the underlying io.Reader is a parameter of the reader model (any script of short reads, (0,nil) answers, data returned together with io.EOF): source_independent, reads_reference_streams_any_source, xerial_roundtrip_any_source (+ data_with_eof_counterexample); 'Put is the last touch' (touch_exclusive, put_before_reset_counterexample) with the statement order of all 8 Close methods extracted by go/ast on every run (gen_close_order). Round 4: configuration-keyed pools (cfg_respected, shared_pool_counterexample, extracted pool ownership gen_pool_keys), lib_history_independent for the library-backed codecs under their Reset contract, io.Copy paths WriteTo / ReadFrom modelled and proved (writeTo_reference_streams, readFrom_conserves). gzip / lz4 / zstd wrappers only pool + Reset library objects: correspondence only (losslessness, interop, history independence, concurrency), conditional on the libraries' Reset contracts. Later: the premise of reset_fresh is read off the source (go/extract resetfields -> Gen/XerialReset, gen_reset_complete: every mutable field of xerialReader / xerialWriter is assigned by Reset, by the constructor after the pool Get, or is scratch); streams that END EARLY: simulation lemmas (Lemmas/XerialCut) and truncated_stream_prefix(+_any_source): for a framed reference stream cut anywhere after the header, any Read sizes and any source behaviour, everything handed out before the end/error is a prefix of the payload; op xrcut runs the real xerialReader on such streams against the model (it corrected the model: a stream that stops right after a frame length is reported as a clean io.EOF by the code). Round 6: Read buffers with len < cap are in the model (readB/readBuf; the bound of the decode-into-the-caller's-buffer shortcut is read off readChunk by go/extract xerialfacts): read_contract (n <= len(p) always), readBuf_eq_read (capacity irrelevant), cap_bound_counterexample; the block encoder installed per Compression option is regenerated and proved to be one of the snappy-format encoders (gen_snappy_encoders); the driver reads into prefixes of larger arrays and exercises the non-default snappy levels with highly compressible payloads against the reference decoder.",
        "design_ref": "DESIGN.md §7 C16",
    },
    "level_note": "Trusted: Lean kernel; propext/Classical.choice/Quot.sound; Spec/Xerial.lean is my transcription of the snappy-java framing; the block compressors (klauspost snappy/s2, gzip, zstd, pierrec lz4) are parameters of the model and are not verified (their dec∘enc = id and Reset contracts are sampled by the correspondence); sync.Pool is modelled as 'may return any previously Put object or none'; an unframed raw snappy block whose first 8 bytes equal the xerial magic is indistinguishable from a framed stream by design of the format (needs a block of ≥ 2^… bytes whose uvarint length starts 0x82 0x53 …: length ≡ 0x…2982, excluded as hypothesis and not generated).",
}

MODULE = "KafkaVerif.Props.C16"


def run(ctx):
    ctx.assumptions += [
        "block codec: dec (enc b) = some b and decodedLen (enc b) = some |b| (snappy blocks; sampled against golang/snappy)",
        "blocks shorter than 2^32 bytes",
        "unframed input does not start with the 8 magic bytes of the xerial header",
        "gzip/lz4/zstd: library Reset restores the initial state (sampled: history-independence cases)",
        "payloads are non-empty (as the property states)",
    ]
    broken = []
    ok, log = ctx.extract("records", ["lean/KafkaVerif/Gen/RecordConsts.lean"])
    if not ok:
        broken.append({"kind": "obligation", "name": "translator go/extract records", "detail": log[-1500:]})
    ok, log = ctx.extract("poolkeys", ["lean/KafkaVerif/Gen/CodecPools.lean"])
    if not ok:
        broken.append({"kind": "obligation", "name": "translator go/extract poolkeys", "detail": log[-1500:]})
    ok, log = ctx.extract("closeorder", ["lean/KafkaVerif/Gen/CodecClose.lean"])
    if not ok:
        broken.append({"kind": "obligation", "name": "translator go/extract closeorder", "detail": log[-1500:]})
    ok, log = ctx.extract("xerialfacts", ["lean/KafkaVerif/Gen/XerialFacts.lean"])
    if not ok:
        broken.append({"kind": "obligation", "name": "translator go/extract xerialfacts", "detail": log[-1500:]})
    ok, log = ctx.extract("resetfields", ["lean/KafkaVerif/Gen/XerialReset.lean"])
    if not ok:
        broken.append({"kind": "obligation", "name": "translator go/extract resetfields", "detail": log[-1500:]})
    res = ctx.prove(MODULE)
    if not res["ok"]:
        broken.append({"kind": "obligation", "theorems": res["failed"], "detail": res["reasons"][:10]})
    dis = []
    orc, olog = ctx.oracle_build("oracle_c16")
    race = ctx.tier == "thorough"
    drv, dlog = ctx.go_build("./cmd/c16", "c16", race=race)
    if drv is None and race:
        ctx.notes.append("-race build unavailable, falling back: " + dlog[-300:])
        drv, dlog = ctx.go_build("./cmd/c16", "c16")
    if orc is None or drv is None:
        broken.append({"kind": "obligation", "name": "correspondence C16 could not be built", "detail": (olog + dlog)[-1500:]})
    else:
        lines, rc, err = ctx.run_driver(drv, [])
        if rc != 0:
            broken.append({"kind": "obligation", "name": "driver c16 crashed" + (" (or the race detector fired)" if race else ""), "detail": err[-1500:]})
        dis = ctx.correspond(lines, orc, "compress/* codecs ↔ Model/Xerial + Spec/Xerial + reference libraries")
        if not race:
            # bounded stress under the race detector also in the quick tier (pool hand-over between goroutines)
            rdrv, rlog = ctx.go_build("./cmd/c16", "c16race", race=True)
            if rdrv is None:
                ctx.notes.append("-race build unavailable for the quick stress: " + rlog[-200:])
            else:
                rlines, rrc, rerr = ctx.run_driver(rdrv, ["stress"], timeout=240, env={"GORACE": "halt_on_error=0"})
                dis += ctx.correspond(rlines, orc, "pooled codec objects under concurrent open/close (-race)")
                if rrc != 0 and not [d for d in dis if d.get("kind") == "disagreement"]:
                    broken.append({"kind": "obligation", "name": "race detector fired / stress driver crashed", "detail": rerr[-1500:]})
        ctx.coverage["race_detector"] = bool(race)
    ctx.coverage["rule"] = ("payloads: incompressible / highly compressible / text-like (containing the xerial magic), sizes 1,2,5,15,16,17,20,100,1023,1024,4096,31743..31745,32767..32769,65535..65537,100000,200000; "
                            "Write splits: whole, 1..7 bytes, around 1 KiB/31 KiB/32 KiB, random up to 70 000, 4096; Read buffers 1..3, 512, random, 100 000, {1,16,4096,32768,32769}; underlying reader delivers in pieces; "
                            "10 codec values (fresh and the global compress.Codecs entries; snappy framed, unframed, faster); history: 7 disturbance kinds (incl. double Close of writer and reader, and the library's own v1/v2 record-set encoder+decoder) × 10 codecs, each followed by 3 OVERLAPPING writers then 3 overlapping readers (all opened before use) checked with the reference decoders, and by the sequential byte-identity check; concurrency: 16 goroutines × 8 streams per codec; sources deliver short reads, occasional (0,nil) (not for zstd: third-party decoder quirk), final bytes together with io.EOF; srcerr/wrerr: source / sink failing after k bytes; cfg: 18 configurations of the 4 kinds interleaved, each vs its own pristine output from a fresh process; xwf: io.Copy into the writer from scripted sources; stress: 24–48 goroutines in tight open/close loops with 4 readers each, also under -race in the quick tier")
    concrete = [d for d in dis if d.get("kind") == "disagreement"]
    others = [d for d in dis if d not in concrete]
    recorded = 0
    for d in concrete[:50]:
        op = d["op"]
        short = " ".join(x for x in op.split(" ") if len(x) < 200)
        recorded += ctx.violation({"kind": "input", "input": op[:100000], "actual": d["impl"], "expected": d["model"],
                                   "correspondence": d["correspondence"],
                                   "monitor": "model / reference value vs implementation (holds=%s)" % d["holds_on_impl"]},
                                  True, signature="%s => %s" % (short[:300], d["impl"][:200]))
    if (broken or others) and recorded == 0:
        ctx.violation({"kind": "obligation", "broken": broken, "disagreements": others[:20],
                       "note": "a proof obligation or the correspondence no longer checks; the search over %d generated cases found no input on which the property monitor fails" % ctx.coverage["evaluations"]},
                      False, signature="obligation " + str(broken)[:300])
    elif broken:
        for b in broken:
            ctx.notes.append("also broken: " + str(b)[:500])
