"""Helpers shared by checks/c04.py and checks/c20.py (reflection codec of /repo/protocol)."""
import os, re, subprocess


def extract_all(ctx, broken):
    ok, log = ctx.extract("schemas", ["lean/KafkaVerif/Gen/Schemas.lean", "go/internal/msgs/msgs_gen.go"])
    if not ok:
        broken.append({"kind": "obligation", "name": "translator go/extract schemas", "detail": log[-1500:]})
    ok2, log2 = ctx.extract("decodercfg", ["lean/KafkaVerif/Gen/DecoderCfg.lean"])
    if not ok2:
        broken.append({"kind": "obligation", "name": "translator go/extract decodercfg", "detail": log2[-1500:]})
    return ok and ok2


def oracle_lines(ctx, oracle, reqs):
    outs, rc, err = ctx.run_oracle(oracle, reqs)
    if rc != 0 or len(outs) != len(reqs):
        return None, "rc=%s answered %d of %d: %s" % (rc, len(outs), len(reqs), err[-500:])
    return outs, ""


def spec_frames(ctx, oracle, driver_lines):
    """second direction of the byte correspondence: ask the oracle for the REFERENCE frame (Spec encoder over the
    golden / tree schema) of every generated value; returns list of (i, ver, hex, audited)"""
    specs = [l for l in driver_lines if l.startswith("spec ")]
    reqs = ["%s => -" % l.split("\t", 1)[0] for l in specs]
    outs, err = oracle_lines(ctx, oracle, reqs)
    if outs is None:
        return None, err
    frames = []
    for l, o in zip(specs, outs):
        m = re.match(r"model=([AU])([0-9a-f]*) holds=1$", o)
        if not m:
            return None, "oracle answer to spec request: " + o[:200]
        p = l.split(" ", 3)
        frames.append((p[1], p[2], m.group(2), m.group(1) == "A"))
    return frames, ""


def write_cases(path, cases):
    with open(path, "w") as f:
        for c in cases:
            f.write("%s %s %s\n" % (c[0], c[1], c[2] or "-"))
