"""Helpers shared by checks/c04.py and checks/c20.py (reflection codec of /repo/protocol)."""
import os, re, subprocess


def extract_all(ctx, broken):
    ok, log = ctx.extract("schemas", ["lean/KafkaVerif/Gen/Schemas.lean", "go/internal/msgs/msgs_gen.go"])
    if not ok:
        broken.append({"kind": "obligation", "name": "translator go/extract schemas", "detail": log[-1500:]})
    ok2, log2 = ctx.extract("decodercfg", ["lean/KafkaVerif/Gen/DecoderCfg.lean"])
    if not ok2:
        broken.append({"kind": "obligation", "name": "translator go/extract decodercfg", "detail": log2[-1500:]})
    ok3, log3 = ctx.extract("recordcfg", ["lean/KafkaVerif/Gen/RecordCfg.lean"])
    if not ok3:
        broken.append({"kind": "obligation", "name": "translator go/extract recordcfg", "detail": log3[-1500:]})
    return ok and ok2 and ok3


def oracle_lines(ctx, oracle, reqs):
    outs, rc, err = ctx.run_oracle(oracle, reqs)
    if rc != 0 or len(outs) != len(reqs):
        return None, "rc=%s answered %d of %d: %s" % (rc, len(outs), len(reqs), err[-500:])
    return outs, ""


def spec_frames(ctx, oracle, driver_lines):
    """second direction of the byte correspondence: ask the oracle for the REFERENCE frame (Spec encoder over the
    golden / tree schema) of every generated value; returns list of (i, ver, hex, audited)"""
    specs = [l for l in driver_lines if l.startswith("spec ")]
    reqs = ["%s => -" % l.split("\t", 1)[0] for l in specs]
    outs, err = oracle_lines(ctx, oracle, reqs)
    if outs is None:
        return None, err
    frames = []
    for l, o in zip(specs, outs):
        m = re.match(r"model=([AU])([0-9a-f]*) holds=1$", o)
        if not m:
            return None, "oracle answer to spec request: " + o[:200]
        p = l.split(" ", 3)
        frames.append((p[1], p[2], m.group(2), m.group(1) == "A"))
    return frames, ""


def unknown_tag_frames(ctx, oracle, driver_lines, limit=1500):
    """flexible versions only: the reference frame of the generated values WITH unknown tagged fields in the header tag buffer and
    in the tag buffer of every struct (oracle op specx); returns list of (i, ver, hex, audited)"""
    specs = [l for l in driver_lines if l.startswith("spec ") and len(l) < 4000][:limit * 4]
    reqs = ["specx %s => -" % l.split("\t", 1)[0][5:] for l in specs]
    outs, err = oracle_lines(ctx, oracle, reqs)
    if outs is None:
        return None, err
    frames = []
    for l, o in zip(specs, outs):
        m = re.match(r"model=([AU])([0-9a-f]*) holds=1$", o)
        if not m:
            return None, "oracle answer to specx request: " + o[:200]
        if m.group(2):
            p = l.split(" ", 3)
            frames.append((p[1], p[2], m.group(2), m.group(1) == "A"))
    return frames[:limit], ""


def write_cases(path, cases):
    with open(path, "w") as f:
        for c in cases:
            f.write("%s %s %s\n" % (c[0], c[1], c[2] or "-"))


# ---------------------------------------------------------------------------------------------------------
# C20: deterministic mutation of every length / count field (positions from the oracle's `lens` op)

import struct, zlib

_CRC32C_TABLE = []
for _i in range(256):
    _c = _i
    for _ in range(8):
        _c = (_c >> 1) ^ 0x82F63B78 if _c & 1 else _c >> 1
    _CRC32C_TABLE.append(_c)


def crc32c(data):
    c = 0xFFFFFFFF
    for b in data:
        c = _CRC32C_TABLE[(c ^ b) & 0xFF] ^ (c >> 8)
    return c ^ 0xFFFFFFFF


def enc_uv(n):
    n &= (1 << 64) - 1
    out = bytearray()
    while n >= 0x80:
        out.append((n & 0x7F) | 0x80); n >>= 7
    out.append(n)
    return bytes(out)


def enc_zv(i):
    return enc_uv(((i << 1) ^ (i >> 63)) & ((1 << 64) - 1))


def dec_uv(b):
    v, s = 0, 0
    for x in b:
        v |= (x & 0x7F) << s; s += 7
        if not x & 0x80: break
    return v


OVERLONG = b"\xff" * 11


def parse_fields(text):
    """`off:kind:width:encl:crc,…` → list of dicts"""
    out = []
    if text in ("-", ""):
        return out
    for item in text.split(","):
        off, kind, width, encl, crc = item.split(":")
        f = {"off": int(off), "kind": kind, "width": int(width),
             "encl": [] if encl == "-" else [int(x) for x in encl.split("+")], "crc": None}
        if crc != "-":
            k, o, a, b = crc.split("/")
            f["crc"] = (k, int(o), int(a), int(b))
        out.append(f)
    return out


def _replace(frame, f, new, fix_crc):
    off, w = f["off"], f["width"]
    b = bytearray(frame[:off] + new + frame[off + w:])
    delta = len(new) - w
    if delta:
        for e in f["encl"]:
            (v,) = struct.unpack(">i", b[e:e + 4])
            b[e:e + 4] = struct.pack(">i", max(-2 ** 31, min(2 ** 31 - 1, v + delta)))
    if fix_crc and f["crc"]:
        k, o, a, e = f["crc"]
        e += delta
        data = bytes(b[a:e])
        c = crc32c(data) if k == "c" else (zlib.crc32(data) & 0xFFFFFFFF)
        b[o:o + 4] = struct.pack(">I", c)
    return bytes(b)


def _inner(frame, f):
    """lengths that overrun the innermost enclosing unit (message / batch / record set) but not the outer ones:
    inner rest + 1, + 8, + 38 (spills into the following message)"""
    out = []
    for e in f["encl"][1:]:
        (v,) = struct.unpack(">i", frame[e:e + 4])
        inner_rest = e + 4 + v - (f["off"] + f["width"])
        if inner_rest >= 0:
            out += [inner_rest + 1, inner_rest + 8, inner_rest + 38, inner_rest]
    return out


def field_mutations(frame, f, thorough=False):
    """all mutants of one field: list of bytes"""
    off, w, kind = f["off"], f["width"], f["kind"]
    rest = len(frame) - (off + w)
    outs = []
    if kind in ("i32", "i16"):
        bits = 32 if kind == "i32" else 16
        fmt = ">i" if kind == "i32" else ">h"
        (orig,) = struct.unpack(fmt, frame[off:off + w])
        lo, hi = -2 ** (bits - 1), 2 ** (bits - 1) - 1
        vals = [-1, -2, lo, hi, 0, orig + 1, orig - 1, rest + 1, rest, 255, 0x10000 if bits == 32 else 256, 0x1000000 if bits == 32 else 0x1000]
        vals += _inner(frame, f)
        if thorough:
            vals += [-3, lo + 1, hi - 1, rest - 1, 2 * orig + 1, 0x7fff0001 if bits == 32 else 0x7f01]
        news = []
        for v in vals:
            if v == orig or v < lo or v > hi: continue
            nb = struct.pack(fmt, v)
            if nb not in news: news.append(nb)
    else:
        raw = frame[off:off + w]
        u = dec_uv(raw)
        if kind == "uv":
            orig = u
            vals = [0, 1, 2, orig + 1, max(orig - 1, 0), rest + 2, rest + 1, 2 ** 31, 2 ** 31 + 1, 2 ** 32, 2 ** 63, 2 ** 64 - 1, 300]
            # values whose LOW 32 bits are small / equal to the original: a 32-bit truncation anywhere between the
            # bounds check and the allocation must not let them through
            vals += [2 ** 32 + k for k in range(1, 9)] + [2 ** 33 + k for k in range(0, 4)] + [2 ** 63 + k for k in range(1, 4)]
            vals += [2 ** 32 + orig, 2 ** 32 + orig + 1, 2 ** 40 + orig, 2 ** 48 + 1]
            enc = enc_uv
        else:
            orig = (u >> 1) ^ -(u & 1)
            vals = [-1, -2, 0, orig + 1, orig - 1, rest + 1, rest, 2 ** 31 - 1, 2 ** 31, 2 ** 62, -2 ** 63, 2 ** 63 - 1, 300, -300]
            vals += [2 ** 32 + k for k in range(0, 4)] + [2 ** 32 + orig, 2 ** 33 + 1, -2 ** 32 - 1, -2 ** 32 + orig]
            vals += _inner(frame, f)
            enc = enc_zv
        news = []
        for v in vals:
            if v == orig: continue
            nb = enc(v)
            if nb not in news: news.append(nb)
        news.append(OVERLONG)
    for nb in news:
        outs.append(_replace(frame, f, nb, False))
        if f["crc"]:
            outs.append(_replace(frame, f, nb, True))
    return outs


def v1_to_v0(frame, fields):
    """rewrite the magic-1 message sets of a frame as magic-0 ones (no timestamp): returns new frame or None.
    Only the simple case is handled: every record-set field whose messages are all v1."""
    b = bytearray(frame)
    # message size fields are the i32 fields without crc whose encl has two entries [0, rsSizeOff]
    msgs_ = [f for f in fields if f["kind"] == "i32" and f["crc"] is None and len(f["encl"]) == 2]
    if not msgs_:
        return None
    for f in sorted(msgs_, key=lambda x: -x["off"]):          # from the back so that offsets stay valid
        so = f["off"]                                          # size field; message: crc(4) magic(1) attr(1) ts(8) …
        if so + 4 + 6 + 8 > len(b) or b[so + 8] != 1:
            return None
        (size,) = struct.unpack(">i", b[so:so + 4])
        body = bytearray(b[so + 8:so + 4 + size])             # magic … end
        body[0] = 0
        del body[2:10]                                         # drop the timestamp
        crc = zlib.crc32(bytes(body)) & 0xFFFFFFFF
        new = struct.pack(">i", 4 + len(body)) + struct.pack(">I", crc) + bytes(body)
        b[so:so + 4 + size] = new
        for e in f["encl"]:
            (v,) = struct.unpack(">i", b[e:e + 4])
            b[e:e + 4] = struct.pack(">i", v - 8)
    return bytes(b)


def _add32(b, off, delta):
    (v,) = struct.unpack(">i", b[off:off + 4])
    b[off:off + 4] = struct.pack(">i", v + delta)


def record_set_tails(frame, fields):
    """honest frames whose record set announces more bytes than its batches consume: a stump (< 17 bytes, what a
    broker leaves when it cuts the set at MaxBytes) or a further batch with an unknown magic byte after the last
    batch; frame size and record-set size stay consistent.  Returns list of (label, bytes)."""
    out = []
    sets = [f for f in fields if f["kind"] == "i32" and f["crc"] is None and f["encl"] == [0] and
            any(g["encl"][:2] == [0, f["off"]] for g in fields)]
    for rs in sets:
        (size,) = struct.unpack(">i", frame[rs["off"]:rs["off"] + 4])
        end = rs["off"] + 4 + size
        tails = [("stump1", b"\x00"), ("stump5", b"\x00\x00\x00\x00\x07"), ("stump16", bytes(range(1, 17))),
                 ("magic9", b"\x00" * 8 + struct.pack(">i", 9) + b"\x00" * 4 + b"\x09" + b"\x00" * 4),
                 ("magic9-long", b"\x00" * 8 + struct.pack(">i", 40) + b"\x00" * 4 + b"\x09" + b"\x00" * 35)]
        for label, t in tails:
            b = bytearray(frame[:end] + t + frame[end:])
            _add32(b, rs["off"], len(t))
            _add32(b, 0, len(t))
            out.append((label, bytes(b)))
    return out


def frame_ends_after(frame, fields):
    """the frame-size prefix is set so that the frame ends exactly after a length field's prefix (the announced
    content of that field then lies beyond the frame): one mutant per length field"""
    out = []
    for f in fields:
        if f["off"] < 8:
            continue
        end = f["off"] + f["width"]
        b = bytearray(frame[:end])
        b[0:4] = struct.pack(">i", end - 4)
        out.append(bytes(b))
        # same prefix, but the announced content still follows on the stream (it then belongs to no frame)
        b2 = bytearray(frame)
        b2[0:4] = struct.pack(">i", end - 4)
        out.append(bytes(b2))
    return out


def tag_marker_recursion(frame, fields):
    """flexible frames: the LAST tag-buffer count (0) replaced by one tagged field with id 2^64-1 (= -1 as Go int,
    the id under which decode.go files the `_ struct{}` marker) holding an empty nested tag buffer"""
    uv = [f for f in fields if f["kind"] == "uv" and frame[f["off"]:f["off"] + f["width"]] == b"\x00"]
    out = []
    for f in uv[-2:]:
        for nested in (b"\x00", b"\x01" + b"\xff" * 9 + b"\x01" + b"\x00" + b"\x00", b"\xff" * 9 + b"\x01"):
            new = b"\x01" + b"\xff" * 9 + b"\x01" + enc_uv(len(nested)) + nested
            out.append(_replace(frame, f, new, False))
    return out


def schema_names(root=None):
    """message index (position in Gen.schemas / msgs.All) -> 'pkg_Root', read from the regenerated Gen/Schemas.lean"""
    import re as _re
    root = root or os.path.dirname(os.path.dirname(os.path.abspath(__file__)))
    txt = open(os.path.join(root, "lean", "KafkaVerif", "Gen", "Schemas.lean")).read()
    m = _re.search(r"def schemas : List RawMsg := \[(.*?)\]", txt, _re.S)
    return [x.strip()[2:] for x in m.group(1).split(",") if x.strip().startswith("m_")] if m else []
