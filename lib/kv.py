"""Shared machinery for the /verif checks (see DESIGN.md §2).

A check is `checks/<cid>.py` with a `META` dict (goes into MANIFEST.json) and `run(ctx)`.
`ctx` offers: regenerate Gen/*.lean, build + audit Lean theorems, build the Go harness against
/repo's working tree with `-tags verif`, run driver ↔ oracle correspondence, report, write evidence.
"""
import fcntl, hashlib, json, os, re, subprocess, sys, time, shutil

ROOT = os.path.dirname(os.path.dirname(os.path.abspath(__file__)))
LEAN = os.path.join(ROOT, "lean")
GO = os.path.join(ROOT, "go")
BUILD = os.path.join(ROOT, ".build")
REPO = os.environ.get("VERIF_REPO", "/repo")
ALLOWED_AXIOMS = {"propext", "Classical.choice", "Quot.sound"}
FORBIDDEN = re.compile(r"\bsorry\b|\badmit\b|^\s*axiom\s|native_decide|bv_decide|implemented_by|\bunsafe\s|maxHeartbeats\s+0")

GOENV = dict(os.environ, GOFLAGS="-mod=mod", GOPROXY="off", GOSUMDB="off", GOTOOLCHAIN="local",
             CGO_ENABLED=os.environ.get("CGO_ENABLED", "0"))


def sh(cmd, cwd=None, env=None, timeout=None, input=None):
    p = subprocess.run(cmd, cwd=cwd, env=env, timeout=timeout, input=input, capture_output=True, text=True,
                       shell=isinstance(cmd, str))
    return p.returncode, p.stdout, p.stderr


class Lock:
    def __init__(self, name):
        os.makedirs(BUILD, exist_ok=True)
        self.path = os.path.join(BUILD, name + ".lock")
    def __enter__(self):
        self.f = open(self.path, "w")
        fcntl.flock(self.f, fcntl.LOCK_EX)
    def __exit__(self, *a):
        fcntl.flock(self.f, fcntl.LOCK_UN)
        self.f.close()


def strip_comments(src):
    """remove Lean block comments (nested) and line comments"""
    out, i, depth = [], 0, 0
    while i < len(src):
        if src.startswith("/-", i):
            depth += 1; i += 2; continue
        if depth and src.startswith("-/", i):
            depth -= 1; i += 2; continue
        if depth:
            if src[i] == "\n": out.append("\n")
            i += 1; continue
        if src.startswith("--", i):
            j = src.find("\n", i)
            i = len(src) if j < 0 else j
            continue
        out.append(src[i]); i += 1
    return "".join(out)


# Every generated Lean module → (translator, its outputs).  `prove` / `oracle_build` regenerate, from the tree under
# test, EVERY Gen module in the import closure of what they build that this run has not regenerated yet — so a property
# module that (transitively) imports another property's generated facts is never checked against a stale file left by an
# earlier run (possibly of a different tree).  Gen/LockFacts.lean is written by C10's own pipeline (oracle_c10 lockfacts).
_G = "lean/KafkaVerif/Gen/"
GEN_EXTRACTORS = {
    "Accesses": ("accesses", [_G + "Accesses.lean", _G + "Skeletons.lean", ".build/c10/accesses.json"]),
    "Skeletons": ("accesses", [_G + "Accesses.lean", _G + "Skeletons.lean", ".build/c10/accesses.json"]),
    "BalancerConsts": ("balancer", [_G + "BalancerConsts.lean"]),
    "CloseFacts": ("closeproto", [_G + "CloseFacts.lean"]),
    "CodecClose": ("closeorder", [_G + "CodecClose.lean"]),
    "CodecPools": ("poolkeys", [_G + "CodecPools.lean"]),
    "ConnLegacy": ("connlegacy", [_G + "ConnLegacy.lean"]),
    "DecoderCfg": ("decodercfg", [_G + "DecoderCfg.lean"]),
    "DecoderFacts": ("decoder", [_G + "DecoderFacts.lean"]),
    "GroupBalancerSel": ("groupbalancer", [_G + "GroupBalancerSel.lean"]),
    "GroupFacts": ("group", [_G + "GroupFacts.lean"]),
    "Legacy": ("legacy", [_G + "Legacy.lean", _G + "LegacyGolden.lean"]),
    "LegacyGolden": ("legacy", [_G + "Legacy.lean", _G + "LegacyGolden.lean"]),
    "Mappings": ("mappings", [_G + "Mappings.lean"]),
    "MuxFacts": ("muxfacts", [_G + "MuxFacts.lean"]),
    "Offsets": ("offsets", [_G + "Offsets.lean"]),
    "RecordCfg": ("recordcfg", [_G + "RecordCfg.lean"]),
    "RecordConsts": ("records", [_G + "RecordConsts.lean"]),
    "RecordLayout": ("recordlayout", [_G + "RecordLayout.lean"]),
    "Routing": ("routing", [_G + "Routing.lean"]),
    "SaslPlainFmt": ("saslplain", [_G + "SaslPlainFmt.lean"]),
    "Schemas": ("schemas", [_G + "Schemas.lean", "go/internal/msgs/msgs_gen.go"]),
    "SizeFns": ("sizefns", [_G + "SizeFns.lean"]),
    "WriterConsts": ("writer", [_G + "WriterConsts.lean"]),
    "XerialFacts": ("xerialfacts", [_G + "XerialFacts.lean"]),
    "XerialReset": ("resetfields", [_G + "XerialReset.lean"]),
}


class Ctx:
    def __init__(self, prop, tier, seed, replay=None):
        self.prop, self.tier, self.seed, self.replay = prop, tier, seed, replay
        self.t0 = time.time()
        self.violations = []          # list of dicts
        self.known_hits = []
        self.coverage = {"obligations": 0, "discharged": 0, "checker_cmd": "", "trusted_base": [],
                         "evaluations": 0, "distinct_nontrivial": 0, "rule": "", "samples": []}
        self.assumptions = []
        self.level = "proof"
        self.notes = []
        os.makedirs(BUILD, exist_ok=True)
        os.makedirs(os.path.join(ROOT, "replays"), exist_ok=True)
        os.makedirs(os.path.join(ROOT, "evidence"), exist_ok=True)
        kf = os.path.join(ROOT, "known_findings.json")
        self.known = json.load(open(kf)) if os.path.exists(kf) else {"findings": []}

    # ---------------------------------------------------------------- pipeline lock
    # Several checks may run at once in one /verif (C01/C07/C08 share Gen/WriterConsts.lean, every Props module shares
    # .lake).  Regenerating a Gen file (stale outputs are deleted first) while ANOTHER check's `lake build` reads it breaks
    # that build.  So the whole Lean pipeline of a check — extract → lake build → axiom audit → oracle build — runs under
    # one inter-process lock, taken at the first of those steps and released when the driver phase starts (or at finish).
    def _pipe_acquire(self):
        if getattr(self, "_pipe", None) is None:
            f = open(os.path.join(BUILD, "pipeline.lock"), "w")
            fcntl.flock(f, fcntl.LOCK_EX)
            self._pipe = f

    def _pipe_release(self):
        f = getattr(self, "_pipe", None)
        if f is not None:
            fcntl.flock(f, fcntl.LOCK_UN); f.close(); self._pipe = None

    # ---------------------------------------------------------------- logging
    def log(self, *a):
        print("[%s %6.1fs]" % (self.prop, time.time() - self.t0), *a, flush=True)

    # ---------------------------------------------------------------- extraction (Go → Lean)
    def extract(self, what, outputs):
        """run the translator `go run ./extract <what>` on /repo's working tree; stale outputs are
        removed first.  Returns (ok, log)."""
        self._pipe_acquire()
        with Lock("extract"):
            for o in outputs:
                try: os.remove(os.path.join(ROOT, o))
                except FileNotFoundError: pass
            # every extractor is its own package (go/extract/<what>/) so that one cannot break another
            rc, so, se = sh(["go", "run", "./extract/" + what, what, os.path.realpath(REPO), ROOT], cwd=GO, env=GOENV, timeout=600)
        if rc != 0:
            self.log("extract %s failed:\n%s%s" % (what, so, se))
        if not hasattr(self, "_extracted"): self._extracted = {}
        self._extracted[what] = (rc == 0)
        return rc == 0, so + se

    def gen_imports(self, module):
        """names of the Gen modules in the import closure of `module` (whether or not the files exist right now)"""
        seen, todo, gens = set(), [module], set()
        while todo:
            m = todo.pop()
            if m in seen: continue
            seen.add(m)
            if m.startswith("KafkaVerif.Gen."):
                gens.add(m.split(".")[-1])
            rp = os.path.join(LEAN, m.replace(".", "/") + ".lean")
            if not os.path.exists(rp): continue
            for imp in re.findall(r"^import\s+(\S+)", open(rp).read(), re.M):
                if imp.startswith("KafkaVerif.") or imp.startswith("Oracle."):
                    todo.append(imp)
        return gens

    def ensure_generated(self, module):
        """regenerate from the tree under test every Gen module `module` imports and this run has not regenerated;
        returns [(translator, log)] for the translators that failed (now or earlier in this run)"""
        done = getattr(self, "_extracted", {})
        bad = []
        for g in sorted(self.gen_imports(module)):
            ent = GEN_EXTRACTORS.get(g)
            if ent is None: continue
            what, outs = ent
            if what not in done:
                ok, log = self.extract(what, outs)
                done = self._extracted
                if not ok: bad.append((what, log[-800:]))
            elif not done[what] and what not in [b[0] for b in bad]:
                bad.append((what, "translator failed earlier in this run"))
        self.coverage.setdefault("regenerated", sorted(k for k, v in getattr(self, "_extracted", {}).items() if v))
        self.coverage["regenerated"] = sorted(k for k, v in getattr(self, "_extracted", {}).items() if v)
        return bad

    # ---------------------------------------------------------------- Lean
    def lean_build(self, targets, timeout=1500):
        self._pipe_acquire()
        with Lock("lake"):
            rc, so, se = sh(["lake", "build"] + list(targets), cwd=LEAN, timeout=timeout)
        return rc == 0, so + se

    def theorems_of(self, relpath):
        src = strip_comments(open(os.path.join(LEAN, relpath)).read())
        ns = re.findall(r"^namespace\s+(\S+)", src, re.M)
        prefix = ns[0] + "." if ns else ""
        names = []
        for m in re.finditer(r"^(?:@\[[^\]]*\]\s*)?(?:private\s+|protected\s+)?theorem\s+([^\s:({\[]+)", src, re.M):
            names.append((prefix + m.group(1), src.count("\n", 0, m.start()) + 1))
        return names

    def forbidden_scan(self, relpaths):
        hits = []
        for rp in relpaths:
            src = strip_comments(open(os.path.join(LEAN, rp)).read())
            for n, line in enumerate(src.split("\n"), 1):
                if FORBIDDEN.search(line):
                    hits.append("%s:%d: %s" % (rp, n, line.strip()))
        return hits

    def lean_closure(self, module):
        """project-local modules imported (transitively) by `module` → list of relative paths"""
        seen, todo = [], [module]
        while todo:
            m = todo.pop()
            rp = m.replace(".", "/") + ".lean"
            if rp in seen or not os.path.exists(os.path.join(LEAN, rp)):
                continue
            seen.append(rp)
            for imp in re.findall(r"^import\s+(\S+)", open(os.path.join(LEAN, rp)).read(), re.M):
                if imp.startswith("KafkaVerif.") or imp.startswith("Oracle."):
                    todo.append(imp)
        return seen

    def axiom_audit(self, module, names):
        """#print axioms for every theorem name; returns {name: [axioms]} (None if lookup failed)"""
        path = os.path.join(BUILD, "audit_%s.lean" % self.prop)
        with open(path, "w") as f:
            f.write("import %s\n" % module)
            for n in names:
                f.write("#print axioms %s\n" % n)
        rc, so, se = sh(["lake", "env", "lean", path], cwd=LEAN, timeout=600)
        res, text = {}, so + se
        for n in names:
            m = re.search(r"'%s' depends on axioms: \[([^\]]*)\]" % re.escape(n), text)
            if m:
                res[n] = [a.strip() for a in m.group(1).replace("\n", " ").split(",") if a.strip()]
            elif re.search(r"'%s' does not depend on any axioms" % re.escape(n), text):
                res[n] = []
            else:
                res[n] = None
        return res

    def prove(self, module, lemma_modules=(), thorough_leanchecker=True):
        """Build `module` (Props/Cxx), audit it.  Returns dict with obligations/discharged/failed."""
        relp = module.replace(".", "/") + ".lean"
        thms = self.theorems_of(relp)
        gen_bad = self.ensure_generated(module)
        closure = self.lean_closure(module)
        ok, log = self.lean_build([module])
        failed, reasons = [], []
        if gen_bad:
            failed = [n for n, _ in thms]
            reasons = ["translator %s failed on the tree under test (its Gen module is imported by %s): %s" % (w, module, l) for w, l in gen_bad]
        if not ok:
            errs = re.findall(r"error: (\S+?\.lean):(\d+):(\d+): (.*)", log)
            own = [(int(l), msg) for (f, l, c, msg) in errs if f.endswith(relp)]
            other = [(f, l, msg) for (f, l, c, msg) in errs if not f.endswith(relp)]
            if other or not own:
                failed = [n for n, _ in thms]          # a dependency broke: nothing of this file is checked
                reasons = ["%s:%s: %s" % o for o in other] or [log[-2000:]]
            else:
                lines = [l for _, l in thms] + [10 ** 9]
                for (l, msg) in own:
                    for i, (n, tl) in enumerate(thms):
                        if tl <= l < lines[i + 1] and n not in failed:
                            failed.append(n)
                    reasons.append("%s:%d: %s" % (relp, l, msg))
                # when the file does not compile no .olean exists: the others are unchecked as a unit
                # but we name only the ones whose proofs are broken
        axioms = {}
        if ok:
            axioms = self.axiom_audit(module, [n for n, _ in thms])
            for n, ax in axioms.items():
                if ax is None:
                    failed.append(n); reasons.append("axiom audit could not resolve " + n)
                elif not set(ax) <= ALLOWED_AXIOMS:
                    failed.append(n); reasons.append("%s uses axioms %s" % (n, ax))
        forb = self.forbidden_scan(closure)
        if forb:
            reasons += ["forbidden construct: " + h for h in forb]
            failed = failed or [n for n, _ in thms]
        lc = None
        if ok and self.tier == "thorough" and thorough_leanchecker:
            rc, so, se = sh(["lake", "env", "leanchecker", module], cwd=LEAN, timeout=1500)
            lc = (rc == 0)
            if rc != 0:
                failed = [n for n, _ in thms]; reasons.append("leanchecker: " + (so + se)[-500:])
        used = sorted({a for ax in axioms.values() if ax for a in ax})
        self.coverage["obligations"] += len(thms)
        self.coverage["discharged"] += len(thms) - len(set(failed)) if ok else 0
        self.coverage["checker_cmd"] = "cd /verif/lean && lake build %s && lake env lean <#print axioms of each theorem>%s" % (
            module, " && lake env leanchecker " + module if lc is not None else "")
        self.coverage["trusted_base"] = ["Lean 4.33.0 kernel", "axioms used: " + (", ".join(used) if used else "none")]
        self.coverage["theorems"] = [n for n, _ in thms]
        self.coverage["lean_modules"] = closure
        if lc is not None:
            self.coverage["leanchecker_ok"] = lc
        return {"ok": ok and not failed, "failed": sorted(set(failed)), "reasons": reasons, "theorems": [n for n, _ in thms]}

    # ---------------------------------------------------------------- Go harness
    def go_modfile_args(self):
        """harness go.mod replaces kafka-go with /repo; for VERIF_REPO=<other tree> use an alternate modfile"""
        if os.path.realpath(REPO) == "/repo":
            return []
        alt = os.path.join(BUILD, "alt-%s.mod" % hashlib.md5(REPO.encode()).hexdigest()[:8])
        src = open(os.path.join(GO, "go.mod")).read().replace("=> /repo", "=> " + os.path.realpath(REPO))
        # atomic (several checks may run against the same scratch tree in parallel)
        tmp = "%s.%d.tmp" % (alt, os.getpid())
        open(tmp, "w").write(src); os.replace(tmp, alt)
        tmp = "%s.%d.tmp" % (alt[:-4] + ".sum", os.getpid())
        shutil.copy(os.path.join(GO, "go.sum"), tmp); os.replace(tmp, alt[:-4] + ".sum")
        return ["-modfile=" + alt]

    def go_build(self, pkg, name, tags="verif", race=False):
        self._pipe_acquire()   # extractors may (re)generate Go sources too (go/internal/msgs/msgs_gen.go)
        out = os.path.join(BUILD, name)
        try: os.remove(out)
        except FileNotFoundError: pass
        env = dict(GOENV)
        cmd = ["go", "build"] + self.go_modfile_args() + ["-tags", tags, "-o", out]
        if race:
            env["CGO_ENABLED"] = "1"; cmd.append("-race")
        cmd.append(pkg)
        with Lock("gobuild"):
            rc, so, se = sh(cmd, cwd=GO, env=env, timeout=900)
        if rc != 0:
            self.log("go build failed:\n" + so + se)
            return None, so + se
        return out, ""

    def oracle_build(self, exe):
        m = re.search(r'name = "%s"\s*\nroot = "([\w.]+)"' % re.escape(exe), open(os.path.join(LEAN, "lakefile.toml")).read())
        if m:
            bad = self.ensure_generated(m.group(1))
            if bad:
                return None, "\n".join("translator %s failed: %s" % b for b in bad)
        ok, log = self.lean_build([exe])
        path = os.path.join(LEAN, ".lake", "build", "bin", exe)
        return (path if ok and os.path.exists(path) else None), log

    def run_oracle(self, exe_path, lines, timeout=900):
        data = "\n".join(lines) + "\n"
        p = subprocess.run([exe_path], input=data, capture_output=True, text=True, timeout=timeout)
        out = p.stdout.split("\n")
        if out and out[-1] == "": out.pop()
        return out, p.returncode, p.stderr

    def run_driver(self, bin_path, args, timeout=1800, env=None):
        self._pipe_release()
        e = dict(os.environ, VERIF_SEED=str(self.seed), VERIF_TIER=self.tier)
        if env: e.update(env)
        p = subprocess.run([bin_path] + list(args), capture_output=True, text=True, timeout=timeout, env=e)
        return p.stdout.split("\n"), p.returncode, p.stderr

    # ---------------------------------------------------------------- correspondence (kind F / B)
    def correspond(self, driver_lines, oracle_path, name, nontrivial=lambda op, impl: True, sample_n=6):
        """driver_lines: 'op args…<TAB>impl-output'.  The oracle gets 'op args… => impl-output' and answers
        'model=<out> holds=<0|1>'.  Returns list of disagreement dicts."""
        cases = [l for l in driver_lines if "\t" in l]
        reqs = ["%s => %s" % tuple(l.split("\t", 1)) for l in cases]
        outs, rc, err = self.run_oracle(oracle_path, reqs)
        dis = []
        if rc != 0 or len(outs) != len(reqs):
            dis.append({"kind": "oracle-failure", "detail": "rc=%s answered %d of %d: %s" % (rc, len(outs), len(reqs), err[-500:])})
            return dis
        distinct, ops = set(), {}
        for l, o in zip(cases, outs):
            op, impl = l.split("\t", 1)
            m = re.match(r"model=(.*) holds=([01])$", o)
            opname = op.split(" ", 1)[0]
            ops[opname] = ops.get(opname, 0) + 1
            if nontrivial(op, impl):
                distinct.add(hashlib.md5(op.encode()).digest()[:8])
            if not m:
                dis.append({"kind": "oracle-answer", "op": op, "impl": impl, "oracle": o}); continue
            model, holds = m.group(1), m.group(2) == "1"
            if model != impl or not holds:
                dis.append({"kind": "disagreement", "correspondence": name, "op": op, "impl": impl, "model": model, "holds_on_impl": holds})
        self.coverage["evaluations"] += len(cases)
        self.coverage["distinct_nontrivial"] += len(distinct)
        self.coverage.setdefault("ops", {})
        for k, v in ops.items():
            self.coverage["ops"][k] = self.coverage["ops"].get(k, 0) + v
        step = max(1, len(cases) // sample_n)
        self.coverage["samples"] += [{"op": c.split("\t")[0][:300], "impl": c.split("\t")[1][:300]} for c in cases[::step][:sample_n]]
        return dis

    # ---------------------------------------------------------------- findings
    def match_known(self, signature_text):
        for f in self.known.get("findings", []):
            if f.get("property") == self.prop and f.get("status") == "known" and re.search(f["signature"], signature_text):
                return f
        return None

    def violation(self, replay, failing_input_found=True, signature=None):
        """record a violation unless it matches a known finding"""
        sig = signature or json.dumps(replay, sort_keys=True)
        k = self.match_known(sig)
        if k:
            if k["id"] not in [h["id"] for h in self.known_hits]:
                self.known_hits.append(k)
            return False
        n = len(self.violations) + 1
        path = os.path.join(ROOT, "replays", "%s-%s-seed%d-%d.json" % (self.prop, self.tier, self.seed, n))
        replay = dict(replay, property=self.prop, seed=self.seed, tier=self.tier,
                      how_to_rerun="cd /verif && ./check %s --replay %s" % (self.prop, path))
        with open(path, "w") as f:
            json.dump(replay, f, indent=1)
        self.violations.append({"path": path, "found": failing_input_found, "input": replay.get("input")})
        return True

    def finish(self):
        self._pipe_release()
        for k in self.known_hits:
            print("KNOWN-FINDING: property=%s %s: %s" % (self.prop, k["id"], k["what"]), flush=True)
        cov = self.coverage
        if not cov["samples"]:
            cov["samples"] = [{"note": "no correspondence cases in this run"}]
        cov["known_findings_hit"] = [k["id"] for k in self.known_hits]
        cov["notes"] = self.notes
        ev = {"property_id": self.prop, "tier": self.tier, "seed": self.seed, "level": self.level,
              "coverage": cov, "assumptions": self.assumptions, "wall_s": round(time.time() - self.t0, 2),
              "violations": len(self.violations)}
        # evidence/ is only for runs against /repo itself; runs against a scratch tree (VERIF_REPO) go elsewhere
        evdir = os.path.join(ROOT, "evidence") if os.path.realpath(REPO) == "/repo" else os.path.join(BUILD, "evidence-scratch")
        os.makedirs(evdir, exist_ok=True)
        with open(os.path.join(evdir, self.prop + ".json"), "w") as f:
            json.dump(ev, f, indent=1)
        for v in self.violations[:5]:
            print("VIOLATION property=%s replay=%s%s" % (self.prop, v["path"], "" if v["found"] else " no-failing-input-found"), flush=True)
        self.log("done: obligations %d/%d, cases %d, violations %d, known %d" % (
            cov["discharged"], cov["obligations"], cov["evaluations"], len(self.violations), len(self.known_hits)))
        if self.replay:
            want = json.load(open(self.replay)).get("input")
            hit = [v for v in self.violations if want is not None and v.get("input") == want]
            print("REPLAY %s: %s" % (self.replay, "reproduced" if hit else ("not reproduced (input no longer fails)" if want is not None else "obligation replay: see violations above")), flush=True)
        return 1 if self.violations else 0
