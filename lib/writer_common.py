"""Shared run of the Writer checks C01 / C07 / C08 (one LTS, one driver, one oracle; see DESIGN.md §7
"C08, C07, C01, C09(Writer)").  Each check proves its own Props module and evaluates its own monitor on the
same kind of driver run (go/cmd/writer: real kafka.Writer + message-level fake RoundTripper + hook events)."""
import json, re

COMMON_ASSUMPTIONS = [
    "RequiredAcks != None (the driver uses RequireOne); with acks=None the Writer gets no acknowledgement at all",
    "each model event is atomic: the hook line sits inside the critical section it names (w.mutex, ptw.mutex, queue mutex); recorder order on one lock = lock order",
    "timers: B.TimerFire is an environment event enabled any time after the batch was created; real elapsed time is not proved (runtime)",
    "retry classification = constants extracted from error.go (Temporary() case list, isTransientNetworkError sentinels) + context.DeadlineExceeded.Temporary()=true",
    "Message.totalSize measure: 23 + len(key) + len(value) (+ header bytes), computed by the driver independently of the hook-reported sizes",
    "the fake RoundTripper is the broker: its decisions (Br.Produce applied/acked/lost/code) are environment events; leader moves are represented as temporary error codes (NotLeaderForPartition) followed by a retry",
    "D1/D1b fixed in /repo (no partition writer is created after Close): one partition writer per topic-partition for the Writer's life",
    "the broker decides on an attempt while the client still waits for it (`produce` is enabled only for an in-flight attempt): a request that a broker applies after its connection died and the client already retried elsewhere (possible in Kafka without idempotent producers) is outside the model; the wire broker drops such requests unhandled",
    "over the real Transport (wire scenarios) an answer the broker sent but the client did not read completely is recorded as lost (lost1 / lost0); an answer the client read completely (the broker's write on the net.Pipe returned) counts as delivered, whatever the client made of it",
    "an attempt error without a name of its own is reported by the hook as 'othertmp' when it declares itself Temporary() (e.g. the connection's i/o timeout racing the context deadline over the real Transport), else 'other'; the model retries after 'othertmp' as after the named temporary errors",
    "timed runs (family trickle): the clock is a logical one (a goroutine of the driver adds 500 µs per completed 500 µs sleep), so it slows down with the process under load; the timer goroutine of a batch is assumed to get to close the batch within 60 ms of that clock after BatchTimeout (`linger` = BatchTimeout + slack)",
    "message content: Key / Value are observed at the broker as null / empty / bytes (all attempts); their byte content beyond the id, and Time, are C05's",
]

def event_key(ev):
    """abstract an event to its kind + the arguments that select a model branch"""
    w = ev.split()
    if not w:
        return None
    k = w[0]
    if k == "PW.Detach" and len(w) >= 4:
        return k + ":" + w[3]
    if k in ("W.Reject",) and len(w) >= 3:
        return k + ":" + w[2]
    if k == "W.Return" and len(w) >= 3:
        return k + ":" + w[2]
    if k in ("W.Enter", "Q.Put") and len(w) >= 2:
        return k + ":" + w[-1]
    if k == "Q.Get":
        return k + (":nil" if w[-1] == "nil" else ":batch")
    if k == "B.TimerFire":
        return k + ":" + w[-1]
    if k == "Br.Produce":
        return k + ":" + ("code" if w[-1].startswith("k") else w[-1])
    if k in ("PW.AttemptDone", "B.Completion", "B.Complete"):
        c = w[-1]
        return k + ":" + ("ok" if c == "ok" else "kafka" if c.startswith("k") else "net" if c in ("eof", "connreset", "connrefused", "epipe", "deadline") else c)
    if k == "PW.Attempt":
        return k + (":first" if w[-1] == "0" else ":retry")
    return k

def trace_coverage(lines):
    kinds, bigrams, scen = {}, set(), {}
    nevents = 0
    for l in lines:
        if "\t" not in l:
            continue
        op = l.split("\t", 1)[0]
        parts = op.split(" | ")
        if len(parts) != 3:
            continue
        name = parts[0].split()[1] if len(parts[0].split()) > 1 else "?"
        fam = re.sub(r"\d+$", "", name)
        scen[fam] = scen.get(fam, 0) + 1
        prev = None
        for ev in parts[2].split(";"):
            k = event_key(ev)
            if k is None:
                continue
            nevents += 1
            kinds[k] = kinds.get(k, 0) + 1
            if prev is not None:
                bigrams.add((prev, k))
            prev = k
    return kinds, bigrams, scen, nevents

def run_writer(ctx, prop, module, monitor_name):
    """prop: 'c01' | 'c07' | 'c08'"""
    ctx.assumptions += COMMON_ASSUMPTIONS
    broken = []
    ok, log = ctx.extract("writer", ["lean/KafkaVerif/Gen/WriterConsts.lean"])
    if not ok:
        broken.append({"kind": "obligation", "name": "translator go/extract writer (error.go retry classification)", "detail": log[-1500:]})
    res = ctx.prove(module)
    if not res["ok"]:
        broken.append({"kind": "obligation", "theorems": res["failed"], "detail": res["reasons"][:10]})
    dis = []
    orc, olog = ctx.oracle_build("oracle_writer")
    drv, dlog = ctx.go_build("./cmd/writer", "writer-" + prop)
    lines = []
    if orc is None or drv is None:
        broken.append({"kind": "obligation", "name": "correspondence %s could not be built (oracle_writer / go/cmd/writer)" % prop.upper(), "detail": (olog + dlog)[-1500:]})
    else:
        lines, rc, err = ctx.run_driver(drv, [])
        if rc != 0:
            broken.append({"kind": "obligation", "name": "driver writer crashed", "detail": err[-1500:]})
        obs = [l for l in lines if l.startswith("obs ")]
        lines = [l for l in lines if "\t" in l]
        if obs:
            ctx.coverage["observations"] = obs[-3:]
        plines = [prop + " " + l for l in lines]
        dis = ctx.correspond(plines, orc, "writer.go hook trace + broker journal ↔ Model/Writer.lean (trace acceptance) + monitor " + monitor_name)
        kinds, bigrams, scen, nevents = trace_coverage(lines)
        ctx.coverage["distinct_event_bigrams"] = len(bigrams)      # distinct event bigrams (Appendix B); distinct_nontrivial (counted by ctx.correspond) = distinct traces
        ctx.coverage["events"] = nevents
        ctx.coverage["event_kinds"] = dict(sorted(kinds.items()))
        ctx.coverage["scenarios"] = scen
    ctx.coverage["rule"] = ("scenarios: forced schedules (close window after enter(); held first attempt with queued later batches, then lost ack / temporary code / drop) + "
                            "random: 1-4 (thorough up to 8) concurrent callers x 1-3 successive calls x 1-12 messages, BatchSize in {1,2,3,4,5,100}, BatchBytes = k*u+{-1,0,1,7} or 1 MiB "
                            "(sizes u, u+-1, 2u, exactly BatchBytes, BatchBytes+1..3 = too large), BatchTimeout 2-8 ms, MaxAttempts 1-4, sync / Async, Completion, writer-level or message-level topics "
                            "(1-2 topics x 1-3 partitions, deterministic balancer), topic conflicts, per-partition fault scripts (ok / lost ack / drop before apply / temporary code / permanent code / other / deadline, delays), "
                            "early concurrent Close. evaluations = traces replayed through the LTS; distinct_nontrivial = distinct traces (distinct op lines); distinct_event_bigrams = distinct event bigrams (kind + branch-selecting argument)")
    concrete = [d for d in dis if d.get("kind") == "disagreement" and not d["holds_on_impl"]]
    others = [d for d in dis if d not in concrete]
    recorded = 0
    for d in concrete[:20]:
        name = d["op"].split()[2] if len(d["op"].split()) > 2 else "?"
        secs = d["op"].split(" | ")
        # `input` = the scenario (configuration + calls): stable across re-runs, so that --replay can tell whether
        # the same scenario fails again on the current tree (same seed => same scenarios; schedules may differ)
        recorded += ctx.violation({"kind": "trace", "input": " | ".join(secs[:2]), "events": secs[2] if len(secs) > 2 else "",
                                   "actual": d["impl"], "expected": d["model"],
                                   "correspondence": d["correspondence"],
                                   "monitor": monitor_name + " is false on the implementation's journal / return values / logs / Completion arguments of this recorded run"},
                                  True, signature="%s monitor %s scenario %s" % (prop, monitor_name, re.sub(r"\d+$", "", name)))
    if (broken or others) and recorded == 0:
        ctx.violation({"kind": "obligation", "broken": broken,
                       "disagreements": [{k: (v[:4000] if isinstance(v, str) else v) for k, v in d.items()} for d in others[:5]],
                       "note": "a proof obligation or the trace correspondence no longer checks (model rejects a recorded trace or predicts other observations); "
                               "the property monitor held on all %d recorded runs" % ctx.coverage["evaluations"]},
                      False, signature="obligation " + str(broken)[:300] + " " + " ".join(d.get("model", "")[:80] for d in others[:3]))
    elif broken or others:
        for b in broken:
            ctx.notes.append("also broken: " + str(b)[:500])
        for d in others[:3]:
            ctx.notes.append("also: model disagreement " + str(d.get("model"))[:300])
