#!/usr/bin/env python3
"""tools/confirm_seed.py <Cid> <mN> [--keep-as <seeded-id>]
Confirm a mutant delivered by a seeding sub-agent in /tmp/kv-seed/<Cid>-out/<mN>, using the agent's (clean) scratch
worktree /tmp/kv-seed/<Cid>: patch applies, builds, pinned baseline passes, demo FAILS with the patch and PASSES without.
On success copies it to /verif/seeded/<seeded-id>/ with meta.json extended by what was run."""
import json, os, shutil, subprocess, sys
cid, mn = sys.argv[1], sys.argv[2]
keep = sys.argv[4] if len(sys.argv) > 4 and sys.argv[3] == "--keep-as" else "%s-%s" % (cid, mn)
SD = os.environ.get("KV_SEED_DIR", "/tmp/kv-seed")
wt, out = "%s/%s" % (SD, cid), "%s/%s-out/%s" % (SD, cid, mn)
env = dict(os.environ, GOFLAGS="-mod=mod", GOPROXY="off", GOSUMDB="off", GOTOOLCHAIN="local")
meta = json.load(open(os.path.join(out, "meta.json")))
def run(cmd, cwd, timeout=900):
    try:
        p = subprocess.run(cmd, shell=True, cwd=cwd, env=env, capture_output=True, text=True, timeout=timeout)
        return p.returncode, (p.stdout + p.stderr)[-1500:]
    except subprocess.TimeoutExpired:
        return 124, "TIMEOUT"
assert run("git status --porcelain", wt)[1].strip() == "", "worktree not clean"
import re
demo_cmd = re.split(r"\s{2,}\(|\s+#\s", meta["demo_cmd"])[0].strip()
if len(sys.argv) > 5 and sys.argv[5] == "--cmd": demo_cmd = sys.argv[6]
print("demo_cmd:", demo_cmd)
# demo_cmd may contain its own `cd`; run from the demo dir by default
demo_cwd = os.path.join(out, "demo")
inpkg = [f for f in os.listdir(demo_cwd) if f.endswith("_test.go")] if not os.path.exists(os.path.join(demo_cwd, "go.mod")) else []
if inpkg:
    m = re.search(r"go test[^&;|]*", demo_cmd)
    gotest = m.group(0).strip() if m else "go test -count=1 -vet=off ."
    if "-vet=off" not in gotest: gotest = gotest.replace("go test", "go test -vet=off")
    demo_cmd = " && ".join(["cp %s %s/" % (os.path.join(demo_cwd, f), wt) for f in inpkg]) + " ; " + gotest + " ; rc=$? ; " + " ; ".join(["rm -f %s/%s" % (wt, f) for f in inpkg]) + " ; exit $rc"
    demo_cwd = wt
    print("in-package demo →", demo_cmd)
rc0, o0 = run(demo_cmd, demo_cwd)
print("WITHOUT patch: rc=%d\n%s" % (rc0, o0[-400:]))
rc, o = run("git apply %s" % os.path.join(out, "patch.diff"), wt); assert rc == 0, "patch does not apply: " + o
try:
    rcb, ob = run("go build ./...", wt); assert rcb == 0, "does not build: " + ob
    rcl, ol = run("python3 /var/tmp/kv-tools/baseline.py %s" % wt, wt, 1800)
    print("baseline:", ol.strip().split("\n")[0])
    rc1, o1 = run(demo_cmd, demo_cwd)
    print("WITH patch: rc=%d\n%s" % (rc1, o1[-600:]))
finally:
    run("git checkout -- . && git clean -fdq", wt)
ok = rc0 == 0 and rc1 != 0 and rcl == 0
print("CONFIRMED" if ok else "NOT CONFIRMED")
if ok:
    dst = os.path.join("/verif/seeded", keep)
    if os.path.exists(dst): shutil.rmtree(dst)
    shutil.copytree(out, dst)
    meta.update({"breaks": [cid], "confirmed": True, "base_commit": subprocess.check_output(["git", "-C", wt, "rev-parse", "--short", "HEAD"], text=True).strip(),
                 "confirmation": {"ran": ["git apply patch.diff", "go build ./...", "baseline.py: " + ol.strip().split("\n")[0],
                                          "demo with patch rc=%d" % rc1, "demo without patch rc=%d" % rc0],
                                  "demo_with_patch_tail": o1[-300:], "note": "demo go.mod replace path pointed at %s when it was run" % wt}})
    json.dump(meta, open(os.path.join(dst, "meta.json"), "w"), indent=1)
sys.exit(0 if ok else 1)
