#!/usr/bin/env python3
"""tools/run_par.py seeded|harmless [--jobs K] [--only id…] [--tier quick]
Run tools/run_seeded.py / tools/run_harmless.py over all (or the named) ids in K independent clones of /verif
(git worktrees of the current HEAD under /var/tmp/kv-run/<k>, each with its own lean/.lake and .build, so neither the
pipeline lock nor the shared Gen/ files serialise them), then fold the clones' RESULTS.json into this tree's.
The clones are scratch: they are removed at the end (--keep to keep them for the next call)."""
import argparse, json, os, shutil, subprocess, sys, time
ROOT = os.path.dirname(os.path.dirname(os.path.abspath(__file__)))
ap = argparse.ArgumentParser()
ap.add_argument("what", choices=["seeded", "harmless"])
ap.add_argument("--jobs", type=int, default=4); ap.add_argument("--only", nargs="*"); ap.add_argument("--tier", default="quick")
ap.add_argument("--keep", action="store_true")
a = ap.parse_args()
base = "/var/tmp/kv-run"
os.makedirs(base, exist_ok=True)
st = subprocess.run(["git", "status", "--porcelain"], cwd=ROOT, capture_output=True, text=True).stdout.strip()
if st:
    print("note: uncommitted changes in %s are NOT in the clones:\n%s" % (ROOT, st[:400]))
ids = [d for d in sorted(os.listdir(os.path.join(ROOT, a.what)))
       if os.path.isdir(os.path.join(ROOT, a.what, d)) and os.path.exists(os.path.join(ROOT, a.what, d, "patch.diff"))
       and (not a.only or d in a.only)]
k = max(1, min(a.jobs, len(ids)))
parts = [ids[i::k] for i in range(k)]
procs = []
for i, part in enumerate(parts):
    wt = os.path.join(base, str(i))
    subprocess.run(["git", "worktree", "remove", "--force", wt], cwd=ROOT, capture_output=True)
    shutil.rmtree(wt, ignore_errors=True)
    subprocess.run(["git", "worktree", "prune"], cwd=ROOT, capture_output=True)
    subprocess.run(["git", "worktree", "add", "-q", "--detach", wt, "HEAD"], cwd=ROOT, check=True)
    # warm build products: Lean oleans + oracle binaries (incremental afterwards)
    subprocess.run(["cp", "-r", os.path.join(ROOT, "lean", ".lake"), os.path.join(wt, "lean", ".lake")], check=True)
    os.makedirs(os.path.join(wt, ".build"), exist_ok=True)
    cmd = [sys.executable, os.path.join(wt, "tools", "run_%s.py" % a.what), "--only"] + part
    if a.what == "seeded": cmd += ["--tier", a.tier]
    if a.what == "harmless": cmd += ["--jobs", "3"]
    log = open(os.path.join(base, "log-%d.txt" % i), "w")
    procs.append((i, wt, part, subprocess.Popen(cmd, cwd=wt, stdout=log, stderr=subprocess.STDOUT), log))
    print("clone %d: %d ids" % (i, len(part)), flush=True)
t0 = time.time()
for i, wt, part, p, log in procs:
    p.wait(); log.close()
rp = os.path.join(ROOT, a.what, "RESULTS.json")
results = json.load(open(rp)) if os.path.exists(rp) else {}
for i, wt, part, p, log in procs:
    crp = os.path.join(wt, a.what, "RESULTS.json")
    if os.path.exists(crp):
        cr = json.load(open(crp))
        for sid in part:
            if sid in cr:
                results[sid] = json.loads(json.dumps(cr[sid]).replace(wt, ROOT))
    sys.stdout.write(open(os.path.join(base, "log-%d.txt" % i)).read())
json.dump(results, open(rp, "w"), indent=1)
print("done in %ds" % (time.time() - t0))
if not a.keep:
    for i, wt, part, p, log in procs:
        subprocess.run(["git", "worktree", "remove", "--force", wt], cwd=ROOT, capture_output=True)
        shutil.rmtree(wt, ignore_errors=True)
    subprocess.run(["git", "worktree", "prune"], cwd=ROOT, capture_output=True)
