#!/usr/bin/env python3
"""tools/baseline.py [repo-dir] [extra go test flags…] — run the pinned baseline suite (guard off) in repo-dir and
compare with /root/.vp/BASELINE.json's stable_pass list.  Exit 0 iff every stable test passes."""
import json, os, subprocess, sys
repo = sys.argv[1] if len(sys.argv) > 1 else "/repo"
extra = sys.argv[2:]
base = json.load(open("/root/.vp/BASELINE.json"))
want = set(base["stable_pass"])
env = dict(os.environ, GOFLAGS="-mod=mod", GOPROXY="off", GOSUMDB="off", GOTOOLCHAIN="local")
passed, failed = set(), set()
for m in [".", "./sasl/aws_msk_iam", "./sasl/aws_msk_iam_v2"]:
    p = subprocess.run(["go", "test", "-json", "-vet=off", "-count=1", "-timeout", "25m"] + extra + ["./..."],
                       cwd=os.path.join(repo, m), env=env, capture_output=True, text=True)
    for line in p.stdout.split("\n"):
        try: e = json.loads(line)
        except Exception: continue
        if e.get("Test") and e.get("Action") in ("pass", "fail"):
            (passed if e["Action"] == "pass" else failed).add("%s::%s" % (e["Package"], e["Test"]))
missing = sorted(want - passed)
print("stable tests: %d, passed now: %d, missing/failed: %d" % (len(want), len(want & passed), len(missing)))
for t in missing[:30]: print("  NOT PASSING:", t)
sys.exit(1 if missing else 0)
