#!/usr/bin/env python3
"""Assemble /verif/MANIFEST.json from the META dicts of checks/*.py; properties without a check module
are listed under not_applicable with the reason recorded in tools/not_applicable.json."""
import importlib, json, os, sys
ROOT = os.path.dirname(os.path.dirname(os.path.abspath(__file__)))
sys.path.insert(0, ROOT); sys.path.insert(0, os.path.join(ROOT, "lib"))
props = [json.loads(l)["id"] for l in open(os.path.join(ROOT, "properties.jsonl"))]
na_reasons = json.load(open(os.path.join(ROOT, "tools", "not_applicable.json")))
checks, na, engines = [], [], {}
for pid in props:
    path = os.path.join(ROOT, "checks", pid.lower() + ".py")
    if not os.path.exists(path):
        na.append({"property_id": pid, "reason": na_reasons.get(pid, "check not built yet (work in progress; see DESIGN.md §7 for the planned model and theorems)")})
        continue
    m = importlib.import_module("checks." + pid.lower())
    meta = dict(m.META)
    c = {
        "property_id": pid,
        "quick_cmd": "./check %s --tier quick" % pid,
        "thorough_cmd": "./check %s --tier thorough" % pid,
        "evidence_file": "/verif/evidence/%s.json" % pid,
        "replay_cmd_template": "./check %s --replay {path}" % pid,
        "engine": meta.get("engine", "lean"),
        "level_claimed": meta["level_claimed"],
        "level_note": meta["level_note"],
        "technique": meta["technique"],
    }
    checks.append(c)
    engines.setdefault(c["engine"], []).append(pid)
hooks = json.load(open(os.path.join(ROOT, "tools", "hooks.json")))
try:
    import subprocess
    out = subprocess.check_output(["git", "-C", "/repo", "log", "--format=%h %s"], text=True).split("\n")
    hooks["source_commits"] = [l.split(" ", 1)[0] for l in out if " verif hooks" in " " + l.split(" ", 1)[-1][:12] or l.split(" ", 1)[-1].startswith("verif hooks")][::-1]
    json.dump(hooks, open(os.path.join(ROOT, "tools", "hooks.json"), "w"), indent=1)
except Exception as e:
    print("could not refresh hook commits:", e)
man = {
    "version": 1,
    "setup_cmd": "./setup.sh",
    "hooks": hooks,
    "engines": [{"name": k, "path": "/verif/lean + /verif/go", "serves_properties": v,
                 "kind_free_text": "Lean 4 model + theorems (lake), Go extractor + correspondence driver, compiled Lean oracle"} for k, v in engines.items()],
    "checks": checks,
    "not_applicable": na,
    "notes": "All checks: ./check <Cid> --tier quick|thorough (python3). Every run regenerates lean/KafkaVerif/Gen/* from /repo, rebuilds the Lean property module, audits axioms, rebuilds the Go driver against /repo with -tags verif, and diffs implementation vs the compiled Lean oracle. Known findings: known_findings.json. hooks.add_only: no hook commit rewrites or deletes a line of the original library; a few later hook commits rewrite lines that EARLIER hook commits had added (inside `if verifOn { … }` blocks or in the build-tag-guarded verif_*.go files: 31a5456 4ebd5b5 ac4c0fa b4d5fc1 10aaded 51c73b8 d9da662 9901286 f401b5e ab011dd 951dd15 d2b661a), checked with `git show --numstat` over hooks.source_commits.",
}
json.dump(man, open(os.path.join(ROOT, "MANIFEST.json"), "w"), indent=1)
print("checks:", [c["property_id"] for c in checks], "n/a:", [n["property_id"] for n in na])
