#!/usr/bin/env python3
"""Render seeded/RESULTS.json + seeded/*/meta.json as docs/DETECTION.md (which checks catch which seeded changes)."""
import json, os
ROOT = os.path.dirname(os.path.dirname(os.path.abspath(__file__)))
res = json.load(open(os.path.join(ROOT, "seeded", "RESULTS.json"))) if os.path.exists(os.path.join(ROOT, "seeded", "RESULTS.json")) else {}
rows = []
for sid in sorted(os.listdir(os.path.join(ROOT, "seeded"))):
    mp = os.path.join(ROOT, "seeded", sid, "meta.json")
    if not os.path.exists(mp): continue
    m = json.load(open(mp)); r = res.get(sid, {})
    det = []
    for c, v in (r.get("checks") or {}).items():
        if isinstance(v, dict):
            det.append("%s: %s" % (c, ("**caught**" + (" (no failing input)" if v.get("no_failing_input") else "")) if v.get("violation") else "missed"))
        else:
            det.append("%s: %s" % (c, v))
    if m.get("status_on_head"): det.append("(" + m["status_on_head"][:90] + "…)")
    rows.append("| %s | %s | %s | %s | %s |" % (sid, ",".join(m.get("breaks") or [m.get("property", "")]), (m.get("title") or m.get("origin", ""))[:110].replace("|", "/"),
                                             (m.get("needs_to_manifest") or m.get("needs", ""))[:140].replace("|", "/"), "; ".join(det) or "not run yet"))
out = ["# Seeded changes and which checks catch them", "",
       "Each change compiles, passes the pinned 410-test baseline and breaks the named property (confirmed with its own demo).",
       "Runs are made against a scratch worktree (`tools/run_seeded.py`), never in /repo.", "",
       "| seeded id | property | change | needs to manifest | result |", "|---|---|---|---|---|"] + rows
open(os.path.join(ROOT, "docs", "DETECTION.md"), "w").write("\n".join(out) + "\n")
print("\n".join(out[-len(rows):]))
