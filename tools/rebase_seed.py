#!/usr/bin/env python3
"""tools/rebase_seed.py <seeded-id> <edit-script.py>  — rebase a seeded patch onto /repo HEAD by re-making the edit.
The edit script receives the scratch worktree path as argv[1] and performs the same change there.  The demo is re-run
against the rebased tree (replace path rewritten in a copy) to confirm: fails with the change, passes without."""
import json, os, re, shutil, subprocess, sys
sid, script = sys.argv[1], sys.argv[2]
d = "/verif/seeded/" + sid
wt = "/var/tmp/kv-mut/rebase-" + sid
env = dict(os.environ, GOFLAGS="-mod=mod", GOPROXY="off", GOSUMDB="off", GOTOOLCHAIN="local")
def run(cmd, cwd, timeout=900):
    try:
        p = subprocess.run(cmd, shell=True, cwd=cwd, env=env, capture_output=True, text=True, timeout=timeout)
        return p.returncode, (p.stdout + p.stderr)[-1200:]
    except subprocess.TimeoutExpired:
        return 124, "TIMEOUT"
subprocess.run(["git", "-C", "/repo", "worktree", "remove", "--force", wt], capture_output=True)
subprocess.run(["git", "-C", "/repo", "worktree", "add", "-q", "--detach", wt, "HEAD"], check=True)
try:
    meta = json.load(open(d + "/meta.json"))
    demo = wt + "-demo"
    shutil.rmtree(demo, ignore_errors=True); shutil.copytree(d + "/demo", demo)
    inpkg = not os.path.exists(demo + "/go.mod")
    if not inpkg:
        gm = open(demo + "/go.mod").read()
        gm = re.sub(r"(replace github.com/segmentio/kafka-go => )\S+", r"\1" + wt, gm)
        open(demo + "/go.mod", "w").write(gm)
        shutil.copy(wt + "/go.sum", demo + "/go.sum") if False else None
        cmd = re.split(r"\s{2,}\(|\s+#\s", meta["demo_cmd"])[0].strip()
        cmd = re.sub(r"cd \S+ *&& *", "", cmd)
        cwd = demo
    else:
        tests = [f for f in os.listdir(demo) if f.endswith("_test.go")]
        m = re.search(r"go test[^&;|]*", meta["demo_cmd"]); gt = (m.group(0).strip() if m else "go test -count=1 .")
        if "-vet=off" not in gt: gt = gt.replace("go test", "go test -vet=off")
        cmd = " && ".join("cp %s/%s %s/" % (demo, t, wt) for t in tests) + " ; " + gt + " ; rc=$? ; " + " ; ".join("rm -f %s/%s" % (wt, t) for t in tests) + " ; exit $rc"
        cwd = wt
    rc0, o0 = run(cmd, cwd); print("WITHOUT change on HEAD: rc=%d %s" % (rc0, o0[-200:].replace("\n", " | ")))
    rc, o = run("python3 %s %s" % (script, wt), wt); assert rc == 0, o
    rcb, ob = run("go build ./...", wt); assert rcb == 0, ob
    diff = subprocess.check_output(["git", "-C", wt, "diff"], text=True); assert diff.strip(), "edit made no change"
    rcl, ol = run("python3 /verif/tools/baseline.py %s" % wt, wt, 1800); print("baseline:", ol.strip().split("\n")[0])
    rc1, o1 = run(cmd, cwd); print("WITH change on HEAD: rc=%d %s" % (rc1, o1[-300:].replace("\n", " | ")))
    ok = rc0 == 0 and rc1 != 0 and rcl == 0
    print("REBASED+CONFIRMED" if ok else "NOT CONFIRMED")
    if ok:
        if not os.path.exists(d + "/patch.orig.diff"): shutil.copy(d + "/patch.diff", d + "/patch.orig.diff")
        open(d + "/patch.diff", "w").write(diff)
        head = subprocess.check_output(["git", "-C", "/repo", "rev-parse", "--short", "HEAD"], text=True).strip()
        meta["rebased_onto"] = head
        meta.setdefault("confirmation", {})["rebase"] = "same edit re-made on /repo %s (fix/hook commits had changed the context); demo re-run against that tree: fails with the change (rc=%d), passes without (rc=%d); baseline: %s" % (head, rc1, rc0, ol.strip().split("\n")[0])
        json.dump(meta, open(d + "/meta.json", "w"), indent=1)
finally:
    subprocess.run(["git", "-C", "/repo", "worktree", "remove", "--force", wt], capture_output=True)
    shutil.rmtree(wt + "-demo", ignore_errors=True)
