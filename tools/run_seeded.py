#!/usr/bin/env python3
"""tools/run_seeded.py [--only <seeded-id>…] [--checks C01,C07] [--tier quick] [--baseline]
For every /verif/seeded/<id>/ (patch.diff + meta.json): make a scratch worktree of /repo HEAD under /var/tmp/kv-mut,
apply the patch there (never to /repo), optionally run the pinned baseline suite, run the checks named in meta.json
("breaks", plus --checks) with VERIF_REPO pointing at the scratch tree, and print/record which checks raise VIOLATION.
Results → /verif/seeded/RESULTS.json (detection matrix).  Scratch worktrees are removed afterwards."""
import argparse, json, os, subprocess, sys, time
ROOT = os.path.dirname(os.path.dirname(os.path.abspath(__file__)))
ap = argparse.ArgumentParser()
ap.add_argument("--only", nargs="*"); ap.add_argument("--checks", default=""); ap.add_argument("--tier", default="quick")
ap.add_argument("--baseline", action="store_true")
a = ap.parse_args()
res_path = os.path.join(ROOT, "seeded", "RESULTS.json")
results = json.load(open(res_path)) if os.path.exists(res_path) else {}
head = subprocess.check_output(["git", "-C", "/repo", "rev-parse", "--short", "HEAD"], text=True).strip()
for sid in sorted(os.listdir(os.path.join(ROOT, "seeded"))):
    d = os.path.join(ROOT, "seeded", sid)
    if not os.path.isdir(d) or (a.only and sid not in a.only): continue
    meta = json.load(open(os.path.join(d, "meta.json")))
    checks = list(dict.fromkeys([c for c in (meta.get("breaks") or [meta.get("property")]) if c] + [c for c in a.checks.split(",") if c]))
    wt = "/var/tmp/kv-mut/%s" % sid
    subprocess.run(["git", "-C", "/repo", "worktree", "remove", "--force", wt], capture_output=True)
    subprocess.run(["git", "-C", "/repo", "worktree", "add", "-q", "--detach", wt, "HEAD"], check=True)
    entry = {"repo_head": head, "checks": {}, "at": time.strftime("%Y-%m-%dT%H:%M:%SZ", time.gmtime())}
    try:
        p = subprocess.run(["git", "-C", wt, "apply", "--3way", os.path.join(d, "patch.diff")], capture_output=True, text=True)
        if p.returncode != 0:
            entry["apply"] = "FAILED: " + p.stderr[-300:]; print(sid, entry["apply"]); results[sid] = entry; continue
        entry["apply"] = "ok"
        b = subprocess.run("cd %s && go build ./... " % wt, shell=True, capture_output=True, text=True,
                           env=dict(os.environ, GOFLAGS="-mod=mod", GOPROXY="off", GOSUMDB="off", GOTOOLCHAIN="local"))
        entry["builds"] = b.returncode == 0
        if a.baseline:
            bl = subprocess.run([sys.executable, os.path.join(ROOT, "tools", "baseline.py"), wt], capture_output=True, text=True)
            entry["baseline"] = bl.stdout.strip().split("\n")[0]
        for c in checks:
            if not os.path.exists(os.path.join(ROOT, "checks", c.lower() + ".py")):
                entry["checks"][c] = "no-check"; continue
            t = time.time()
            r = subprocess.run(["./check", c, "--tier", a.tier], cwd=ROOT, capture_output=True, text=True,
                               env=dict(os.environ, VERIF_REPO=wt))
            v = [l for l in r.stdout.split("\n") if l.startswith("VIOLATION")]
            entry["checks"][c] = {"rc": r.returncode, "violation": v[0] if v else None, "secs": round(time.time() - t, 1),
                                  "no_failing_input": bool(v) and v[0].endswith("no-failing-input-found")}
            print(sid, c, "DETECTED" if v else "missed", "(%.0fs)" % (time.time() - t), v[0][:160] if v else "")
    finally:
        subprocess.run(["git", "-C", "/repo", "worktree", "remove", "--force", wt], capture_output=True)
    results[sid] = entry
    json.dump(results, open(res_path, "w"), indent=1)
