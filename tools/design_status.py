#!/usr/bin/env python3
"""Regenerate the machine-maintained part of DESIGN.md (between the AUTO markers): findings table from known_findings.json,
detection summary from seeded/RESULTS.json, hook commits from tools/hooks.json."""
import json, os, re, subprocess
ROOT = os.path.dirname(os.path.dirname(os.path.abspath(__file__)))
k = json.load(open(os.path.join(ROOT, "known_findings.json")))["findings"]
res = json.load(open(os.path.join(ROOT, "seeded", "RESULTS.json")))
hooks = json.load(open(os.path.join(ROOT, "tools", "hooks.json")))
def subj(c):
    try: return subprocess.check_output(["git", "-C", "/repo", "log", "-1", "--format=%s", c], text=True).strip()
    except Exception: return ""
out = ["<!-- AUTO:BEGIN (tools/design_status.py) -->", "### 0.1 Findings (genuine defects of the pinned tree, each replayed on the real code by the machinery)", "",
       "| id | property | status | /repo commit | what |", "|---|---|---|---|---|"]
seen = set()
for f in k:
    key = (f["id"], f.get("commit", ""))
    props = ",".join(sorted({g["property"] for g in k if (g["id"], g.get("commit", "")) == key}))
    if key in seen: continue
    seen.add(key)
    what = re.sub(r"^fixed: property=\S+ \S+ ", "", f["what"])[:260].replace("|", "/").replace("\n", " ")
    out.append("| %s | %s | %s | %s | %s |" % (f["id"], props, f["status"], f.get("commit", "—"), what))
fixes = subprocess.check_output(["git", "-C", "/repo", "log", "--format=%h %s"], text=True).split("\n")
fixes = [l for l in fixes if re.match(r"^\w+ fix:", l)]
out += ["", "`fix:` commits in /repo (%d): %s." % (len(fixes), ", ".join(l.split(" ")[0] for l in fixes[::-1])),
        "Known (unrepaired) findings are printed as `KNOWN-FINDING:` lines by their check and matched by the regex `signature` in known_findings.json.", ""]
out += ["### 0.2 Seeded property-breaking changes: which check catches which", "",
        "Independent sub-agents saw only the property text and a scratch worktree; every kept change compiles, passes the pinned 410-test baseline and fails its own demonstration (confirmed by `tools/confirm_seed.py`, rebased onto the current tree by `tools/rebase_seed.py` where fix/hook commits had moved the context). Full table with mechanisms: `docs/DETECTION.md`.", "",
        "| property | caught with a concrete failing input | caught, no failing input found (broken obligation / rejected trace) | missed |", "|---|---|---|---|"]
per = {}
for sid, v in sorted(res.items()):
    meta = os.path.join(ROOT, "seeded", sid, "meta.json")
    if not os.path.exists(meta): continue
    neutral = "status_on_head" in json.load(open(meta))
    for c, x in (v.get("checks") or {}).items():
        if not isinstance(x, dict): continue
        d = per.setdefault(c, {"in": [], "ob": [], "miss": []})
        tag = sid + ("†" if neutral else "")
        (d["miss"] if not x["violation"] else d["ob"] if x["no_failing_input"] else d["in"]).append(tag)
for c in sorted(per):
    d = per[c]; out.append("| %s | %s | %s | %s |" % (c, ", ".join(d["in"]) or "—", ", ".join(d["ob"]) or "—", ", ".join(d["miss"]) or "—"))
tot = {k2: sum(len(d[k2]) for d in per.values()) for k2 in ("in", "ob", "miss")}
out += ["", "Totals over %d (change, check) pairs: %d with input, %d obligation-only, %d missed.  † = the change no longer breaks the property on the current tree because a later `fix:` made the code robust against it (recorded in its meta.json)." % (sum(tot.values()), tot["in"], tot["ob"], tot["miss"]), "",
        "### 0.3 Size of the deliverable (from the last evidence files written on /repo; theorem counts supersede those in the §0 table above)", "",
        "| property | theorems (obligations discharged) | quick cases | distinct non-trivial | Lean modules in the closure | wall s (quick) |", "|---|---|---|---|---|---|"]
import glob
tot_t = 0
for f in sorted(glob.glob(os.path.join(ROOT, "evidence", "C*.json"))):
    e = json.load(open(f)); c = e["coverage"]
    tot_t += c.get("discharged", 0)
    out.append("| %s | %s/%s | %s | %s | %s | %s |" % (e["property_id"], c.get("discharged"), c.get("obligations"), c.get("evaluations"), c.get("distinct_nontrivial"), len(c.get("lean_modules", [])), e.get("wall_s")))
def loc(pattern):
    n = 0
    for f in glob.glob(os.path.join(ROOT, pattern), recursive=True):
        try: n += sum(1 for _ in open(f, errors="ignore"))
        except Exception: pass
    return n
out += ["", "Total kernel-checked property theorems: %d.  Lean: %d lines (Model %d, Spec %d, Lemmas %d, Props %d, Gen (regenerated) %d, Oracle %d); Go harness: %d lines (extractors %d); checks/lib/tools (Python): %d lines." % (
    tot_t, loc("lean/**/*.lean"), loc("lean/KafkaVerif/Model/*.lean"), loc("lean/KafkaVerif/Spec/*.lean"), loc("lean/KafkaVerif/Lemmas/*.lean"), loc("lean/KafkaVerif/Props/*.lean"), loc("lean/KafkaVerif/Gen/*.lean"), loc("lean/Oracle/*.lean"),
    loc("go/**/*.go"), loc("go/extract/**/*.go"), loc("checks/*.py") + loc("lib/*.py") + loc("tools/*.py"))]
out += ["", "### 0.4 Hook commits in /repo (build tag `verif`; add-only)", ""]
for c in hooks["source_commits"]:
    out.append("* `%s` %s" % (c, subj(c)))
out += ["", "<!-- AUTO:END -->"]
p = os.path.join(ROOT, "DESIGN.md"); s = open(p).read()
block = "\n".join(out)
if "<!-- AUTO:BEGIN" in s:
    s = re.sub(r"<!-- AUTO:BEGIN.*?<!-- AUTO:END -->", lambda m: block, s, flags=re.S)
else:
    s = s.replace("## 1. Approach in one page", block + "\n\n## 1. Approach in one page", 1)
open(p, "w").write(s)
print("DESIGN.md status block updated:", tot)
