#!/usr/bin/env python3
"""tools/run_harmless.py [--only id…] [--jobs 4] — behaviour-preserving refactorings kept under /verif/harmless/<id>/
(patch.diff + meta.json): apply each to a scratch worktree of /repo HEAD and run EVERY check against it.  A check that
raises an alarm here raises it on code where the property still holds; the brief allows that only as
`no-failing-input-found` (broken obligation/correspondence); an alarm WITH a "failing input" would be a false positive of
the monitor.  Results → harmless/RESULTS.json."""
import argparse, json, os, subprocess, sys, time
from concurrent.futures import ThreadPoolExecutor
ROOT = os.path.dirname(os.path.dirname(os.path.abspath(__file__)))
ap = argparse.ArgumentParser(); ap.add_argument("--only", nargs="*"); ap.add_argument("--jobs", type=int, default=4)
a = ap.parse_args()
man = json.load(open(os.path.join(ROOT, "MANIFEST.json")))
props = [c["property_id"] for c in man["checks"]]
rp = os.path.join(ROOT, "harmless", "RESULTS.json")
results = json.load(open(rp)) if os.path.exists(rp) else {}
for hid in sorted(os.listdir(os.path.join(ROOT, "harmless"))):
    d = os.path.join(ROOT, "harmless", hid)
    if not os.path.isdir(d) or (a.only and hid not in a.only): continue
    wt = "/var/tmp/kv-mut/h-" + hid
    subprocess.run(["git", "-C", "/repo", "worktree", "remove", "--force", wt], capture_output=True)
    subprocess.run(["git", "-C", "/repo", "worktree", "add", "-q", "--detach", wt, "HEAD"], check=True)
    try:
        p = subprocess.run(["git", "-C", wt, "apply", "--3way", os.path.join(d, "patch.diff")], capture_output=True, text=True)
        if p.returncode:
            results[hid] = {"apply": "FAILED " + p.stderr[-200:]}; print(hid, "apply failed"); continue
        def run(c):
            t = time.time()
            r = subprocess.run(["./check", c, "--tier", "quick"], cwd=ROOT, capture_output=True, text=True, env=dict(os.environ, VERIF_REPO=wt))
            v = [l for l in r.stdout.split("\n") if l.startswith("VIOLATION")]
            return c, {"alarm": bool(v), "with_input": bool(v) and not v[0].endswith("no-failing-input-found"), "secs": round(time.time() - t)}
        with ThreadPoolExecutor(a.jobs) as ex:
            res = dict(ex.map(run, props))
        results[hid] = {"apply": "ok", "checks": res}
        al = [c + ("!" if x["with_input"] else "") for c, x in res.items() if x["alarm"]]
        print(hid, "alarms:", al or "none", flush=True)
    finally:
        subprocess.run(["git", "-C", "/repo", "worktree", "remove", "--force", wt], capture_output=True)
    json.dump(results, open(rp, "w"), indent=1)
