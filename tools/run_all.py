#!/usr/bin/env python3
"""tools/run_all.py [--tier quick] [--jobs 4] [--seeds 1] — run every registered check on /repo, summarise."""
import argparse, json, os, subprocess, sys, time
from concurrent.futures import ThreadPoolExecutor
ROOT = os.path.dirname(os.path.dirname(os.path.abspath(__file__)))
ap = argparse.ArgumentParser(); ap.add_argument("--tier", default="quick"); ap.add_argument("--jobs", type=int, default=4); ap.add_argument("--seeds", default="1"); ap.add_argument("--only", default="")
a = ap.parse_args()
man = json.load(open(os.path.join(ROOT, "MANIFEST.json")))
props = [c["property_id"] for c in man["checks"] if not a.only or c["property_id"] in a.only.split(",")]
def run(job):
    p, seed = job; t = time.time()
    r = subprocess.run(["./check", p, "--tier", a.tier], cwd=ROOT, capture_output=True, text=True, env=dict(os.environ, VERIF_SEED=str(seed)))
    lines = [l for l in r.stdout.split("\n") if l.startswith(("VIOLATION", "KNOWN-FINDING")) or "done:" in l]
    return p, seed, r.returncode, round(time.time() - t), lines
bad = 0
with ThreadPoolExecutor(a.jobs) as ex:
    for p, seed, rc, secs, lines in ex.map(run, [(p, s) for s in a.seeds.split(",") for p in props]):
        print("%s seed=%s rc=%d %ds  %s" % (p, seed, rc, secs, " | ".join(l[:110] for l in lines[-3:])), flush=True)
        bad += rc != 0
print("ALL PASS" if not bad else "%d FAILING" % bad); sys.exit(1 if bad else 0)
