#!/usr/bin/env python3
"""tools/merge_branch.py <branch> — merge a builder branch into main, auto-resolving the shared append-only files:
lean/lakefile.toml (union of [[lean_exe]] blocks), known_findings.json (union of entries), go/go.mod + go.sum (union, tidy),
MANIFEST.json / tools/hooks.json / docs/DETECTION.md (regenerated), evidence/*.json (theirs)."""
import json, os, re, subprocess, sys
ROOT = os.path.dirname(os.path.dirname(os.path.abspath(__file__)))
br = sys.argv[1]
def git(*a, check=False):
    p = subprocess.run(["git", "-C", ROOT] + list(a), capture_output=True, text=True)
    if check and p.returncode: raise SystemExit(p.stdout + p.stderr)
    return p
def show(rev, path):
    p = git("show", "%s:%s" % (rev, path)); return p.stdout if p.returncode == 0 else None
if git("status", "--porcelain").stdout.strip():
    raise SystemExit("working tree not clean: commit first")
m = git("merge", "--no-edit", "--no-commit", br)
if m.returncode != 0 and "CONFLICT" not in m.stdout:
    raise SystemExit("merge failed: " + m.stdout + m.stderr)
print(m.stdout[-600:], m.stderr[-300:])
conf = [l[3:] for l in git("status", "--porcelain").stdout.split("\n") if l[:2] in ("UU", "AA", "DU", "UD")]
for path in conf:
    ours, theirs = show("HEAD", path), show(br, path)
    full = os.path.join(ROOT, path)
    if path == "lean/lakefile.toml":
        head = ours.split("[[lean_exe]]")[0]
        blocks = {}
        for src in (ours, theirs):
            for b in re.findall(r"\[\[lean_exe\]\]\n(?:(?!\[\[).*\n?)*", src):
                name = re.search(r'name = "([^"]+)"', b).group(1)
                blocks[name] = b.strip() + "\n"
        open(full, "w").write(head.rstrip() + "\n\n" + "\n".join(blocks[k] for k in sorted(blocks)))
    elif path == "known_findings.json":
        a, b = json.loads(ours), json.loads(theirs)
        seen = {(f["property"], f["id"], f["status"]) for f in a["findings"]}
        for f in b["findings"]:
            if (f["property"], f["id"], f["status"]) not in seen: a["findings"].append(f)
        json.dump(a, open(full, "w"), indent=1)
    elif path in ("go/go.mod",):
        req = set(re.findall(r"^\t(\S+ v\S+)(?: // indirect)?$", ours + theirs, re.M))
        base = ours.split("require")[0]
        open(full, "w").write(base + "require (\n" + "".join("\t%s\n" % r for r in sorted(req)) + ")\n\nreplace github.com/segmentio/kafka-go => /repo\n")
    elif path == "go/go.sum":
        open(full, "w").write("\n".join(sorted(set((ours + theirs).split("\n")) - {""})) + "\n")
    elif path.startswith("lean/KafkaVerif/Gen/") or path.startswith("go/internal/msgs/"):
        # generated on every run from /repo: take theirs, the next check run regenerates it anyway
        open(full, "w").write(theirs if theirs is not None else ours)
    elif path.startswith("evidence/") or path in ("MANIFEST.json", "tools/hooks.json", "docs/DETECTION.md", "seeded/RESULTS.json"):
        open(full, "w").write(theirs if theirs is not None else ours)
    else:
        print("UNRESOLVED:", path); continue
    git("add", path)
left = [l for l in git("status", "--porcelain").stdout.split("\n") if l[:2] in ("UU", "AA", "DU", "UD")]
if left:
    print("still conflicted:", left); sys.exit(1)
# extractors live in their own packages: move any go/extract/<x>.go a builder added in the old flat layout
import glob, shutil
ex = os.path.join(ROOT, "go", "extract")
tmpl = os.path.join(ex, "balancer", "main.go")
for f in glob.glob(os.path.join(ex, "*.go")):
    stem = os.path.basename(f)[:-3]
    if stem == "main":
        os.remove(f); continue
    os.makedirs(os.path.join(ex, stem), exist_ok=True)
    shutil.move(f, os.path.join(ex, stem, stem + ".go"))
    shutil.copy(tmpl, os.path.join(ex, stem, "main.go"))
    print("moved extractor", stem, "into its own package")
for f in glob.glob(os.path.join(ex, "*.json")):
    print("NOTE: data file left in go/extract:", f)
subprocess.run([sys.executable, os.path.join(ROOT, "tools", "mkmanifest.py")], cwd=ROOT)
git("add", "-A")
print(git("commit", "-qm", "merge %s" % br).stdout)
print("merged", br)
