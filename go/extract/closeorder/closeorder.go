package main

// Extractor "closeorder": statement-order facts about the Close methods of the pooled codec wrappers
// (compress/{gzip,snappy,lz4,zstd}: types reader / writer) → lean/KafkaVerif/Gen/CodecClose.lean.
// For every Close method that hands an object to a sync.Pool:
//   putLast   — no statement after the `….Put(obj)` call mentions the object again (other than `field = nil`):
//               Put is the LAST touch, so nobody can be handed an object that its previous user still resets
//   forgets   — the wrapper forgets the object (`w.field = nil`), which makes a second Close a no-op
//   resetFirst— a Reset(…) of the object precedes the Put (nothing of the finished stream is retained)
// Props/C16.lean proves that every extracted method has all three; the pool protocol theorems assume exactly that.

import (
	"bytes"
	"fmt"
	"go/ast"
	"go/parser"
	"go/printer"
	"go/token"
	"os"
	"path/filepath"
	"sort"
	"strings"
)

func init() { extractors["closeorder"] = extractCloseOrder }

func src(fset *token.FileSet, n ast.Node) string {
	var b bytes.Buffer
	printer.Fprint(&b, fset, n)
	return b.String()
}

// flatten returns the statements of a block in source order, descending into if / block bodies.
func flatten(stmts []ast.Stmt) (out []ast.Stmt) {
	for _, s := range stmts {
		switch x := s.(type) {
		case *ast.IfStmt:
			if x.Init != nil {
				out = append(out, x.Init)
			}
			out = append(out, flatten(x.Body.List)...)
			if x.Else != nil {
				if b, ok := x.Else.(*ast.BlockStmt); ok {
					out = append(out, flatten(b.List)...)
				} else {
					out = append(out, flatten([]ast.Stmt{x.Else})...)
				}
			}
		case *ast.BlockStmt:
			out = append(out, flatten(x.List)...)
		default:
			out = append(out, s)
		}
	}
	return
}

// mentions reports whether node n contains expression text `obj` as an identifier / selector expression.
func mentions(fset *token.FileSet, n ast.Node, obj string) bool {
	found := false
	ast.Inspect(n, func(m ast.Node) bool {
		if e, ok := m.(ast.Expr); ok {
			switch e.(type) {
			case *ast.Ident, *ast.SelectorExpr:
				if src(fset, e) == obj {
					found = true
				}
			}
		}
		return !found
	})
	return found
}

func isNilAssign(fset *token.FileSet, s ast.Stmt, lhs string) bool {
	a, ok := s.(*ast.AssignStmt)
	if !ok || len(a.Lhs) != 1 || len(a.Rhs) != 1 || a.Tok != token.ASSIGN {
		return false
	}
	id, ok := a.Rhs[0].(*ast.Ident)
	return ok && id.Name == "nil" && src(fset, a.Lhs[0]) == lhs
}

type closeFact struct {
	name                         string
	putLast, forgets, resetFirst bool
}

func extractCloseOrder(repo, root string) error {
	var facts []closeFact
	for _, pkg := range []string{"gzip", "snappy", "lz4", "zstd"} {
		dir := filepath.Join(repo, "compress", pkg)
		fset := token.NewFileSet()
		pkgs, err := parser.ParseDir(fset, dir, func(fi os.FileInfo) bool { return !strings.HasSuffix(fi.Name(), "_test.go") }, 0)
		if err != nil {
			return err
		}
		for _, p := range pkgs {
			for _, f := range p.Files {
				for _, d := range f.Decls {
					fd, ok := d.(*ast.FuncDecl)
					if !ok || fd.Name.Name != "Close" || fd.Recv == nil || fd.Body == nil {
						continue
					}
					recvT := src(fset, fd.Recv.List[0].Type)
					recvT = strings.TrimPrefix(recvT, "*")
					stmts := flatten(fd.Body.List)
					// the Put call and its argument
					putIdx, obj := -1, ""
					for i, s := range stmts {
						ast.Inspect(s, func(n ast.Node) bool {
							if c, ok := n.(*ast.CallExpr); ok {
								if sel, ok := c.Fun.(*ast.SelectorExpr); ok && sel.Sel.Name == "Put" && len(c.Args) == 1 {
									putIdx, obj = i, src(fset, c.Args[0])
								}
							}
							return true
						})
					}
					if putIdx < 0 {
						continue // errorReader / errorWriter: no pool
					}
					// the wrapper field the object came from: obj itself if it is a selector, else `obj := recv.field`
					field := obj
					if !strings.Contains(obj, ".") {
						for _, s := range stmts {
							if a, ok := s.(*ast.AssignStmt); ok && len(a.Lhs) == 1 && len(a.Rhs) == 1 && src(fset, a.Lhs[0]) == obj {
								if _, ok := a.Rhs[0].(*ast.SelectorExpr); ok {
									field = src(fset, a.Rhs[0])
								}
							}
						}
					}
					fact := closeFact{name: pkg + "." + recvT + ".Close", putLast: true}
					for i, s := range stmts {
						if isNilAssign(fset, s, field) {
							fact.forgets = true
							continue
						}
						if i > putIdx && (mentions(fset, s, obj) || mentions(fset, s, field)) {
							fact.putLast = false
						}
						if i < putIdx {
							ast.Inspect(s, func(n ast.Node) bool {
								if c, ok := n.(*ast.CallExpr); ok {
									if sel, ok := c.Fun.(*ast.SelectorExpr); ok && sel.Sel.Name == "Reset" {
										if x := src(fset, sel.X); x == obj || x == field {
											fact.resetFirst = true
										}
									}
								}
								return true
							})
						}
					}
					facts = append(facts, fact)
				}
			}
		}
	}
	sort.Slice(facts, func(i, j int) bool { return facts[i].name < facts[j].name })
	if len(facts) < 8 {
		return fmt.Errorf("expected the Close methods of 4 readers and 4 writers, found %d", len(facts))
	}
	var out strings.Builder
	out.WriteString("-- GENERATED by /verif/go/extract (closeorder) from /repo/compress/{gzip,snappy,lz4,zstd}/*.go — do not edit\n")
	out.WriteString("namespace KV.Gen.CodecClose\n")
	out.WriteString("/-- (method, Put is the last statement touching the object, the wrapper forgets the object, Reset precedes Put) -/\n")
	out.WriteString("def closeFacts : List (String × Bool × Bool × Bool) := [\n")
	for i, f := range facts {
		sep := ","
		if i == len(facts)-1 {
			sep = ""
		}
		fmt.Fprintf(&out, "  (%q, %v, %v, %v)%s\n", f.name, f.putLast, f.forgets, f.resetFirst, sep)
	}
	out.WriteString("]\nend KV.Gen.CodecClose\n")
	return os.WriteFile(filepath.Join(root, "lean", "KafkaVerif", "Gen", "CodecClose.lean"), []byte(out.String()), 0o644)
}
