package main

// Extractor "closeorder": statement-order facts about the Close methods of the pooled codec wrappers
// (compress/{gzip,snappy,lz4,zstd}: types reader / writer) → lean/KafkaVerif/Gen/CodecClose.lean.
// For every Close method that hands an object to a sync.Pool:
//   putLast   — no statement after the `….Put(obj)` call mentions the object again (other than `field = nil`):
//               Put is the LAST touch, so nobody can be handed an object that its previous user still resets
//   forgets   — the wrapper forgets the object (`w.field = nil`), which makes a second Close a no-op
//   resetFirst— a Reset(…) of the object precedes the Put (nothing of the finished stream is retained)
// Props/C16.lean proves that every extracted method has all three; the pool protocol theorems assume exactly that.

import (
	"bytes"
	"fmt"
	"go/ast"
	"go/parser"
	"go/printer"
	"go/token"
	"os"
	"path/filepath"
	"regexp"
	"sort"
	"strings"
)

func init() { extractors["closeorder"] = extractCloseOrder }

func src(fset *token.FileSet, n ast.Node) string {
	var b bytes.Buffer
	printer.Fprint(&b, fset, n)
	return b.String()
}

// flatten returns the statements of a block in source order, descending into if / block bodies.
func flatten(stmts []ast.Stmt) (out []ast.Stmt) {
	for _, s := range stmts {
		switch x := s.(type) {
		case *ast.IfStmt:
			if x.Init != nil {
				out = append(out, x.Init)
			}
			out = append(out, flatten(x.Body.List)...)
			if x.Else != nil {
				if b, ok := x.Else.(*ast.BlockStmt); ok {
					out = append(out, flatten(b.List)...)
				} else {
					out = append(out, flatten([]ast.Stmt{x.Else})...)
				}
			}
		case *ast.BlockStmt:
			out = append(out, flatten(x.List)...)
		default:
			out = append(out, s)
		}
	}
	return
}

type closeFact struct {
	name                         string
	putLast, forgets, resetFirst bool
}

var putRe = regexp.MustCompile(`\.Put\((.+)\)\s*$`)

func word(x string) *regexp.Regexp {
	return regexp.MustCompile(`(^|[^A-Za-z0-9_.])` + regexp.QuoteMeta(x) + `($|[^A-Za-z0-9_])`)
}

// lines renders the flattened statements of a function body as text, inlining (one level, textually, parameters and
// receiver replaced by the argument expressions) calls to functions / methods of the same package whose body
// contains a pool Put — so that `release(z)` / `w.release()` helpers extracted from Close are seen through.
func lines(fset *token.FileSet, body *ast.BlockStmt, decls map[string]*ast.FuncDecl, depth int) []string {
	var out []string
	for _, st := range flatten(body.List) {
		var call *ast.CallExpr
		if es, ok := st.(*ast.ExprStmt); ok {
			call, _ = es.X.(*ast.CallExpr)
		}
		if call != nil && depth < 2 {
			name, recvArg := "", ""
			switch f := call.Fun.(type) {
			case *ast.Ident:
				name = f.Name
			case *ast.SelectorExpr:
				name, recvArg = f.Sel.Name, src(fset, f.X)
			}
			if d, ok := decls[name]; ok && d.Body != nil && name != "Put" {
				inner := lines(fset, d.Body, decls, depth+1)
				hasPut := false
				for _, l := range inner {
					if putRe.MatchString(l) {
						hasPut = true
					}
				}
				if hasPut {
					subst := map[string]string{}
					if d.Recv != nil && len(d.Recv.List[0].Names) > 0 && recvArg != "" {
						subst[d.Recv.List[0].Names[0].Name] = recvArg
					}
					k := 0
					for _, fld := range d.Type.Params.List {
						for _, n := range fld.Names {
							if k < len(call.Args) {
								subst[n.Name] = src(fset, call.Args[k])
							}
							k++
						}
					}
					for _, l := range inner {
						for from, to := range subst {
							l = regexp.MustCompile(`(^|[^A-Za-z0-9_.])`+regexp.QuoteMeta(from)+`\b`).ReplaceAllString(l, "${1}"+to)
						}
						out = append(out, l)
					}
					continue
				}
			}
		}
		out = append(out, strings.Join(strings.Fields(src(fset, st)), " "))
	}
	return out
}

func extractCloseOrder(repo, root string) error {
	var facts []closeFact
	for _, pkg := range []string{"gzip", "snappy", "lz4", "zstd"} {
		dir := filepath.Join(repo, "compress", pkg)
		fset := token.NewFileSet()
		pkgs, err := parser.ParseDir(fset, dir, func(fi os.FileInfo) bool { return !strings.HasSuffix(fi.Name(), "_test.go") }, 0)
		if err != nil {
			return err
		}
		for _, p := range pkgs {
			decls := map[string]*ast.FuncDecl{}
			for _, f := range p.Files {
				for _, d := range f.Decls {
					if fd, ok := d.(*ast.FuncDecl); ok && fd.Name.Name != "Close" {
						decls[fd.Name.Name] = fd
					}
				}
			}
			for _, f := range p.Files {
				for _, d := range f.Decls {
					fd, ok := d.(*ast.FuncDecl)
					if !ok || fd.Name.Name != "Close" || fd.Recv == nil || fd.Body == nil {
						continue
					}
					recvT := strings.TrimPrefix(src(fset, fd.Recv.List[0].Type), "*")
					ls := lines(fset, fd.Body, decls, 0)
					putIdx, obj := -1, ""
					for i, l := range ls {
						if m := putRe.FindStringSubmatch(l); m != nil {
							putIdx, obj = i, m[1]
						}
					}
					if putIdx < 0 {
						continue // errorReader / errorWriter: no pool
					}
					// the wrapper field the object came from: obj itself if it is a selector, else `obj := recv.field`
					field := obj
					if !strings.Contains(obj, ".") {
						re := regexp.MustCompile(`^` + regexp.QuoteMeta(obj) + ` :?= ([A-Za-z_][A-Za-z0-9_]*\.[A-Za-z0-9_.]+)$`)
						for _, l := range ls {
							if m := re.FindStringSubmatch(l); m != nil {
								field = m[1]
							}
						}
					}
					fact := closeFact{name: pkg + "." + recvT + ".Close", putLast: true}
					objRe, fieldRe := word(obj), word(field)
					resetRe := regexp.MustCompile(`(^|[^A-Za-z0-9_.])(` + regexp.QuoteMeta(obj) + `|` + regexp.QuoteMeta(field) + `)\.Reset\(`)
					for i, l := range ls {
						if l == field+" = nil" {
							fact.forgets = true
							continue
						}
						if i > putIdx && (objRe.MatchString(l) || fieldRe.MatchString(l)) {
							fact.putLast = false
						}
						if i < putIdx && resetRe.MatchString(l) {
							fact.resetFirst = true
						}
					}
					facts = append(facts, fact)
				}
			}
		}
	}
	sort.Slice(facts, func(i, j int) bool { return facts[i].name < facts[j].name })
	if len(facts) < 8 {
		return fmt.Errorf("expected the Close methods of 4 readers and 4 writers, found %d", len(facts))
	}
	var out strings.Builder
	out.WriteString("-- GENERATED by /verif/go/extract (closeorder) from /repo/compress/{gzip,snappy,lz4,zstd}/*.go — do not edit\n")
	out.WriteString("namespace KV.Gen.CodecClose\n")
	out.WriteString("/-- (method, Put is the last statement touching the object, the wrapper forgets the object, Reset precedes Put) -/\n")
	out.WriteString("def closeFacts : List (String × Bool × Bool × Bool) := [\n")
	for i, f := range facts {
		sep := ","
		if i == len(facts)-1 {
			sep = ""
		}
		fmt.Fprintf(&out, "  (%q, %v, %v, %v)%s\n", f.name, f.putLast, f.forgets, f.resetFirst, sep)
	}
	out.WriteString("]\nend KV.Gen.CodecClose\n")
	return os.WriteFile(filepath.Join(root, "lean", "KafkaVerif", "Gen", "CodecClose.lean"), []byte(out.String()), 0o644)
}
