package main

// The retry loop of (*partitionWriter).writeBatch (go/ast): `for attempt, max := 0, …; attempt < max; attempt++ { …
// if <c1> { break } … if <c2> { break } }`.  The loop goes round again exactly when no break condition holds and the
// incremented counter is still below the bound.  Atoms: `err == nil` → ok, `isTemporary(err)` → temp,
// `isTransientNetworkError(err)` → trans.

import (
	"fmt"
	"go/ast"
	"go/parser"
	"go/token"
	"path/filepath"
	"strings"
)

func retryCond(e ast.Expr) (string, error) {
	switch x := e.(type) {
	case *ast.ParenExpr:
		return retryCond(x.X)
	case *ast.UnaryExpr:
		if x.Op == token.NOT {
			a, err := retryCond(x.X)
			if err != nil {
				return "", err
			}
			return "(!" + a + ")", nil
		}
	case *ast.BinaryExpr:
		if x.Op == token.LAND || x.Op == token.LOR {
			a, err := retryCond(x.X)
			if err != nil {
				return "", err
			}
			b, err := retryCond(x.Y)
			if err != nil {
				return "", err
			}
			op := " && "
			if x.Op == token.LOR {
				op = " || "
			}
			return "(" + a + op + b + ")", nil
		}
		if x.Op == token.EQL || x.Op == token.NEQ {
			if id, ok := x.Y.(*ast.Ident); ok && id.Name == "nil" {
				if _, ok := x.X.(*ast.Ident); ok { // some error variable
					if x.Op == token.EQL {
						return "ok", nil
					}
					return "(!ok)", nil
				}
			}
		}
	case *ast.CallExpr:
		if id, ok := x.Fun.(*ast.Ident); ok && len(x.Args) == 1 {
			switch id.Name {
			case "isTemporary":
				return "temp", nil
			case "isTransientNetworkError":
				return "trans", nil
			}
		}
	}
	return "", fmt.Errorf("unsupported break condition")
}

func extractRetry(repo string) (string, error) {
	fset := token.NewFileSet()
	f, err := parser.ParseFile(fset, filepath.Join(repo, "writer.go"), nil, 0)
	if err != nil {
		return "", err
	}
	fd := findFunc(f, "partitionWriter", "writeBatch")
	if fd == nil {
		return "", fmt.Errorf("writer.go: (*partitionWriter).writeBatch not found")
	}
	var loop *ast.ForStmt
	for _, st := range fd.Body.List {
		if fs, ok := st.(*ast.ForStmt); ok {
			loop = fs
			break
		}
	}
	if loop == nil {
		return "", fmt.Errorf("writeBatch: no for loop")
	}
	// header: <counter> < <bound>, <counter>++
	cond, ok := loop.Cond.(*ast.BinaryExpr)
	if !ok || cond.Op != token.LSS {
		return "", fmt.Errorf("writeBatch: loop condition is not `counter < bound`")
	}
	ctr, ok := cond.X.(*ast.Ident)
	if !ok {
		return "", fmt.Errorf("writeBatch: loop counter is not an identifier")
	}
	inc, ok := loop.Post.(*ast.IncDecStmt)
	if !ok || inc.Tok != token.INC {
		return "", fmt.Errorf("writeBatch: loop post statement is not counter++")
	}
	if id, ok := inc.X.(*ast.Ident); !ok || id.Name != ctr.Name {
		return "", fmt.Errorf("writeBatch: loop post statement increments another variable")
	}
	// the counter starts at 0 and the bound is maxAttempts()
	boundOK, startOK := false, false
	if as, ok := loop.Init.(*ast.AssignStmt); ok && len(as.Lhs) == len(as.Rhs) {
		for i, l := range as.Lhs {
			id, ok := l.(*ast.Ident)
			if !ok {
				continue
			}
			if id.Name == ctr.Name {
				if lit, ok := as.Rhs[i].(*ast.BasicLit); ok && lit.Value == "0" {
					startOK = true
				}
			}
			if b, ok := cond.Y.(*ast.Ident); ok && id.Name == b.Name {
				if call, ok := as.Rhs[i].(*ast.CallExpr); ok {
					if sel, ok := call.Fun.(*ast.SelectorExpr); ok && sel.Sel.Name == "maxAttempts" {
						boundOK = true
					}
				}
			}
		}
	}
	if !boundOK || !startOK {
		return "", fmt.Errorf("writeBatch: loop does not run the counter from 0 to maxAttempts()")
	}
	var breaks []string
	for _, st := range loop.Body.List {
		is, ok := st.(*ast.IfStmt)
		if !ok || len(is.Body.List) != 1 || is.Else != nil {
			continue
		}
		if br, ok := is.Body.List[0].(*ast.BranchStmt); ok && br.Tok == token.BREAK {
			c, err := retryCond(is.Cond)
			if err != nil {
				return "", fmt.Errorf("writeBatch: %v", err)
			}
			breaks = append(breaks, c)
		}
	}
	if len(breaks) == 0 {
		return "", fmt.Errorf("writeBatch: no `if … { break }` in the retry loop")
	}
	var neg []string
	for _, b := range breaks {
		neg = append(neg, "(!"+b+")")
	}
	var sb strings.Builder
	sb.WriteString("/-- writer.go (*partitionWriter).writeBatch: after attempt number `attempt` (counted from 0, bound `max` =\nmaxAttempts()) ended with an error for which ok / temp / trans say `err == nil` / isTemporary / isTransientNetworkError,\nthe loop makes another attempt exactly when this holds -/\n")
	sb.WriteString("def retryAgain (ok temp trans : Bool) (attempt max : Nat) : Bool :=\n  " + strings.Join(neg, " && ") + " && decide (attempt + 1 < max)\n\n")
	return sb.String(), nil
}
