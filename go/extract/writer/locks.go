package main

// Lock brackets of the Writer's event hooks (go/ast, syntactic): for every `verifEvent("Kind", …)` call in writer.go
// and for every hand-over of a batch to the queue (`….queue.Put(…)`, `….queue.Close()`), which mutexes are held at
// that point of the enclosing function.  The LTS theorems treat each event as atomic on the strength of the lock
// that brackets it; this table is re-extracted on every run and checked by `decide` against the expected brackets.
// Receivers are canonicalised to their type name (`ptw.mutex` → `partitionWriter.mutex`), so renaming a receiver or a
// local does not change the table.

import (
	"fmt"
	"go/ast"
	"go/parser"
	"go/token"
	"path/filepath"
	"sort"
	"strconv"
	"strings"
)

// callEdge: inside function `from`, a call of a function / method named `to` with these mutexes held
type callEdge struct {
	from, to string
	held     []string
}

type lockSite struct {
	what  string // hook kind, or call:queue.Put / call:queue.Close
	fn    string
	locks []string
}

func recvTypeName(fd *ast.FuncDecl) (name, typ string) {
	if fd.Recv == nil || len(fd.Recv.List) != 1 {
		return "", ""
	}
	t := fd.Recv.List[0].Type
	if s, ok := t.(*ast.StarExpr); ok {
		t = s.X
	}
	if id, ok := t.(*ast.Ident); ok {
		typ = id.Name
	}
	if len(fd.Recv.List[0].Names) == 1 {
		name = fd.Recv.List[0].Names[0].Name
	}
	return
}

func selString(e ast.Expr, recv, typ string) string {
	switch x := e.(type) {
	case *ast.Ident:
		if x.Name == recv && recv != "" {
			return typ
		}
		return x.Name
	case *ast.SelectorExpr:
		return selString(x.X, recv, typ) + "." + x.Sel.Name
	}
	return "?"
}

func extractLocks(repo string) ([]lockSite, error) {
	fset := token.NewFileSet()
	f, err := parser.ParseFile(fset, filepath.Join(repo, "writer.go"), nil, 0)
	if err != nil {
		return nil, err
	}
	var sites []lockSite
	var edges []callEdge
	declared := map[string]string{} // bare function / method name → qualified name (names are unique enough in writer.go)
	for _, d := range f.Decls {
		if fd, ok := d.(*ast.FuncDecl); ok {
			_, typ := recvTypeName(fd)
			q := fd.Name.Name
			if typ != "" {
				q = typ + "." + q
			}
			key := fd.Name.Name
			if typ != "" {
				key = "." + key // methods are called through a selector, plain functions by name (`close(ch)` is the builtin)
			}
			if _, dup := declared[key]; dup {
				declared[key] = "" // ambiguous: never inherit through it
			} else {
				declared[key] = q
			}
		}
	}
	for _, d := range f.Decls {
		fd, ok := d.(*ast.FuncDecl)
		if !ok || fd.Body == nil {
			continue
		}
		recv, typ := recvTypeName(fd)
		fname := fd.Name.Name
		if typ != "" {
			fname = typ + "." + fname
		}
		var walkBlock func(stmts []ast.Stmt, held []string)
		var walkStmt func(st ast.Stmt, held []string) []string
		record := func(what string, held []string) {
			l := append([]string(nil), held...)
			sort.Strings(l)
			sites = append(sites, lockSite{what, fname, l})
		}
		visitCalls := func(n ast.Node, held []string) {
			ast.Inspect(n, func(m ast.Node) bool {
				if _, isFn := m.(*ast.FuncLit); isFn {
					return false // a closure runs later, under other locks
				}
				call, ok := m.(*ast.CallExpr)
				if !ok {
					return true
				}
				callee := ""
				switch fn := call.Fun.(type) {
				case *ast.Ident:
					callee = fn.Name
				case *ast.SelectorExpr:
					callee = "." + fn.Sel.Name
				}
				if q := declared[callee]; q != "" && callee != ".Put" && callee != ".Close" && callee != ".Get" {
					edges = append(edges, callEdge{fname, q, append([]string(nil), held...)})
				}
				if id, ok := call.Fun.(*ast.Ident); ok && id.Name == "verifEvent" && len(call.Args) > 0 {
					if lit, ok := call.Args[0].(*ast.BasicLit); ok {
						k, _ := strconv.Unquote(lit.Value)
						record(k, held)
					}
				}
				if sel, ok := call.Fun.(*ast.SelectorExpr); ok && (sel.Sel.Name == "Put" || sel.Sel.Name == "Close") {
					if inner, ok := sel.X.(*ast.SelectorExpr); ok && inner.Sel.Name == "queue" {
						record("call:queue."+sel.Sel.Name, held)
					}
				}
				return true
			})
		}
		lockCall := func(st ast.Stmt) (string, string) { // (mutex, "Lock"/"Unlock")
			es, ok := st.(*ast.ExprStmt)
			if !ok {
				return "", ""
			}
			call, ok := es.X.(*ast.CallExpr)
			if !ok {
				return "", ""
			}
			sel, ok := call.Fun.(*ast.SelectorExpr)
			if !ok || (sel.Sel.Name != "Lock" && sel.Sel.Name != "Unlock") {
				return "", ""
			}
			return selString(sel.X, recv, typ), sel.Sel.Name
		}
		walkStmt = func(st ast.Stmt, held []string) []string {
			if m, op := lockCall(st); op == "Lock" {
				return append(append([]string(nil), held...), m)
			} else if op == "Unlock" {
				var out []string
				for _, h := range held {
					if h != m {
						out = append(out, h)
					}
				}
				return out
			}
			switch x := st.(type) {
			case *ast.DeferStmt:
				return held // `defer m.Unlock()` keeps m to the end of the function; other defers run at return
			case *ast.BlockStmt:
				walkBlock(x.List, held)
			case *ast.IfStmt:
				if x.Init != nil {
					visitCalls(x.Init, held)
				}
				visitCalls(x.Cond, held)
				walkBlock(x.Body.List, held)
				if x.Else != nil {
					walkStmt(x.Else, held)
				}
			case *ast.ForStmt:
				walkBlock(x.Body.List, held)
			case *ast.RangeStmt:
				walkBlock(x.Body.List, held)
			case *ast.SwitchStmt:
				walkBlock(x.Body.List, held)
			case *ast.SelectStmt:
				walkBlock(x.Body.List, held)
			case *ast.CaseClause:
				walkBlock(x.Body, held)
			case *ast.CommClause:
				walkBlock(x.Body, held)
			case *ast.LabeledStmt:
				return walkStmt(x.Stmt, held)
			case *ast.GoStmt:
				// a new goroutine holds nothing
			default:
				visitCalls(st, held)
			}
			return held
		}
		walkBlock = func(stmts []ast.Stmt, held []string) {
			for _, st := range stmts {
				held = walkStmt(st, held)
			}
		}
		walkBlock(fd.Body.List, nil)
	}
	// locks inherited from the callers: a helper extracted from a critical section is still inside it when every call
	// of the helper in this file happens with the lock held (callers' own inherited locks included; 3 rounds suffice)
	entry := map[string][]string{}
	for round := 0; round < 3; round++ {
		next := map[string][]string{}
		seen := map[string]bool{}
		for _, e := range edges {
			h := append(append([]string(nil), e.held...), entry[e.from]...)
			if !seen[e.to] {
				seen[e.to] = true
				next[e.to] = h
				continue
			}
			var both []string
			for _, x := range next[e.to] {
				for _, y := range h {
					if x == y {
						both = append(both, x)
						break
					}
				}
			}
			next[e.to] = both
		}
		entry = next
	}
	for i := range sites {
		have := map[string]bool{}
		for _, l := range sites[i].locks {
			have[l] = true
		}
		for _, l := range entry[sites[i].fn] {
			if !have[l] {
				have[l] = true
				sites[i].locks = append(sites[i].locks, l)
			}
		}
		sort.Strings(sites[i].locks)
	}
	sort.SliceStable(sites, func(i, j int) bool {
		if sites[i].what != sites[j].what {
			return sites[i].what < sites[j].what
		}
		return sites[i].fn < sites[j].fn
	})
	return sites, nil
}

func locksLean(sites []lockSite) string {
	var sb strings.Builder
	sb.WriteString("/-- writer.go: for every event hook and every hand-over to the batch queue, the enclosing function and the\nmutexes syntactically held there (receivers shown by type name) -/\n")
	sb.WriteString("def hookLocks : List (String × String × List String) := [\n")
	for i, s := range sites {
		var ls []string
		for _, l := range s.locks {
			ls = append(ls, strconv.Quote(l))
		}
		sep := ","
		if i == len(sites)-1 {
			sep = ""
		}
		fmt.Fprintf(&sb, "  (%s, %s, [%s])%s\n", strconv.Quote(s.what), strconv.Quote(s.fn), strings.Join(ls, ", "), sep)
	}
	sb.WriteString("]\n\n")
	return sb.String()
}
