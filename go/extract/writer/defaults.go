package main

import (
	"fmt"
	"go/ast"
	"go/parser"
	"go/token"
	"path/filepath"
	"sort"
	"strings"
)

// piece_defaults translates the option accessors (*Writer).batchSize / batchBytes / maxAttempts
// (`if w.F > 0 { return w.F }; return LIT`) into the limit in force for a configured value (0 = unset).
func piece_defaults(ef, wf *ast.File) (string, error) {
	var sb strings.Builder
	for _, acc := range []struct{ fn, field, lean string }{
		{"batchSize", "BatchSize", "effBatchSize"},
		{"batchBytes", "BatchBytes", "effBatchBytes"},
		{"maxAttempts", "MaxAttempts", "effMaxAttempts"},
	} {
		fd := findFunc(wf, "Writer", acc.fn)
		if fd == nil || fd.Body == nil {
			return "", fmt.Errorf("writer.go: (*Writer).%s not found", acc.fn)
		}
		recv := ""
		if fd.Recv != nil && len(fd.Recv.List) == 1 && len(fd.Recv.List[0].Names) == 1 {
			recv = fd.Recv.List[0].Names[0].Name
		}
		isField := func(e ast.Expr) bool {
			for {
				if p, ok := e.(*ast.ParenExpr); ok {
					e = p.X
					continue
				}
				if c, ok := e.(*ast.CallExpr); ok && len(c.Args) == 1 { // a conversion such as int64(w.F)
					if _, ok := c.Fun.(*ast.Ident); ok {
						e = c.Args[0]
						continue
					}
				}
				break
			}
			s, ok := e.(*ast.SelectorExpr)
			if !ok || s.Sel.Name != acc.field {
				return false
			}
			id, ok := s.X.(*ast.Ident)
			return ok && id.Name == recv
		}
		var stmts []ast.Stmt
		for _, st := range fd.Body.List {
			if _, ok := st.(*ast.EmptyStmt); !ok {
				stmts = append(stmts, st)
			}
		}
		bad := fmt.Errorf("(*Writer).%s: not of the shape `if w.%s > 0 { return w.%s }; return <literal>`", acc.fn, acc.field, acc.field)
		if len(stmts) != 2 {
			return "", bad
		}
		is, ok := stmts[0].(*ast.IfStmt)
		if !ok || is.Init != nil || is.Else != nil || len(is.Body.List) != 1 {
			return "", bad
		}
		cond, ok := is.Cond.(*ast.BinaryExpr)
		if !ok || cond.Op != token.GTR || !isField(cond.X) {
			return "", bad
		}
		if z, ok := cond.Y.(*ast.BasicLit); !ok || z.Value != "0" {
			return "", bad
		}
		r1, ok := is.Body.List[0].(*ast.ReturnStmt)
		if !ok || len(r1.Results) != 1 || !isField(r1.Results[0]) {
			return "", bad
		}
		r2, ok := stmts[1].(*ast.ReturnStmt)
		if !ok || len(r2.Results) != 1 {
			return "", bad
		}
		lit, ok := intLit(r2.Results[0])
		if !ok {
			return "", bad
		}
		fmt.Fprintf(&sb, "/-- writer.go (*Writer).%s: the limit in force for a configured %s (0 = left unset) -/\n", acc.fn, acc.field)
		fmt.Fprintf(&sb, "def %s (n : Nat) : Nat := if n > 0 then n else %d\n\n", acc.lean, lit)
	}
	return sb.String(), nil
}

// piece_timerArm lists the functions of writer.go that arm the linger timer of a batch: a composite literal or an
// assignment setting a field named `timer`, or a call of Reset on a `.timer` selector.
func piece_timerArm(ef, wf *ast.File) (string, error) {
	sites := map[string]bool{}
	for _, d := range wf.Decls {
		fd, ok := d.(*ast.FuncDecl)
		if !ok || fd.Body == nil {
			continue
		}
		name := fd.Name.Name
		ast.Inspect(fd.Body, func(n ast.Node) bool {
			switch x := n.(type) {
			case *ast.KeyValueExpr:
				if id, ok := x.Key.(*ast.Ident); ok && id.Name == "timer" {
					sites[name] = true
				}
			case *ast.AssignStmt:
				for _, l := range x.Lhs {
					if s, ok := l.(*ast.SelectorExpr); ok && s.Sel.Name == "timer" {
						sites[name] = true
					}
				}
			case *ast.CallExpr:
				if s, ok := x.Fun.(*ast.SelectorExpr); ok && s.Sel.Name == "Reset" {
					if t, ok := s.X.(*ast.SelectorExpr); ok && t.Sel.Name == "timer" {
						sites[name] = true
					}
				}
			}
			return true
		})
	}
	var names []string
	for n := range sites {
		names = append(names, fmt.Sprintf("%q", n))
	}
	sort.Strings(names)
	return "/-- writer.go: the functions that arm the linger timer of a batch (set a `timer` field or call Reset on one) -/\n" +
		"def timerArmSites : List String := [" + strings.Join(names, ", ") + "]\n\n", nil
}

// piece_readRecord decides whether (*writerRecords).ReadRecord starts every record from a clean slate: either the
// reused `record` field is assigned a fresh composite literal that leaves Key and Value nil, or both Key and Value are
// explicitly assigned nil somewhere in the function (before / instead of the conditional assignments).
func piece_readRecord(ef, wf *ast.File) (string, error) {
	fd := findFunc(wf, "writerRecords", "ReadRecord")
	if fd == nil || fd.Body == nil {
		return "", fmt.Errorf("writer.go: (*writerRecords).ReadRecord not found")
	}
	isNil := func(e ast.Expr) bool {
		id, ok := e.(*ast.Ident)
		return ok && id.Name == "nil"
	}
	fresh := false
	nilKey, nilValue := false, false
	ast.Inspect(fd.Body, func(n ast.Node) bool {
		as, ok := n.(*ast.AssignStmt)
		if !ok || len(as.Lhs) != 1 || len(as.Rhs) != 1 {
			return true
		}
		sel, ok := as.Lhs[0].(*ast.SelectorExpr)
		if !ok {
			return true
		}
		switch sel.Sel.Name {
		case "record":
			rhs := as.Rhs[0]
			if u, ok := rhs.(*ast.UnaryExpr); ok {
				rhs = u.X
			}
			if cl, ok := rhs.(*ast.CompositeLit); ok {
				clean := true
				for _, el := range cl.Elts {
					kv, ok := el.(*ast.KeyValueExpr)
					if !ok { // positional literal: cannot tell
						clean = false
						continue
					}
					if id, ok := kv.Key.(*ast.Ident); ok && (id.Name == "Key" || id.Name == "Value") && !isNil(kv.Value) {
						clean = false
					}
				}
				if clean {
					fresh = true
				}
			}
		case "Key":
			if inner, ok := sel.X.(*ast.SelectorExpr); ok && inner.Sel.Name == "record" && isNil(as.Rhs[0]) {
				nilKey = true
			}
		case "Value":
			if inner, ok := sel.X.(*ast.SelectorExpr); ok && inner.Sel.Name == "record" && isNil(as.Rhs[0]) {
				nilValue = true
			}
		}
		return true
	})
	v := "false"
	if fresh || (nilKey && nilValue) {
		v = "true"
	}
	return "/-- writer.go (*writerRecords).ReadRecord: every record starts with Key = Value = nil (the reused Record is\n" +
		"replaced by a fresh literal, or both fields are explicitly set to nil) -/\n" +
		"def readRecordResets : Bool := " + v + "\n\n", nil
}

// piece_roundTripDeadline reads transport.go (*conn).roundTrip: which deadline setters are applied to the connection
// when the request context carries a deadline.  The request is cut off at the socket on the WRITE side as well exactly
// when SetDeadline (both directions) or SetWriteDeadline is among them.
func piece_roundTripDeadline(repo string) (string, error) {
	fset := token.NewFileSet()
	tf, err := parser.ParseFile(fset, filepath.Join(repo, "transport.go"), nil, 0)
	if err != nil {
		return "", err
	}
	fd := findFunc(tf, "conn", "roundTrip")
	if fd == nil || fd.Body == nil {
		return "", fmt.Errorf("transport.go: (*conn).roundTrip not found")
	}
	setters := map[string]bool{}
	found := false
	ast.Inspect(fd.Body, func(n ast.Node) bool {
		is, ok := n.(*ast.IfStmt)
		if !ok || is.Init == nil {
			return true
		}
		// if deadline, ok := ctx.Deadline(); ok { … }
		usesDeadline := false
		ast.Inspect(is.Init, func(m ast.Node) bool {
			if c, ok := m.(*ast.CallExpr); ok {
				if s, ok := c.Fun.(*ast.SelectorExpr); ok && s.Sel.Name == "Deadline" {
					usesDeadline = true
				}
			}
			return true
		})
		if !usesDeadline {
			return true
		}
		found = true
		for _, st := range is.Body.List {
			es, ok := st.(*ast.ExprStmt) // the immediate calls, not the deferred resets
			if !ok {
				continue
			}
			if c, ok := es.X.(*ast.CallExpr); ok {
				if s, ok := c.Fun.(*ast.SelectorExpr); ok && strings.HasPrefix(s.Sel.Name, "Set") && strings.HasSuffix(s.Sel.Name, "Deadline") {
					setters[s.Sel.Name] = true
				}
			}
		}
		return true
	})
	if !found {
		return "", fmt.Errorf("transport.go: (*conn).roundTrip: no `if deadline, ok := ctx.Deadline(); ok {…}` found")
	}
	var names []string
	for n := range setters {
		names = append(names, fmt.Sprintf("%q", n))
	}
	sort.Strings(names)
	return "/-- transport.go (*conn).roundTrip: the deadline setters applied to the connection for a request whose context has a\n" +
		"deadline (the Writer's WriteTimeout) -/\n" +
		"def roundTripDeadlineSetters : List String := [" + strings.Join(names, ", ") + "]\n\n", nil
}

// piece_newWriter reads the deprecated constructor NewWriter(config WriterConfig): the composite literal of the Writer
// it returns, field by field — which WriterConfig field (through conversions such as int64(…) / RequiredAcks(…)) each
// Writer field is taken from.  Fields set from something else than `config.X` are listed with "?".
func piece_newWriter(ef, wf *ast.File) (string, error) {
	var fd *ast.FuncDecl
	for _, d := range wf.Decls {
		if f, ok := d.(*ast.FuncDecl); ok && f.Recv == nil && f.Name.Name == "NewWriter" {
			fd = f
		}
	}
	if fd == nil || fd.Body == nil || fd.Type.Params == nil || len(fd.Type.Params.List) != 1 || len(fd.Type.Params.List[0].Names) != 1 {
		return "", fmt.Errorf("writer.go: NewWriter(config WriterConfig) not found")
	}
	param := fd.Type.Params.List[0].Names[0].Name
	var lit *ast.CompositeLit
	ast.Inspect(fd.Body, func(n ast.Node) bool {
		if cl, ok := n.(*ast.CompositeLit); ok {
			if id, ok := cl.Type.(*ast.Ident); ok && id.Name == "Writer" {
				lit = cl
			}
		}
		return true
	})
	if lit == nil {
		return "", fmt.Errorf("NewWriter: no Writer{…} literal found")
	}
	var source func(e ast.Expr) string
	source = func(e ast.Expr) string {
		switch x := e.(type) {
		case *ast.ParenExpr:
			return source(x.X)
		case *ast.CallExpr: // a conversion: T(config.X)
			if len(x.Args) == 1 {
				if _, ok := x.Fun.(*ast.Ident); ok {
					return source(x.Args[0])
				}
			}
		case *ast.SelectorExpr:
			if id, ok := x.X.(*ast.Ident); ok && id.Name == param {
				return x.Sel.Name
			}
		}
		return "?"
	}
	var rows []string
	for _, el := range lit.Elts {
		kv, ok := el.(*ast.KeyValueExpr)
		if !ok {
			return "", fmt.Errorf("NewWriter: positional Writer literal")
		}
		k, ok := kv.Key.(*ast.Ident)
		if !ok {
			continue
		}
		rows = append(rows, fmt.Sprintf("(%q, %q)", k.Name, source(kv.Value)))
	}
	sort.Strings(rows)
	return "/-- writer.go NewWriter(config): Writer field ↦ the WriterConfig field it is taken from (\"?\" = something else) -/\n" +
		"def newWriterMap : List (String × String) := [" + strings.Join(rows, ", ") + "]\n\n", nil
}

// piece_completeOrder reads (*writeBatch).complete: the batch's error must be stored before the done channel is closed
// (the callers blocked on done read the error as soon as they wake up).
func piece_completeOrder(ef, wf *ast.File) (string, error) {
	fd := findFunc(wf, "writeBatch", "complete")
	if fd == nil || fd.Body == nil {
		return "", fmt.Errorf("writer.go: (*writeBatch).complete not found")
	}
	errPos, closePos := token.NoPos, token.NoPos
	ast.Inspect(fd.Body, func(n ast.Node) bool {
		switch x := n.(type) {
		case *ast.AssignStmt:
			for _, l := range x.Lhs {
				if s, ok := l.(*ast.SelectorExpr); ok && s.Sel.Name == "err" && errPos == token.NoPos {
					errPos = x.Pos()
				}
			}
		case *ast.CallExpr:
			if id, ok := x.Fun.(*ast.Ident); ok && id.Name == "close" && len(x.Args) == 1 {
				if s, ok := x.Args[0].(*ast.SelectorExpr); ok && s.Sel.Name == "done" && closePos == token.NoPos {
					closePos = x.Pos()
				}
			}
		}
		return true
	})
	if errPos == token.NoPos || closePos == token.NoPos {
		return "", fmt.Errorf("(*writeBatch).complete: no `b.err = …` / `close(b.done)` found")
	}
	v := "false"
	if errPos < closePos {
		v = "true"
	}
	return "/-- writer.go (*writeBatch).complete stores the batch's error before it closes the done channel -/\n" +
		"def completeStoresErrFirst : Bool := " + v + "\n\n", nil
}
