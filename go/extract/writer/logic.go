package main

// Translation of the small pieces of decision logic the Writer theorems rely on (go/ast → Lean):
//   error.go   makeError                  when does an error code become a nil error
//   writer.go  (*Writer).chooseTopic      writer-level / message-level topic rules
//   writer.go  (*writeBatch).full, add    when a batch is full / refuses a message
//   writer.go  (*Writer).WriteMessages    the up-front size validation
// The translator canonicalises identifiers (receiver, parameters by position, single-assignment locals are inlined),
// so renaming a local or a parameter does not change the output; it compares shapes, not names.

import (
	"fmt"
	"go/ast"
	"go/parser"
	"go/token"
	"path/filepath"
	"strings"
)

type scope struct {
	recv   string
	params map[string]int
	locals map[string]ast.Expr // single-assignment locals: name → defining expression
	names  map[string]string   // canonical term → Lean variable
}

func newScope(fd *ast.FuncDecl, names map[string]string) *scope {
	sc := &scope{params: map[string]int{}, locals: map[string]ast.Expr{}, names: names}
	if fd.Recv != nil && len(fd.Recv.List) == 1 && len(fd.Recv.List[0].Names) == 1 {
		sc.recv = fd.Recv.List[0].Names[0].Name
	}
	i := 0
	for _, f := range fd.Type.Params.List {
		for _, n := range f.Names {
			sc.params[n.Name] = i
			i++
		}
	}
	// locals defined exactly once by `x := e`
	count := map[string]int{}
	ast.Inspect(fd.Body, func(n ast.Node) bool {
		if as, ok := n.(*ast.AssignStmt); ok {
			for k, l := range as.Lhs {
				if id, ok := l.(*ast.Ident); ok && len(as.Lhs) == len(as.Rhs) {
					count[id.Name]++
					if as.Tok == token.DEFINE {
						sc.locals[id.Name] = as.Rhs[k]
					}
				} else if id, ok := l.(*ast.Ident); ok {
					count[id.Name] += 2
				}
			}
		}
		return true
	})
	for n, c := range count {
		if c != 1 {
			delete(sc.locals, n)
		}
	}
	return sc
}

var conversions = map[string]bool{"int": true, "int32": true, "int64": true, "uint32": true, "uint64": true}

// canon renders a term canonically: recv.f, p<i>, p<i>.f, x.m(), literals; conversions are dropped, locals inlined.
func (sc *scope) canon(e ast.Expr) (string, error) {
	switch x := e.(type) {
	case *ast.ParenExpr:
		return sc.canon(x.X)
	case *ast.BasicLit:
		return x.Value, nil
	case *ast.Ident:
		if x.Name == sc.recv {
			return "recv", nil
		}
		if i, ok := sc.params[x.Name]; ok {
			return fmt.Sprintf("p%d", i), nil
		}
		if d, ok := sc.locals[x.Name]; ok {
			return sc.canon(d)
		}
		return "", fmt.Errorf("identifier %s is neither receiver, parameter nor single-assignment local", x.Name)
	case *ast.SelectorExpr:
		b, err := sc.canon(x.X)
		if err != nil {
			return "", err
		}
		return b + "." + x.Sel.Name, nil
	case *ast.IndexExpr:
		b, err := sc.canon(x.X)
		if err != nil {
			return "", err
		}
		return b + "[]", nil // element of a slice: the index is abstracted (the rule holds for every element)
	case *ast.CallExpr:
		if id, ok := x.Fun.(*ast.Ident); ok && conversions[id.Name] && len(x.Args) == 1 {
			return sc.canon(x.Args[0])
		}
		if len(x.Args) == 0 {
			f, err := sc.canon(x.Fun)
			if err != nil {
				return "", err
			}
			return f + "()", nil
		}
	case *ast.BinaryExpr:
		if x.Op == token.ADD {
			a, err := sc.canon(x.X)
			if err != nil {
				return "", err
			}
			b, err := sc.canon(x.Y)
			if err != nil {
				return "", err
			}
			return a + "+" + b, nil
		}
	}
	return "", fmt.Errorf("unsupported term %T", e)
}

func (sc *scope) term(e ast.Expr) (string, error) {
	if b, ok := e.(*ast.BinaryExpr); ok && b.Op == token.ADD {
		x, err := sc.term(b.X)
		if err != nil {
			return "", err
		}
		y, err := sc.term(b.Y)
		if err != nil {
			return "", err
		}
		return "(" + x + " + " + y + ")", nil
	}
	if p, ok := e.(*ast.ParenExpr); ok {
		return sc.term(p.X)
	}
	if c, ok := e.(*ast.CallExpr); ok {
		if id, ok := c.Fun.(*ast.Ident); ok && conversions[id.Name] && len(c.Args) == 1 {
			return sc.term(c.Args[0])
		}
	}
	if id, ok := e.(*ast.Ident); ok {
		if d, ok := sc.locals[id.Name]; ok {
			if _, isParam := sc.params[id.Name]; !isParam && id.Name != sc.recv {
				if c, err := sc.canon(d); err == nil {
					if v, ok := sc.names[c]; ok {
						return v, nil
					}
				}
				return sc.term(d)
			}
		}
	}
	c, err := sc.canon(e)
	if err != nil {
		return "", err
	}
	if v, ok := sc.names[c]; ok {
		return v, nil
	}
	if lit, ok := e.(*ast.BasicLit); ok {
		return lit.Value, nil
	}
	return "", fmt.Errorf("term %s has no Lean name", c)
}

var cmpOps = map[token.Token]string{token.EQL: "==", token.NEQ: "!=", token.LSS: "<", token.LEQ: "≤", token.GTR: ">", token.GEQ: "≥"}

// boolean expression → Lean Bool
func (sc *scope) boolean(e ast.Expr, strings_ bool) (string, error) {
	switch x := e.(type) {
	case *ast.ParenExpr:
		return sc.boolean(x.X, strings_)
	case *ast.BinaryExpr:
		switch x.Op {
		case token.LAND, token.LOR:
			a, err := sc.boolean(x.X, strings_)
			if err != nil {
				return "", err
			}
			b, err := sc.boolean(x.Y, strings_)
			if err != nil {
				return "", err
			}
			op := "&&"
			if x.Op == token.LOR {
				op = "||"
			}
			return "(" + a + " " + op + " " + b + ")", nil
		}
		if op, ok := cmpOps[x.Op]; ok {
			a, err := sc.term(x.X)
			if err != nil {
				return "", err
			}
			b, err := sc.term(x.Y)
			if err != nil {
				return "", err
			}
			if strings_ || x.Op == token.EQL || x.Op == token.NEQ {
				return "(" + a + " " + op + " " + b + ")", nil
			}
			return "decide (" + a + " " + op + " " + b + ")", nil
		}
	}
	return "", fmt.Errorf("unsupported condition %T", e)
}

func findFunc(f *ast.File, recvType, name string) *ast.FuncDecl {
	for _, d := range f.Decls {
		fd, ok := d.(*ast.FuncDecl)
		if !ok || fd.Name.Name != name || fd.Body == nil {
			continue
		}
		rt := ""
		if fd.Recv != nil && len(fd.Recv.List) == 1 {
			t := fd.Recv.List[0].Type
			if s, ok := t.(*ast.StarExpr); ok {
				t = s.X
			}
			if id, ok := t.(*ast.Ident); ok {
				rt = id.Name
			}
		}
		if rt == recvType {
			return fd
		}
	}
	return nil
}

func returnsNilFirst(s ast.Stmt) bool { // `return nil` or `return "", err` / `return false`
	r, ok := s.(*ast.ReturnStmt)
	if !ok || len(r.Results) == 0 {
		return false
	}
	id, ok := r.Results[0].(*ast.Ident)
	return ok && id.Name == "nil"
}

// extractLogic returns Lean definitions (namespace KV.Gen) for the decision logic listed at the top.
func piece_makeErrorNil(ef, wf *ast.File) (string, error) {
	var sb strings.Builder
	var fd *ast.FuncDecl
	var sc *scope
	var err error
	done := false
	_, _, _, _ = fd, sc, err, done
	// ---- makeError: the condition guarding the first `return nil`
	fd = findFunc(ef, "", "makeError")
	if fd == nil {
		return "", fmt.Errorf("error.go: makeError not found")
	}
	sc = newScope(fd, map[string]string{"p0": "code"})
	done = false
	for _, st := range fd.Body.List {
		if is, ok := st.(*ast.IfStmt); ok && len(is.Body.List) == 1 && returnsNilFirst(is.Body.List[0]) {
			c, err := sc.boolean(is.Cond, false)
			if err != nil {
				return "", fmt.Errorf("makeError: %v", err)
			}
			sb.WriteString("/-- error.go makeError(code, message) returns a nil error exactly when this holds -/\n")
			sb.WriteString("def makeErrorNil (code : Int) : Bool := " + c + "\n\n")
			done = true
			break
		}
	}
	if !done {
		return "", fmt.Errorf("makeError: no `if … { return nil }` found")
	}

	return sb.String(), nil
}

func piece_chooseTopic(ef, wf *ast.File) (string, error) {
	var sb strings.Builder
	var fd *ast.FuncDecl
	var sc *scope
	var err error
	done := false
	_, _, _, _ = fd, sc, err, done
	// ---- chooseTopic: if / else-if chain of error returns, then `if c { return X, nil }`, then `return Y, nil`
	fd = findFunc(wf, "Writer", "chooseTopic")
	if fd == nil {
		return "", fmt.Errorf("writer.go: (*Writer).chooseTopic not found")
	}
	sc = newScope(fd, map[string]string{"recv.Topic": "w", "p0.Topic": "m"})
	var chain []string
	closed := false
	var walk func(st ast.Stmt) error
	result := func(r *ast.ReturnStmt) (string, error) {
		if len(r.Results) != 2 {
			return "", fmt.Errorf("chooseTopic: return with %d results", len(r.Results))
		}
		if id, ok := r.Results[1].(*ast.Ident); ok && id.Name == "nil" {
			t, err := sc.term(r.Results[0])
			if err != nil {
				return "", err
			}
			return "some " + t, nil
		}
		return "none", nil // an error is returned
	}
	walk = func(st ast.Stmt) error {
		switch x := st.(type) {
		case *ast.IfStmt:
			c, err := sc.boolean(x.Cond, true)
			if err != nil {
				return fmt.Errorf("chooseTopic: %v", err)
			}
			if len(x.Body.List) != 1 {
				return fmt.Errorf("chooseTopic: branch is not a single return")
			}
			r, ok := x.Body.List[0].(*ast.ReturnStmt)
			if !ok {
				return fmt.Errorf("chooseTopic: branch is not a return")
			}
			v, err := result(r)
			if err != nil {
				return err
			}
			chain = append(chain, "if "+c+" then "+v+" else")
			if x.Else != nil {
				if b, ok := x.Else.(*ast.BlockStmt); ok {
					for _, s := range b.List {
						if err := walk(s); err != nil {
							return err
						}
					}
					return nil
				}
				return walk(x.Else)
			}
		case *ast.ReturnStmt:
			v, err := result(x)
			if err != nil {
				return err
			}
			chain = append(chain, v)
			closed = true
		default:
			return fmt.Errorf("chooseTopic: unsupported statement %T", st)
		}
		return nil
	}
	for _, st := range fd.Body.List {
		if closed {
			break
		}
		if err := walk(st); err != nil {
			return "", err
		}
	}
	if !closed {
		return "", fmt.Errorf("chooseTopic: no final return")
	}
	sb.WriteString("/-- writer.go (*Writer).chooseTopic: w = Writer.Topic, m = Message.Topic; none = an error is returned -/\n")
	sb.WriteString("def chooseTopic (w m : String) : Option String :=\n  " + strings.Join(chain, "\n  ") + "\n\n")

	return sb.String(), nil
}

func piece_batchFull(ef, wf *ast.File) (string, error) {
	var sb strings.Builder
	var fd *ast.FuncDecl
	var sc *scope
	var err error
	done := false
	_, _, _, _ = fd, sc, err, done
	// ---- (*writeBatch).full
	fd = findFunc(wf, "writeBatch", "full")
	if fd == nil || len(fd.Body.List) != 1 {
		return "", fmt.Errorf("writer.go: (*writeBatch).full is not a single return")
	}
	r, ok := fd.Body.List[0].(*ast.ReturnStmt)
	if !ok || len(r.Results) != 1 {
		return "", fmt.Errorf("writer.go: (*writeBatch).full is not a single return")
	}
	sc = newScope(fd, map[string]string{"recv.size": "size", "recv.bytes": "bytes", "p0": "maxSize", "p1": "maxBytes"})
	c, err := sc.boolean(r.Results[0], false)
	if err != nil {
		return "", fmt.Errorf("full: %v", err)
	}
	sb.WriteString("/-- writer.go (*writeBatch).full -/\n")
	sb.WriteString("def batchFull (size bytes maxSize maxBytes : Nat) : Bool := " + c + "\n\n")

	return sb.String(), nil
}

func piece_batchNoFit(ef, wf *ast.File) (string, error) {
	var sb strings.Builder
	var fd *ast.FuncDecl
	var sc *scope
	var err error
	done := false
	_, _, _, _ = fd, sc, err, done
	// ---- (*writeBatch).add: the condition guarding `return false`
	fd = findFunc(wf, "writeBatch", "add")
	if fd == nil {
		return "", fmt.Errorf("writer.go: (*writeBatch).add not found")
	}
	sc = newScope(fd, map[string]string{"recv.size": "size", "recv.bytes": "bytes", "p0.totalSize()": "msz", "p1": "maxSize", "p2": "maxBytes"})
	done = false
	for _, st := range fd.Body.List {
		if is, ok := st.(*ast.IfStmt); ok && len(is.Body.List) == 1 && isReturnBool(is.Body.List[0], "false") {
			c, err := sc.boolean(is.Cond, false)
			if err != nil {
				return "", fmt.Errorf("add: %v", err)
			}
			sb.WriteString("/-- writer.go (*writeBatch).add refuses the message (returns false) exactly when this holds -/\n")
			sb.WriteString("def batchNoFit (size bytes msz maxSize maxBytes : Nat) : Bool := " + c + "\n\n")
			done = true
			break
		}
	}
	if !done {
		return "", fmt.Errorf("add: no `if … { return false }` found")
	}

	return sb.String(), nil
}

func piece_tooLarge(ef, wf *ast.File) (string, error) {
	var sb strings.Builder
	var fd *ast.FuncDecl
	var sc *scope
	var err error
	done := false
	_, _, _, _ = fd, sc, err, done
	// ---- WriteMessages: the condition guarding `return messageTooLarge(…)`
	fd = findFunc(wf, "Writer", "WriteMessages")
	if fd == nil {
		return "", fmt.Errorf("writer.go: (*Writer).WriteMessages not found")
	}
	sc = newScope(fd, map[string]string{"p1[].totalSize()": "msz", "recv.batchBytes()": "batchBytes"})
	done = false
	var ierr error
	ast.Inspect(fd.Body, func(n ast.Node) bool {
		is, ok := n.(*ast.IfStmt)
		if !ok || done {
			return !done
		}
		for _, st := range is.Body.List {
			if r, ok := st.(*ast.ReturnStmt); ok && len(r.Results) == 1 {
				if call, ok := r.Results[0].(*ast.CallExpr); ok {
					if id, ok := call.Fun.(*ast.Ident); ok && id.Name == "messageTooLarge" {
						// the loop variable-dependent local (n := int64(msgs[i].totalSize())) lives in the loop body
						loc := newScope(&ast.FuncDecl{Type: fd.Type, Recv: fd.Recv, Body: fd.Body}, sc.names)
						c, err := loc.boolean(is.Cond, false)
						if err != nil {
							ierr = fmt.Errorf("WriteMessages size validation: %v", err)
						} else {
							sb.WriteString("/-- writer.go WriteMessages rejects the call (messageTooLarge) when this holds for some message -/\n")
							sb.WriteString("def tooLarge (msz batchBytes : Nat) : Bool := " + c + "\n\n")
						}
						done = true
					}
				}
			}
		}
		return !done
	})
	if ierr != nil {
		return "", ierr
	}
	if !done {
		return "", fmt.Errorf("WriteMessages: no `if … { return messageTooLarge(…) }` found")
	}
	return sb.String(), nil
}

func extractLogic(repo string) (string, []string, error) {
	fset := token.NewFileSet()
	ef, err := parser.ParseFile(fset, filepath.Join(repo, "error.go"), nil, 0)
	if err != nil {
		return "", nil, err
	}
	wf, err := parser.ParseFile(fset, filepath.Join(repo, "writer.go"), nil, 0)
	if err != nil {
		return "", nil, err
	}
	type piece struct {
		name, fallback string
		f              func(ef, wf *ast.File) (string, error)
	}
	pieces := []piece{
		{"makeErrorNil", "def makeErrorNil (code : Int) : Bool := untranslated code", piece_makeErrorNil},
		{"chooseTopic", "def chooseTopic (w m : String) : Option String := if untranslated (w, m) then none else none", piece_chooseTopic},
		{"batchFull", "def batchFull (size bytes maxSize maxBytes : Nat) : Bool := untranslated (size, bytes, maxSize, maxBytes)", piece_batchFull},
		{"batchNoFit", "def batchNoFit (size bytes msz maxSize maxBytes : Nat) : Bool := untranslated (size, bytes, msz, maxSize, maxBytes)", piece_batchNoFit},
		{"tooLarge", "def tooLarge (msz batchBytes : Nat) : Bool := untranslated (msz, batchBytes)", piece_tooLarge},
		{"defaults", "def effBatchSize (n : Nat) : Nat := if untranslated n then 0 else 0\ndef effBatchBytes (n : Nat) : Nat := if untranslated n then 0 else 0\ndef effMaxAttempts (n : Nat) : Nat := if untranslated n then 0 else 0", piece_defaults},
		{"timerArm", "def timerArmSites : List String := []", piece_timerArm},
		{"readRecord", "def readRecordResets : Bool := untranslated ()", piece_readRecord},
		{"newWriter", "def newWriterMap : List (String × String) := []", piece_newWriter},
		{"completeOrder", "def completeStoresErrFirst : Bool := untranslated ()", piece_completeOrder},
		{"roundTripDeadline", "def roundTripDeadlineSetters : List String := []", func(ef, wf *ast.File) (string, error) { return piece_roundTripDeadline(repo) }},
	}
	var sb strings.Builder
	var failed []string
	for _, p := range pieces {
		out, err := p.f(ef, wf)
		if err != nil {
			// keep everything else usable: the piece gets an opaque definition, so the theorem stated over it fails and
			// names the reason, while the oracle (which does not depend on it) still builds and the search still runs
			failed = append(failed, p.name+": "+err.Error())
			sb.WriteString("/-- NOT TRANSLATED: " + strings.ReplaceAll(err.Error(), "-/", "- /") + " -/\n" + p.fallback + "\n\n")
			continue
		}
		sb.WriteString(out)
	}
	return sb.String(), failed, nil
}
