package main

import (
	"fmt"
	"go/ast"
	"go/parser"
	"go/printer"
	"go/token"
	"os"
	"path/filepath"
	"sort"
	"strings"
)

func init() { extractors["muxfacts"] = extractMuxFacts }

// extractMuxFacts re-reads (go/parser only) the STRUCTURAL facts the C06 / C18 models rely on and writes
// lean/KafkaVerif/Gen/MuxFacts.lean.  Every fact is a shape, not a spelling: fields and methods are found by
// name (wlock, correlationID, idgen, skipResponseSizeAndID, …), locals and parameters by position / data flow, so
// renaming a local, re-ordering unrelated statements or moving a sub-expression into a local does not change a
// fact; a fact that cannot be established is emitted as false with the reason in a comment.
type facts struct {
	fset  *token.FileSet
	files map[string]*ast.File
	out   []fact
}

type fact struct {
	name string
	ok   bool
	why  string
}

func (f *facts) add(name string, ok bool, why string) { f.out = append(f.out, fact{name, ok, why}) }

func (f *facts) parse(repo, rel string) *ast.File {
	if x, ok := f.files[rel]; ok {
		return x
	}
	x, err := parser.ParseFile(f.fset, filepath.Join(repo, rel), nil, 0)
	if err != nil {
		x = nil
	}
	f.files[rel] = x
	return x
}

func recvName(fd *ast.FuncDecl) string {
	if fd.Recv == nil || len(fd.Recv.List) != 1 {
		return ""
	}
	t := fd.Recv.List[0].Type
	if s, ok := t.(*ast.StarExpr); ok {
		t = s.X
	}
	if id, ok := t.(*ast.Ident); ok {
		return id.Name
	}
	return ""
}

func findFunc(file *ast.File, recv, name string) *ast.FuncDecl {
	if file == nil {
		return nil
	}
	for _, d := range file.Decls {
		if fd, ok := d.(*ast.FuncDecl); ok && fd.Body != nil && fd.Name.Name == name && recvName(fd) == recv {
			return fd
		}
	}
	return nil
}

// selPath renders a selector chain a.b.c as "a.b.c" ("" if it is not one).
func selPath(e ast.Expr) string {
	switch x := e.(type) {
	case *ast.Ident:
		return x.Name
	case *ast.SelectorExpr:
		p := selPath(x.X)
		if p == "" {
			return ""
		}
		return p + "." + x.Sel.Name
	case *ast.ParenExpr:
		return selPath(x.X)
	}
	return ""
}

// callEnds reports whether n is a call whose callee's selector path ends with suffix (e.g. ".wlock.Lock").
func callEnds(n ast.Node, suffix string) (*ast.CallExpr, bool) {
	c, ok := n.(*ast.CallExpr)
	if !ok {
		return nil, false
	}
	p := selPath(c.Fun)
	return c, p == strings.TrimPrefix(suffix, ".") || strings.HasSuffix(p, suffix)
}

// isConnClose: the call closes the network connection of a Conn — `c.conn.Close()` or the helper `c.abortRead()`
// (close + drop what is buffered of the broken response; its body is checked by the fact abortReadClosesAndDrops)
func isConnClose(path string) bool {
	return strings.HasSuffix(path, ".conn.Close") || strings.HasSuffix(path, ".abortRead")
}

func containsConnClose(n ast.Node) bool {
	return containsCall(n, ".conn.Close") || containsCall(n, ".abortRead")
}

// threadedWrappers: package-level functions `f(r *bufio.Reader, size int, …) (…, int, …)` that are byte-accounting
// wrappers of a primitive: the reader is used exactly once, as the first argument of a primitive (or of another such
// wrapper) called with the size parameter; the remaining-size result of that call is bound to a variable that is
// assigned nowhere else, and every return hands that variable back at the position of the int result.  Such a function
// consumes and accounts bytes exactly like the primitive it wraps (Model/WireProg.lean `Prim`), whatever else it does
// to the value read (e.g. readMessageBytes: nil → empty slice).
func (f *facts) threadedWrappers(files []*ast.File, prims map[string]bool) map[string]bool {
	out := map[string]bool{}
	for changed := true; changed; {
		changed = false
		for _, file := range files {
			if file == nil {
				continue
			}
			for _, d := range file.Decls {
				fd, ok := d.(*ast.FuncDecl)
				if !ok || fd.Body == nil || fd.Recv != nil || prims[fd.Name.Name] || out[fd.Name.Name] || fd.Type.Results == nil {
					continue
				}
				ps := paramNames(fd.Type)
				if len(ps) < 2 || len(fd.Type.Params.List) < 2 || !strings.Contains(src(f.fset, fd.Type.Params.List[0].Type), "bufio.Reader") {
					continue
				}
				rd, sz := ps[0], ps[1]
				// position of the int result
				intAt, k := -1, 0
				for _, r := range fd.Type.Results.List {
					n := len(r.Names)
					if n == 0 {
						n = 1
					}
					for i := 0; i < n; i++ {
						if src(f.fset, r.Type) == "int" && intAt < 0 {
							intAt = k
						}
						k++
					}
				}
				if intAt < 0 {
					continue
				}
				remainVar, calls, okUses := "", 0, map[ast.Node]bool{}
				assigns := map[string]int{}
				ast.Inspect(fd.Body, func(n ast.Node) bool {
					as, isAs := n.(*ast.AssignStmt)
					if !isAs {
						return true
					}
					for _, l := range as.Lhs {
						if id, isID := l.(*ast.Ident); isID {
							assigns[id.Name]++
						}
					}
					if len(as.Rhs) == 1 {
						if c, isC := as.Rhs[0].(*ast.CallExpr); isC && len(c.Args) >= 2 {
							if id, isID := c.Fun.(*ast.Ident); isID && (prims[id.Name] || out[id.Name]) &&
								src(f.fset, c.Args[0]) == rd && src(f.fset, c.Args[1]) == sz && len(as.Lhs) >= 2 {
								calls++
								okUses[c.Args[0]] = true
								// the remaining size is the int result of the primitive: the last-but-one result by convention (…, remain, err)
								if id2, isID2 := as.Lhs[len(as.Lhs)-2].(*ast.Ident); isID2 {
									remainVar = id2.Name
								}
							}
						}
					}
					return true
				})
				if calls != 1 || remainVar == "" || assigns[remainVar] != 1 {
					continue
				}
				good := true
				ast.Inspect(fd.Body, func(n ast.Node) bool {
					switch x := n.(type) {
					case *ast.Ident:
						if x.Name == rd && !okUses[x] {
							good = false
						}
					case *ast.ReturnStmt:
						if len(x.Results) <= intAt || src(f.fset, x.Results[intAt]) != remainVar {
							good = false
						}
					}
					return true
				})
				if good {
					out[fd.Name.Name] = true
					changed = true
				}
			}
		}
	}
	return out
}

// forwarders: functions / methods of `file` all of whose return statements hand back, unchanged, the results of a call
// to a function accepted by `base` (or to another forwarder) — e.g. a helper that picks the header parser by version.
// A call to a forwarder is, for byte accounting and control flow, a call to one of the functions it forwards to.
func (f *facts) forwarders(file *ast.File, base func(name string) bool) map[string]bool {
	out := map[string]bool{}
	if file == nil {
		return out
	}
	last := func(p string) string {
		if i := strings.LastIndex(p, "."); i >= 0 {
			return p[i+1:]
		}
		return p
	}
	for changed := true; changed; {
		changed = false
		for _, d := range file.Decls {
			fd, ok := d.(*ast.FuncDecl)
			if !ok || fd.Body == nil || out[fd.Name.Name] || base(fd.Name.Name) {
				continue
			}
			rets, good := 0, true
			ast.Inspect(fd.Body, func(n ast.Node) bool {
				if _, isLit := n.(*ast.FuncLit); isLit {
					return false
				}
				r, isRet := n.(*ast.ReturnStmt)
				if !isRet {
					return true
				}
				rets++
				if len(r.Results) != 1 {
					good = false
					return true
				}
				c, isCall := r.Results[0].(*ast.CallExpr)
				if !isCall {
					good = false
					return true
				}
				nm := last(selPath(c.Fun))
				if !base(nm) && !out[nm] {
					good = false
				}
				return true
			})
			if good && rets > 0 {
				out[fd.Name.Name] = true
				changed = true
			}
		}
	}
	return out
}

func lastName(p string) string {
	if i := strings.LastIndex(p, "."); i >= 0 {
		return p[i+1:]
	}
	return p
}

func containsCall(n ast.Node, suffix string) bool {
	found := false
	ast.Inspect(n, func(x ast.Node) bool {
		if x == nil || found {
			return false
		}
		if _, ok := callEnds(x, suffix); ok {
			found = true
		}
		return !found
	})
	return found
}

// mentionsField: n refers to a field `.name` directly, or calls a method of `recvType` (one level) that does.
func (f *facts) mentionsField(file *ast.File, recvType string, n ast.Node, name string, depth int) bool {
	found := false
	ast.Inspect(n, func(x ast.Node) bool {
		if x == nil || found {
			return false
		}
		if s, ok := x.(*ast.SelectorExpr); ok && s.Sel.Name == name {
			found = true
		}
		if c, ok := x.(*ast.CallExpr); ok && depth > 0 {
			if s, ok := c.Fun.(*ast.SelectorExpr); ok {
				if fd := findFunc(file, recvType, s.Sel.Name); fd != nil && f.mentionsField(file, recvType, fd.Body, name, depth-1) {
					found = true
				}
			}
		}
		return !found
	})
	return found
}

func paramNames(fd *ast.FuncType) []string {
	var ps []string
	if fd.Params == nil {
		return ps
	}
	for _, p := range fd.Params.List {
		for _, n := range p.Names {
			ps = append(ps, n.Name)
		}
	}
	return ps
}

func src(fset *token.FileSet, n ast.Node) string {
	var b strings.Builder
	printer.Fprint(&b, fset, n)
	return strings.Join(strings.Fields(b.String()), " ")
}

// isNotCall: e is `!pkg.Fn(…)` (possibly parenthesised) with the callee path ending in suffix.
func isNotCall(e ast.Expr, suffix string) bool {
	if p, ok := e.(*ast.ParenExpr); ok {
		return isNotCall(p.X, suffix)
	}
	u, ok := e.(*ast.UnaryExpr)
	if !ok || u.Op != token.NOT {
		return false
	}
	_, ok = callEnds(u.X, suffix)
	return ok
}

func extractMuxFacts(repo, root string) error {
	f := &facts{fset: token.NewFileSet(), files: map[string]*ast.File{}}
	conn := f.parse(repo, "conn.go")
	batch := f.parse(repo, "batch.go")
	tr := f.parse(repo, "transport.go")
	pconn := f.parse(repo, "protocol/conn.go")
	prt := f.parse(repo, "protocol/roundtrip.go")
	sa := f.parse(repo, "protocol/saslauthenticate/saslauthenticate.go")
	f.parse(repo, "dialer.go")
	f.parse(repo, "batch.go")

	// ---- doRequest: the id is taken and the request written inside ONE wlock critical section
	if fd := findFunc(conn, "Conn", "doRequest"); fd != nil {
		lock, unlock, firstID, lastID, write := -1, -1, -1, -1, -1
		params := paramNames(fd.Type)
		for i, st := range fd.Body.List {
			if containsCall(st, ".wlock.Lock") && lock < 0 {
				lock = i
			}
			if containsCall(st, ".wlock.Unlock") {
				if _, isDefer := st.(*ast.DeferStmt); isDefer {
					unlock = len(fd.Body.List)
				} else {
					unlock = i
				}
			}
			if f.mentionsField(conn, "Conn", st, "correlationID", 1) {
				if firstID < 0 {
					firstID = i
				}
				lastID = i
			}
			if len(params) >= 2 && containsCall(st, params[1]) {
				write = i
			}
		}
		ok := lock >= 0 && firstID > lock && write > lock && lastID < unlock && write < unlock
		f.add("idAndWriteUnderWlock", ok, fmt.Sprintf("doRequest statement indices: Lock %d, correlationID %d..%d, write %d, Unlock %d", lock, firstID, lastID, write, unlock))
	} else {
		f.add("idAndWriteUnderWlock", false, "(*Conn).doRequest not found")
	}

	// ---- exactly one increment of correlationID in conn.go
	incs := 0
	if conn != nil {
		ast.Inspect(conn, func(n ast.Node) bool {
			switch x := n.(type) {
			case *ast.IncDecStmt:
				if s, ok := x.X.(*ast.SelectorExpr); ok && s.Sel.Name == "correlationID" && x.Tok == token.INC {
					incs++
				}
			case *ast.AssignStmt:
				for _, l := range x.Lhs {
					if s, ok := l.(*ast.SelectorExpr); ok && s.Sel.Name == "correlationID" {
						incs += 2 // any other write to the counter
					}
				}
			}
			return true
		})
	}
	f.add("idIncrementedOnceByOne", incs == 1, fmt.Sprintf("writes to correlationID weight %d (one `++` = 1)", incs))

	// ---- waitResponse: the frame is taken only under `id == rid`; a peek error closes the conn
	if fd := findFunc(conn, "Conn", "waitResponse"); fd != nil {
		params := paramNames(fd.Type)
		takeOK, peekClose := false, false
		ast.Inspect(fd.Body, func(n ast.Node) bool {
			is, ok := n.(*ast.IfStmt)
			if !ok {
				return true
			}
			if containsCall(is.Body, ".skipResponseSizeAndID") {
				if b, ok := is.Cond.(*ast.BinaryExpr); ok && b.Op == token.EQL {
					l, lok := b.X.(*ast.Ident)
					r, rok := b.Y.(*ast.Ident)
					if lok && rok && len(params) >= 2 && (l.Name == params[1]) != (r.Name == params[1]) {
						takeOK = true
					}
				}
			}
			if b, ok := is.Cond.(*ast.BinaryExpr); ok && b.Op == token.NEQ && src(f.fset, b.Y) == "nil" && containsConnClose(is.Body) {
				peekClose = true
			}
			return true
		})
		f.add("takeOnlyOnIdMatch", takeOK, "waitResponse: skipResponseSizeAndID() sits under `if <id param> == <peeked id>`")
		f.add("peekErrorCloses", peekClose, "waitResponse: the `err != nil` branch calls c.conn.Close()")
	} else {
		f.add("takeOnlyOnIdMatch", false, "(*Conn).waitResponse not found")
		f.add("peekErrorCloses", false, "(*Conn).waitResponse not found")
	}

	// ---- do: an unreadable body closes the conn unless it is a kafka error code (and nothing else is exempt)
	if fd := findFunc(conn, "Conn", "do"); fd != nil {
		ok := false
		ast.Inspect(fd.Body, func(n ast.Node) bool {
			is, isIf := n.(*ast.IfStmt)
			if !isIf {
				return true
			}
			if isNotCall(is.Cond, "errors.As") && containsConnClose(is.Body) {
				ok = true
			}
			if _, pos := callEnds(is.Cond, "errors.As"); pos && is.Else != nil && containsConnClose(is.Else) {
				ok = true
			}
			return true
		})
		f.add("bodyErrorClosesUnlessKafka", ok, "(*Conn).do: `if !errors.As(err, &kafkaError) { c.conn.Close() }` with no further exemption")
	} else {
		f.add("bodyErrorClosesUnlessKafka", false, "(*Conn).do not found")
	}

	// ---- a close after a response that was not read to its end also drops what is buffered of it (read lock held):
	// otherwise Peek serves the leftover to callers already waiting for their own responses (C06-D30)
	{
		dropsBuffered := func(n ast.Node) bool {
			ok := false
			ast.Inspect(n, func(x ast.Node) bool {
				if c, isCall := x.(*ast.CallExpr); isCall && strings.HasSuffix(selPath(c.Fun), ".rbuf.Discard") && len(c.Args) == 1 {
					if a, isCall := c.Args[0].(*ast.CallExpr); isCall && strings.HasSuffix(selPath(a.Fun), ".rbuf.Buffered") {
						ok = true
					}
				}
				return true
			})
			return ok
		}
		helper := false
		if fd := findFunc(conn, "Conn", "abortRead"); fd != nil {
			helper = containsCall(fd.Body, ".conn.Close") && dropsBuffered(fd.Body)
		}
		// a block that closes the conn does so through the helper or drops the buffer itself
		closesWell := func(n ast.Node) bool {
			bad := false
			ast.Inspect(n, func(x ast.Node) bool {
				is, isIf := x.(*ast.IfStmt)
				if !isIf {
					return true
				}
				for _, blk := range []ast.Node{is.Body, is.Else} {
					if blk == nil || (!containsCall(blk, "onn.Close") && !containsCall(blk, ".abortRead")) {
						continue
					}
					direct := false // closes in this very block, not in a nested if
					if b, isBlk := blk.(*ast.BlockStmt); isBlk {
						for _, st := range b.List {
							if es, isExpr := st.(*ast.ExprStmt); isExpr {
								if c, isCall := es.X.(*ast.CallExpr); isCall {
									p := selPath(c.Fun)
									if strings.HasSuffix(p, "onn.Close") || strings.HasSuffix(p, ".abortRead") {
										direct = true
									}
								}
							}
						}
					}
					if direct && !((containsCall(blk, ".abortRead") && helper) || dropsBuffered(blk)) {
						bad = true
					}
				}
				return true
			})
			return !bad
		}
		all := helper
		for _, x := range []struct {
			file *ast.File
			recv, name string
		}{{conn, "Conn", "do"}, {conn, "Conn", "ApiVersions"}, {batch, "Batch", "close"}} {
			fd := findFunc(x.file, x.recv, x.name)
			if fd == nil || !closesWell(fd.Body) {
				all = false
			}
		}
		f.add("readFailureCloseDropsBuffered", all, "(*Conn).do, (*Conn).ApiVersions, (*Batch).close: the close after an unreadable response drops the read buffer (abortRead / rbuf.Discard(rbuf.Buffered())) while the read lock is held")
	}

	// ---- Batch.close: discards the rest, keeps the conn only for kafka errors and io.ErrShortBuffer
	if fd := findFunc(batch, "Batch", "close"); fd != nil {
		disc := containsCall(fd.Body, ".msgs.discard")
		keep := false
		ast.Inspect(fd.Body, func(n ast.Node) bool {
			is, isIf := n.(*ast.IfStmt)
			if !isIf || !containsCall(is.Body, "onn.Close") {
				return true
			}
			if b, ok := is.Cond.(*ast.BinaryExpr); ok && b.Op == token.LAND {
				a, c := b.X, b.Y
				if (isNotCall(a, "errors.As") && isNotCall(c, "errors.Is") && strings.Contains(src(f.fset, c), "ErrShortBuffer")) ||
					(isNotCall(c, "errors.As") && isNotCall(a, "errors.Is") && strings.Contains(src(f.fset, a), "ErrShortBuffer")) {
					keep = true
				}
			}
			return true
		})
		f.add("batchCloseDiscards", disc, "(*Batch).close calls batch.msgs.discard()")
		f.add("batchCloseKeepsOnlyKafkaOrShortBuffer", keep, "(*Batch).close: conn.Close() under `!errors.As(err,&kafkaError) && !errors.Is(err, io.ErrShortBuffer)`")
	} else {
		f.add("batchCloseDiscards", false, "(*Batch).close not found")
		f.add("batchCloseKeepsOnlyKafkaOrShortBuffer", false, "(*Batch).close not found")
	}

	// ---- messageSetReader.discard: rewinds to the I/O-backed reader before discarding what remains of the response
	mr := f.parse(repo, "message_reader.go")
	if fd := findFunc(mr, "messageSetReader", "discard"); fd != nil {
		ok := false
		ast.Inspect(fd.Body, func(n ast.Node) bool {
			blk, isB := n.(*ast.CaseClause)
			if !isB {
				return true
			}
			loopAt, discAt := -1, -1
			for i, st := range blk.Body {
				if fs, isFor := st.(*ast.ForStmt); isFor && fs.Cond != nil && strings.Contains(src(f.fset, fs.Cond), ".parent != nil") &&
					strings.Contains(src(f.fset, fs.Body), "readerStack = ") && strings.Contains(src(f.fset, fs.Body), ".parent") {
					loopAt = i
				}
				if containsCall(st, ".discardN") && strings.Contains(src(f.fset, st), ".remain") {
					discAt = i
				}
			}
			if loopAt >= 0 && discAt > loopAt {
				ok = true
			}
			return true
		})
		f.add("discardRewindsToWire", ok, "messageSetReader.discard: `for r.parent != nil { r.readerStack = r.parent }` then discardN(r.remain)")
	} else {
		f.add("discardRewindsToWire", false, "(*messageSetReader).discard not found")
	}

	// ---- message_reader.go touches the wire only through the size-threading discipline (Model/WireProg.lean)
	if mr != nil {
		prims := map[string]bool{"readInt8": true, "readInt16": true, "readInt32": true, "readInt64": true, "readVarInt": true,
			"readBytesWith": true, "readNewBytes": true, "readNewString": true, "discardN": true, "discardBytes": true}
		for w := range f.threadedWrappers([]*ast.File{batch, mr, f.files["read.go"]}, prims) {
			prims[w] = true
		}
		threaded, limited, limitedOK, callbacks := 0, 0, 0, 0
		var others, badRemain []string
		for _, d := range mr.Decls {
			fd, ok := d.(*ast.FuncDecl)
			if !ok || fd.Body == nil || recvName(fd) != "messageSetReader" || fd.Recv.List[0].Names == nil {
				continue
			}
			rv := fd.Recv.List[0].Names[0].Name
			wire, counter := rv+".reader", rv+".remain"
			fparams := map[string]bool{}
			for _, pn := range paramNames(fd.Type) {
				fparams[pn] = true
			}
			good := map[ast.Node]bool{}   // occurrences of r.reader accounted for
			goodAs := map[ast.Node]bool{} // assignments to r.remain accounted for
			ast.Inspect(fd.Body, func(n ast.Node) bool {
				switch x := n.(type) {
				case *ast.AssignStmt:
					// r.remain, err = prim(r.reader, r.remain, …)   /   res, r.remain, err = prim(r.reader, r.remain, …)
					if len(x.Rhs) == 1 {
						if c, isC := x.Rhs[0].(*ast.CallExpr); isC {
							// a read callback handed in by batch.go (a parameter of function type): r.remain, err = cb(r.reader, r.remain, n)
							if id, isID := c.Fun.(*ast.Ident); isID && fparams[id.Name] && len(c.Args) == 3 &&
								src(f.fset, c.Args[0]) == wire && src(f.fset, c.Args[1]) == counter && len(x.Lhs) >= 1 && src(f.fset, x.Lhs[0]) == counter {
								callbacks++
								good[c.Args[0]] = true
								goodAs[x] = true
							}
							if id, isID := c.Fun.(*ast.Ident); isID && prims[id.Name] && len(c.Args) >= 2 &&
								src(f.fset, c.Args[0]) == wire && src(f.fset, c.Args[1]) == counter {
								lhsHas := false
								for _, l := range x.Lhs {
									if src(f.fset, l) == counter {
										lhsHas = true
									}
								}
								if lhsHas {
									threaded++
									good[c.Args[0]] = true
									goodAs[x] = true
								}
							}
						}
					}
					// r.remain -= n - int(limitReader.N)
					if x.Tok == token.SUB_ASSIGN && len(x.Lhs) == 1 && src(f.fset, x.Lhs[0]) == counter {
						if b, isB := x.Rhs[0].(*ast.BinaryExpr); isB && b.Op == token.SUB && strings.HasSuffix(strings.TrimSuffix(src(f.fset, b.Y), ")"), ".N") {
							limitedOK++
							goodAs[x] = true
						}
					}
					// inside a readBytesWith callback: remain = sz - (n - int(limitReader.N))
					if x.Tok == token.ASSIGN && len(x.Lhs) == 1 && len(x.Rhs) == 1 {
						if b, isB := x.Rhs[0].(*ast.BinaryExpr); isB && b.Op == token.SUB && strings.Contains(src(f.fset, b.Y), ".N)") && strings.Contains(src(f.fset, b.Y), " - ") {
							limitedOK++
						}
					}
				case *ast.CompositeLit:
					if strings.HasSuffix(src(f.fset, x.Type), "LimitedReader") {
						for _, el := range x.Elts {
							if kv, isKV := el.(*ast.KeyValueExpr); isKV && src(f.fset, kv.Key) == "R" {
								v := src(f.fset, kv.Value)
								if v == wire || v == "br" || len(v) <= 2 { // r.reader itself, or the reader handed to a readBytesWith callback
									limited++
									good[kv.Value] = true
								}
							}
						}
					}
				}
				return true
			})
			ast.Inspect(fd.Body, func(n ast.Node) bool {
				switch x := n.(type) {
				case *ast.SelectorExpr:
					if src(f.fset, x) == wire && !good[x] {
						others = append(others, fd.Name.Name+": "+wire)
					}
				case *ast.AssignStmt:
					for _, l := range x.Lhs {
						if s, isS := l.(*ast.SelectorExpr); isS && s.Sel.Name == "remain" && src(f.fset, l) == counter && !goodAs[x] {
							badRemain = append(badRemain, fd.Name.Name+": "+src(f.fset, x))
						}
					}
				case *ast.IncDecStmt:
					if src(f.fset, x.X) == counter {
						badRemain = append(badRemain, fd.Name.Name+": "+src(f.fset, x))
					}
				}
				return true
			})
		}
		f.add("wireSitesThreaded", len(others) == 0 && threaded > 0 && limited == limitedOK,
			fmt.Sprintf("message_reader.go: %d sites `r.remain, err = prim(r.reader, r.remain, …)`, %d callback sites `r.remain, err = cb(r.reader, r.remain, n)`, %d LimitedReader sites with %d matching `remain -= n - N` charges, other uses of r.reader: %v", threaded, callbacks, limited, limitedOK, others))
		f.add("remainOnlyFromPrims", len(badRemain) == 0, fmt.Sprintf("message_reader.go: assignments to r.remain outside the discipline: %v", badRemain))
	} else {
		f.add("wireSitesThreaded", false, "message_reader.go not parsed")
		f.add("remainOnlyFromPrims", false, "message_reader.go not parsed")
	}

	// ---- the in-flight counter of a Conn counts REQUESTS: `enter()` is called by the function that numbers and writes a
	// request (doRequest — every path, do / ApiVersions / ReadBatchWith, goes through it) and nowhere else; `leave()` by
	// doRequest on its error path and by waitResponse when the wait is over.  (`concurrency() == 1` is what enables
	// `Event.lone`: `aloneWaiting` in the model counts calls whose status is `waiting`, i.e. written and not yet served.)
	{
		calls := func(fd *ast.FuncDecl, suffix string) int {
			n := 0
			if fd == nil {
				return 0
			}
			ast.Inspect(fd.Body, func(x ast.Node) bool {
				if c, ok := x.(*ast.CallExpr); ok && strings.HasSuffix(selPath(c.Fun), suffix) && len(c.Args) == 0 {
					n++
				}
				return true
			})
			return n
		}
		dr, wr := findFunc(conn, "Conn", "doRequest"), findFunc(conn, "Conn", "waitResponse")
		numbers := dr != nil && strings.Contains(src(f.fset, dr.Body), "correlationID++")
		elsewhere := 0
		for _, d := range conn.Decls {
			fd, ok := d.(*ast.FuncDecl)
			if !ok || fd.Body == nil || fd == dr || fd.Name.Name == "enter" {
				continue
			}
			elsewhere += calls(fd, ".enter")
		}
		// leave() on doRequest's error path
		leaveOnErr := false
		if dr != nil {
			ast.Inspect(dr.Body, func(x ast.Node) bool {
				if is, ok := x.(*ast.IfStmt); ok && strings.HasSuffix(src(f.fset, is.Cond), "!= nil") {
					ast.Inspect(is.Body, func(y ast.Node) bool {
						if c, ok := y.(*ast.CallExpr); ok && strings.HasSuffix(selPath(c.Fun), ".leave") {
							leaveOnErr = true
						}
						return true
					})
				}
				return true
			})
		}
		ok := numbers && calls(dr, ".enter") == 1 && elsewhere == 0 && leaveOnErr && calls(wr, ".leave") == 1
		f.add("inflightCountsRequests", ok, fmt.Sprintf("conn.go: enter() once in doRequest (which numbers the request: %v), %d other callers; leave() on doRequest's error path: %v, in waitResponse: %d", numbers, elsewhere, leaveOnErr, calls(wr, ".leave")))
	}

	// ---- connPool.discover: every refresh awaits a promise of its own (Model/PoolDiscover.lean `chanOf fresh`): the
	// `make(async, …)` whose variable travels in the connRequest and is awaited sits INSIDE the loop, in the block of the
	// turn that sends and awaits it.
	if fd := findFunc(tr, "connPool", "discover"); fd != nil {
		ok, why := false, "no `x := make(async, …)` inside the refresh loop that is both sent in a connRequest and awaited there"
		ast.Inspect(fd.Body, func(n ast.Node) bool {
			loop, isFor := n.(*ast.ForStmt)
			if !isFor {
				return true
			}
			ast.Inspect(loop.Body, func(m ast.Node) bool {
				blk, isBlk := m.(*ast.BlockStmt)
				if !isBlk {
					return true
				}
				for i, st := range blk.List {
					as, isAs := st.(*ast.AssignStmt)
					if !isAs || as.Tok != token.DEFINE || len(as.Lhs) != 1 || len(as.Rhs) != 1 {
						continue
					}
					c, isCall := as.Rhs[0].(*ast.CallExpr)
					if !isCall || selPath(c.Fun) != "make" || len(c.Args) < 1 || src(f.fset, c.Args[0]) != "async" {
						continue
					}
					v := src(f.fset, as.Lhs[0])
					sent, awaited := false, false
					for _, later := range blk.List[i+1:] {
						ast.Inspect(later, func(x ast.Node) bool {
							switch y := x.(type) {
							case *ast.KeyValueExpr:
								if src(f.fset, y.Key) == "res" && src(f.fset, y.Value) == v {
									sent = true
								}
							case *ast.CallExpr:
								if selPath(y.Fun) == v+".await" {
									awaited = true
								}
							}
							return true
						})
					}
					if sent && awaited {
						ok, why = true, "(*connPool).discover: `"+v+" := make(async, 1)` in the loop turn that sends it in the connRequest and awaits it"
					}
				}
				return true
			})
			return true
		})
		// and no promise of the loop is created outside it
		ast.Inspect(fd.Body, func(n ast.Node) bool {
			if _, isFor := n.(*ast.ForStmt); isFor {
				return false
			}
			if c, isCall := n.(*ast.CallExpr); isCall && selPath(c.Fun) == "make" && len(c.Args) >= 1 && src(f.fset, c.Args[0]) == "async" {
				ok, why = false, "(*connPool).discover creates a promise outside the refresh loop"
			}
			return true
		})
		f.add("discoverPromisePerRefresh", ok, why)
	} else {
		f.add("discoverPromisePerRefresh", false, "(*connPool).discover not found")
	}

	// ---- read.go / discard.go: every primitive charges to its byte budget what it takes off the reader.
	// For each function `f(r *bufio.Reader, sz int, …)`: every call r.Discard(…) / io.ReadFull(r, …) / r.Read(…) binds its
	// byte count to a variable, and that variable is subtracted from the budget afterwards (`sz -= n`, `sz = sz - n`, or
	// `sz - n` in a later expression, e.g. the returned remainder).  Model/VarIntRead.lean (`readVarIntW_adv`) and
	// Base/Reader's `conserves_*` lemmas are about exactly this bookkeeping; the refill branch of readVarInt is where
	// seed C06-m7 dropped it.
	{
		bad := []string{}
		sites := 0
		for _, file := range []*ast.File{f.parse(repo, "read.go"), f.parse(repo, "discard.go")} {
			if file == nil {
				continue
			}
			for _, d := range file.Decls {
				fd, ok := d.(*ast.FuncDecl)
				if !ok || fd.Body == nil || fd.Recv != nil || fd.Type.Params == nil || len(fd.Type.Params.List) < 2 {
					continue
				}
				ps := paramNames(fd.Type)
				if len(ps) < 2 || !strings.Contains(src(f.fset, fd.Type.Params.List[0].Type), "bufio.Reader") {
					continue
				}
				rd, budget := ps[0], ps[1]
				ast.Inspect(fd.Body, func(n ast.Node) bool {
					if _, isLit := n.(*ast.FuncLit); isLit {
						return false // callbacks have their own (r, sz): they are separate functions for this purpose
					}
					c, isCall := n.(*ast.CallExpr)
					if !isCall {
						return true
					}
					p := selPath(c.Fun)
					consumes := p == rd+".Discard" || p == rd+".Read" || (p == "io.ReadFull" && len(c.Args) >= 1 && src(f.fset, c.Args[0]) == rd)
					if !consumes {
						return true
					}
					sites++
					// the statement that binds the count
					countVar := ""
					var at token.Pos
					ast.Inspect(fd.Body, func(m ast.Node) bool {
						if as, ok := m.(*ast.AssignStmt); ok && len(as.Rhs) == 1 && as.Rhs[0] == ast.Expr(c) && len(as.Lhs) >= 1 {
							if id, ok := as.Lhs[0].(*ast.Ident); ok && id.Name != "_" {
								countVar, at = id.Name, as.End()
							}
						}
						return true
					})
					charged := false
					if countVar != "" {
						ast.Inspect(fd.Body, func(m ast.Node) bool {
							if m == nil || m.Pos() < at {
								return true
							}
							switch x := m.(type) {
							case *ast.AssignStmt:
								if x.Tok == token.SUB_ASSIGN && len(x.Lhs) == 1 && src(f.fset, x.Lhs[0]) == budget && src(f.fset, x.Rhs[0]) == countVar {
									charged = true
								}
							case *ast.BinaryExpr:
								if x.Op == token.SUB && src(f.fset, x.X) == budget && src(f.fset, x.Y) == countVar {
									charged = true
								}
							}
							return true
						})
					}
					if !charged {
						bad = append(bad, fd.Name.Name+": "+src(f.fset, c))
					}
					return true
				})
			}
		}
		f.add("primitivesChargeWhatTheyConsume", sites >= 4 && len(bad) == 0, fmt.Sprintf("read.go / discard.go: %d consuming calls; not charged to the budget: %v", sites, bad))
	}

	// ---- batch.go: the key/value callbacks touch the reader they are given only through readNewBytes / discardN / io.ReadFull
	if batch != nil {
		n, bad := 0, []string{}
		cbWrappers := f.threadedWrappers([]*ast.File{batch, mr, f.files["read.go"]}, map[string]bool{"readNewBytes": true, "discardN": true})
		ast.Inspect(batch, func(x ast.Node) bool {
			fl, isLit := x.(*ast.FuncLit)
			if !isLit {
				return true
			}
			ps := paramNames(fl.Type)
			if len(ps) != 3 || fl.Type.Params.List[0].Type == nil || !strings.Contains(src(f.fset, fl.Type.Params.List[0].Type), "bufio.Reader") {
				return true
			}
			n++
			okUse := map[ast.Node]bool{}
			ast.Inspect(fl.Body, func(y ast.Node) bool {
				if c, isC := y.(*ast.CallExpr); isC && len(c.Args) >= 1 {
					p := selPath(c.Fun)
					if (p == "readNewBytes" || p == "discardN" || p == "io.ReadFull" || cbWrappers[p]) && src(f.fset, c.Args[0]) == ps[0] {
						okUse[c.Args[0]] = true
					}
				}
				return true
			})
			ast.Inspect(fl.Body, func(y ast.Node) bool {
				if id, isID := y.(*ast.Ident); isID && id.Name == ps[0] && !okUse[id] {
					bad = append(bad, src(f.fset, fl.Type))
				}
				return true
			})
			return true
		})
		f.add("batchCallbacksThreaded", n >= 4 && len(bad) == 0, fmt.Sprintf("batch.go: %d read callbacks; uses of their reader outside readNewBytes/discardN/io.ReadFull: %v", n, bad))
	} else {
		f.add("batchCallbacksThreaded", false, "batch.go not parsed")
	}

	// ---- Batch.Read value callback: remaining = size − bytes read; discarded = value length − bytes read
	if fd := findFunc(batch, "Batch", "Read"); fd != nil {
		ok, why := false, "no callback ending in discardN(r, size-<read>, <n>-<read>) after io.ReadFull"
		ast.Inspect(fd.Body, func(n ast.Node) bool {
			fl, isLit := n.(*ast.FuncLit)
			if !isLit || !containsCall(fl.Body, "io.ReadFull") {
				return true
			}
			ps := paramNames(fl.Type)
			if len(ps) != 3 {
				return true
			}
			readVar := ""
			ast.Inspect(fl.Body, func(m ast.Node) bool {
				if as, isAs := m.(*ast.AssignStmt); isAs && len(as.Rhs) == 1 {
					if _, isRF := callEnds(as.Rhs[0], "io.ReadFull"); isRF && len(as.Lhs) >= 1 {
						if id, isID := as.Lhs[0].(*ast.Ident); isID {
							readVar = id.Name
						}
					}
				}
				return true
			})
			if len(fl.Body.List) == 0 || readVar == "" {
				return true
			}
			ret, isRet := fl.Body.List[len(fl.Body.List)-1].(*ast.ReturnStmt)
			if !isRet || len(ret.Results) != 1 {
				return true
			}
			c, isDisc := callEnds(ret.Results[0], "discardN")
			if !isDisc || len(c.Args) != 3 {
				return true
			}
			a1, ok1 := c.Args[1].(*ast.BinaryExpr)
			a2, ok2 := c.Args[2].(*ast.BinaryExpr)
			if ok1 && ok2 && a1.Op == token.SUB && a2.Op == token.SUB &&
				src(f.fset, c.Args[0]) == ps[0] && src(f.fset, a1.X) == ps[1] &&
				src(f.fset, a1.Y) == readVar && src(f.fset, a2.Y) == readVar && src(f.fset, a2.X) != ps[1] {
				ok, why = true, "value callback returns discardN(r, size-read, n-read)"
			} else {
				why = "value callback returns " + src(f.fset, ret.Results[0])
			}
			return true
		})
		f.add("readValueAccountsBytes", ok, why)
	} else {
		f.add("readValueAccountsBytes", false, "(*Batch).Read not found")
	}

	// ---- ReadBatchWith: the size handed to newMessageSetReader is the one the header parser returned
	if fd := findFunc(conn, "Conn", "ReadBatchWith"); fd != nil {
		hdrFwd := f.forwarders(conn, func(n string) bool { return strings.HasPrefix(n, "readFetchResponseHeaderV") })
		v := ""
		ast.Inspect(fd.Body, func(n ast.Node) bool {
			if c, ok := callEnds(n, "newMessageSetReader"); ok && len(c.Args) == 2 {
				v = src(f.fset, c.Args[1])
			}
			return true
		})
		ok, why := v != "", "size argument "+v+" assigned only from readFetchResponseHeaderV*/discardOnKafkaError"
		ast.Inspect(fd.Body, func(n ast.Node) bool {
			as, isAs := n.(*ast.AssignStmt)
			if !isAs {
				return true
			}
			for _, l := range as.Lhs {
				if src(f.fset, l) == v {
					good := false
					if len(as.Rhs) == 1 {
						p := ""
						if c, isCall := as.Rhs[0].(*ast.CallExpr); isCall {
							p = selPath(c.Fun)
						}
						good = strings.HasPrefix(p, "readFetchResponseHeaderV") || p == "discardOnKafkaError" || hdrFwd[lastName(p)]
					}
					if !good {
						ok, why = false, "size argument "+v+" is also assigned by: "+src(f.fset, as)
					}
				}
			}
			return true
		})
		f.add("messageSetSizeFromHeader", ok, why)
	} else {
		f.add("messageSetSizeFromHeader", false, "(*Conn).ReadBatchWith not found")
	}

	// ---- transport conn.run: every failed exchange except ErrNoRecord ends the loop; release after each exchange
	if fd := findFunc(tr, "conn", "run"); fd != nil {
		brk := false
		ast.Inspect(fd.Body, func(n ast.Node) bool {
			is, isIf := n.(*ast.IfStmt)
			if !isIf {
				return true
			}
			if isNotCall(is.Cond, "errors.Is") && strings.Contains(src(f.fset, is.Cond), "ErrNoRecord") {
				// the loop is left by `break`, or by `return` when the loop is the last statement of the function
				var lastLoop ast.Stmt
				if n := len(fd.Body.List); n > 0 {
					switch fd.Body.List[n-1].(type) {
					case *ast.RangeStmt, *ast.ForStmt:
						lastLoop = fd.Body.List[n-1]
					}
				}
				for _, st := range is.Body.List {
					if b, ok := st.(*ast.BranchStmt); ok && b.Tok == token.BREAK {
						brk = true
					}
					if r, ok := st.(*ast.ReturnStmt); ok && len(r.Results) == 0 && lastLoop != nil && lastLoop.Pos() <= r.Pos() && r.End() <= lastLoop.End() {
						brk = true
					}
				}
			}
			return true
		})
		f.add("failedExchangeEndsRun", brk, "(*conn).run: `if !errors.Is(err, protocol.ErrNoRecord) { break }` with no further exemption")
		f.add("releaseInsideRun", containsCall(fd.Body, ".releaseConn"), "(*conn).run calls group.releaseConn")
	} else {
		f.add("failedExchangeEndsRun", false, "(*conn).run not found")
		f.add("releaseInsideRun", false, "(*conn).run not found")
	}

	// ---- protocol.Conn.RoundTrip: a fresh id per exchange (atomic add); protocol.RoundTrip checks the id
	if fd := findFunc(pconn, "Conn", "RoundTrip"); fd != nil {
		ok := false
		ast.Inspect(fd.Body, func(n ast.Node) bool {
			if c, isC := callEnds(n, "atomic.AddInt32"); isC && len(c.Args) == 2 && strings.HasSuffix(src(f.fset, c.Args[0]), ".idgen") {
				ok = true
			}
			return true
		})
		stores := containsCall(fd.Body, "atomic.StoreInt32")
		f.add("idgenAdvancesPerExchange", ok && !stores, "protocol.(*Conn).RoundTrip: atomic.AddInt32(&c.idgen, …) and no other store to idgen")
	} else {
		f.add("idgenAdvancesPerExchange", false, "protocol.(*Conn).RoundTrip not found")
	}
	if fd := findFunc(prt, "", "RoundTrip"); fd != nil {
		ps := paramNames(fd.Type)
		ok := false
		ast.Inspect(fd.Body, func(n ast.Node) bool {
			is, isIf := n.(*ast.IfStmt)
			if !isIf {
				return true
			}
			if b, isB := is.Cond.(*ast.BinaryExpr); isB && b.Op == token.NEQ && len(ps) >= 3 {
				l, r := src(f.fset, b.X), src(f.fset, b.Y)
				if (l == ps[2]) != (r == ps[2]) && l != "nil" && r != "nil" {
					for _, st := range is.Body.List {
						if _, isRet := st.(*ast.ReturnStmt); isRet {
							ok = true
						}
					}
				}
			}
			return true
		})
		f.add("roundTripChecksId", ok, "protocol.RoundTrip: `if <read id> != <correlationID param> { return … }`")
	} else {
		f.add("roundTripChecksId", false, "protocol.RoundTrip not found")
	}

	// ---- C18: raw-versus-framed follows the HANDSHAKE version; a refused Transport dial closes the socket
	if fd := findFunc(conn, "Conn", "saslAuthenticate"); fd != nil {
		first := ""
		ast.Inspect(fd.Body, func(n ast.Node) bool {
			if c, ok := callEnds(n, ".negotiateVersion"); ok && first == "" && len(c.Args) > 0 {
				first = src(f.fset, c.Args[0])
			}
			return true
		})
		f.add("connAuthFramingByHandshake", first == "saslHandshake", "(*Conn).saslAuthenticate negotiates on api key "+first)
	} else {
		f.add("connAuthFramingByHandshake", false, "(*Conn).saslAuthenticate not found")
	}
	if fd := findFunc(sa, "Request", "Required"); fd != nil {
		s := src(f.fset, fd.Body)
		f.add("transportAuthFramingByHandshake", strings.Contains(s, "SaslHandshake]") && !strings.Contains(s, "SaslAuthenticate]"),
			"saslauthenticate.(*Request).Required indexes versions by SaslHandshake")
	} else {
		f.add("transportAuthFramingByHandshake", false, "saslauthenticate.(*Request).Required not found")
	}
	if fd := findFunc(tr, "connGroup", "connect"); fd != nil {
		deferOK, cleared := false, false
		guard := ""
		for _, st := range fd.Body.List {
			if d, ok := st.(*ast.DeferStmt); ok {
				if fl, ok := d.Call.Fun.(*ast.FuncLit); ok {
					ast.Inspect(fl.Body, func(n ast.Node) bool {
						if is, ok := n.(*ast.IfStmt); ok && containsCall(is.Body, ".Close") {
							if b, ok := is.Cond.(*ast.BinaryExpr); ok && b.Op == token.NEQ && src(f.fset, b.Y) == "nil" {
								guard = src(f.fset, b.X)
								if containsCall(is.Body, guard+".Close") {
									deferOK = true
								}
							}
						}
						return true
					})
				}
			}
		}
		// the guard variable is the dialled connection and is cleared only on the success path, right before the return
		n := len(fd.Body.List)
		if n >= 2 {
			if as, ok := fd.Body.List[n-2].(*ast.AssignStmt); ok && len(as.Lhs) == 1 && src(f.fset, as.Lhs[0]) == guard && src(f.fset, as.Rhs[0]) == "nil" {
				cleared = true
			}
		}
		dialled := false
		ast.Inspect(fd.Body, func(x ast.Node) bool {
			if as, ok := x.(*ast.AssignStmt); ok && len(as.Lhs) >= 1 && src(f.fset, as.Lhs[0]) == guard && len(as.Rhs) == 1 && containsCall(as.Rhs[0], ".dial") {
				dialled = true
			}
			return true
		})
		f.add("transportConnectClosesUnlessHandedOut", deferOK && cleared && dialled,
			fmt.Sprintf("connGroup.connect: defer closes %q when non-nil (%v), it is the dialled conn (%v), cleared right before the final return (%v)", guard, deferOK, dialled, cleared))
	} else {
		f.add("transportConnectClosesUnlessHandedOut", false, "(*connGroup).connect not found")
	}

	// ---- the event hooks sit inside the critical sections they name (the recorded order on one lock is the lock order)
	f.hookFacts(conn, batch, tr)

	// ---- a promise is paired with its request: sendRequest returns the very channel it puts into the connRequest,
	// and run resolves/rejects the promise of the request it has just exchanged
	if fd := findFunc(tr, "connPool", "sendRequest"); fd != nil {
		made, sent, returned := "", false, false
		ast.Inspect(fd.Body, func(n ast.Node) bool {
			switch x := n.(type) {
			case *ast.AssignStmt:
				if len(x.Lhs) == 1 && len(x.Rhs) == 1 {
					if c, ok := x.Rhs[0].(*ast.CallExpr); ok && selPath(c.Fun) == "make" && len(c.Args) >= 1 && src(f.fset, c.Args[0]) == "async" {
						made = src(f.fset, x.Lhs[0])
					}
				}
			case *ast.SendStmt:
				if cl, ok := x.Value.(*ast.CompositeLit); ok && src(f.fset, cl.Type) == "connRequest" {
					for _, el := range cl.Elts {
						if kv, ok := el.(*ast.KeyValueExpr); ok && src(f.fset, kv.Key) == "res" && src(f.fset, kv.Value) == made && made != "" {
							sent = true
						}
					}
				}
			case *ast.ReturnStmt:
				if len(x.Results) == 1 && src(f.fset, x.Results[0]) == made && made != "" {
					returned = true
				}
			}
			return true
		})
		f.add("promisePairedWithRequest", sent && returned, fmt.Sprintf("sendRequest: promise %q made, sent inside the connRequest (%v) and returned (%v)", made, sent, returned))
	} else {
		f.add("promisePairedWithRequest", false, "(*connPool).sendRequest not found")
	}
	if fd := findFunc(tr, "conn", "run"); fd != nil {
		ok := false
		ast.Inspect(fd.Body, func(n ast.Node) bool {
			rs, isR := n.(*ast.RangeStmt)
			if !isR || rs.Key == nil {
				return true
			}
			v := src(f.fset, rs.Key)
			body := src(f.fset, rs.Body)
			if strings.Contains(body, "roundTrip("+v+".ctx, ") && strings.Contains(body, v+".req)") &&
				strings.Contains(body, v+".res.resolve(") && strings.Contains(body, v+".res.reject(") {
				ok = true
			}
			return true
		})
		f.add("runAnswersItsOwnRequest", ok, "(*conn).run: one loop variable carries ctx, req and res; roundTrip(its req) → its res.resolve / its res.reject")
	} else {
		f.add("runAnswersItsOwnRequest", false, "(*conn).run not found")
	}

	// ---- waitResponse gives up alone only when it IS alone: the ErrNoProgress branch is guarded by concurrency() == 1
	if fd := findFunc(conn, "Conn", "waitResponse"); fd != nil {
		ok := false
		ast.Inspect(fd.Body, func(n ast.Node) bool {
			is, isIf := n.(*ast.IfStmt)
			if isIf && strings.Contains(src(f.fset, is.Body), "ErrNoProgress") {
				c := src(f.fset, is.Cond)
				if c == "c.concurrency() == 1" || (strings.HasSuffix(c, ".concurrency() == 1") && !strings.Contains(c, "&&") && !strings.Contains(c, "||")) {
					ok = true
				}
			}
			return true
		})
		f.add("loneOnlyWhenAlone", ok, "waitResponse: io.ErrNoProgress under `if c.concurrency() == 1`")
	} else {
		f.add("loneOnlyWhenAlone", false, "(*Conn).waitResponse not found")
	}

	sort.SliceStable(f.out, func(i, j int) bool { return false })
	var b strings.Builder
	b.WriteString("-- GENERATED by /verif/go/extract/muxfacts from /repo (conn.go, batch.go, transport.go, protocol/conn.go,\n-- protocol/roundtrip.go, protocol/saslauthenticate) — do not edit\nnamespace KV.Gen.MuxFacts\n")
	var names []string
	for _, x := range f.out {
		fmt.Fprintf(&b, "/-- %s -/\ndef %s : Bool := %v\n", strings.ReplaceAll(x.why, "-/", "- /"), x.name, x.ok)
		names = append(names, x.name)
	}
	b.WriteString("def all : List (String × Bool) := [" + strings.Join(func() []string {
		var l []string
		for _, n := range names {
			l = append(l, fmt.Sprintf("(%q, %s)", n, n))
		}
		return l
	}(), ", ") + "]\n")
	b.WriteString("/-! decision tables by symbolic execution: (scenario of predicate values, effects in order) -/\n")
	b.WriteString(f.flowTables(conn, tr))
	b.WriteString("end KV.Gen.MuxFacts\n")
	return os.WriteFile(filepath.Join(root, "lean", "KafkaVerif", "Gen", "MuxFacts.lean"), []byte(b.String()), 0o644)
}


// ---- hook placement -------------------------------------------------------------------------------------------

// pathTo returns the chain of statement lists (outermost first) leading to the statement that contains `target`,
// together with the index of the containing statement in each list.
type level struct {
	list []ast.Stmt
	idx  int
}

func stmtLists(n ast.Node) [][]ast.Stmt {
	var ls [][]ast.Stmt
	switch x := n.(type) {
	case *ast.BlockStmt:
		ls = append(ls, x.List)
	case *ast.IfStmt:
		ls = append(ls, x.Body.List)
		if x.Else != nil {
			ls = append(ls, stmtLists(x.Else)...)
		}
	case *ast.ForStmt:
		ls = append(ls, x.Body.List)
	case *ast.RangeStmt:
		ls = append(ls, x.Body.List)
	case *ast.SwitchStmt:
		for _, c := range x.Body.List {
			ls = append(ls, c.(*ast.CaseClause).Body)
		}
	case *ast.TypeSwitchStmt:
		for _, c := range x.Body.List {
			ls = append(ls, c.(*ast.CaseClause).Body)
		}
	case *ast.SelectStmt:
		for _, c := range x.Body.List {
			ls = append(ls, c.(*ast.CommClause).Body)
		}
	case *ast.LabeledStmt:
		ls = append(ls, stmtLists(x.Stmt)...)
	}
	return ls
}

func pathTo(list []ast.Stmt, target ast.Node) []level {
	for i, st := range list {
		if st.Pos() <= target.Pos() && target.End() <= st.End() {
			for _, sub := range stmtLists(st) {
				if p := pathTo(sub, target); p != nil {
					return append([]level{{list, i}}, p...)
				}
			}
			return []level{{list, i}}
		}
	}
	return nil
}

func isCallStmt(st ast.Stmt, suffix string) bool {
	es, ok := st.(*ast.ExprStmt)
	if !ok {
		return false
	}
	_, ok = callEnds(es.X, suffix)
	return ok
}

func leaves(list []ast.Stmt) bool {
	if len(list) == 0 {
		return false
	}
	switch x := list[len(list)-1].(type) {
	case *ast.ReturnStmt:
		return true
	case *ast.BranchStmt:
		return x.Tok == token.BREAK || x.Tok == token.CONTINUE || x.Tok == token.GOTO
	}
	return false
}

// heldAt: walking from the function body down to the hook, is the mutex (`.name.Lock()` / `.name.Unlock()`)
// held when control reaches the hook?  A nested branch that unlocks must leave (break / return / continue).
func heldAt(body *ast.BlockStmt, hook ast.Node, name string) bool {
	held := false
	for _, lv := range pathTo(body.List, hook) {
		for i := 0; i < lv.idx; i++ {
			st := lv.list[i]
			switch {
			case isCallStmt(st, "."+name+".Lock"):
				held = true
			case isCallStmt(st, "."+name+".Unlock"):
				held = false
			default:
				if _, isDefer := st.(*ast.DeferStmt); isDefer {
					continue
				}
				for _, sub := range stmtLists(st) {
					unl := false
					for _, s2 := range sub {
						if containsCall(s2, "."+name+".Unlock") {
							unl = true
						}
					}
					if unl && !leaves(sub) {
						held = false
					}
				}
			}
		}
	}
	return held
}

func (f *facts) hookFacts(conn, batch, tr *ast.File) {
	type want struct {
		file       *ast.File
		recv, fn   string
		kind, lock string // lock "" = no lock expected (single goroutine), "@before:<call>" = must precede that call in its block
	}
	wants := []want{
		{conn, "Conn", "doRequest", "C.Write", "wlock"},
		{conn, "Conn", "waitResponse", "C.Peek", "rlock"},
		{conn, "Conn", "do", "C.Body", "@before:lock.Unlock"},
		{batch, "Batch", "close", "C.Body", "@before:lock.Unlock"},
		{tr, "connGroup", "grabConn", "T.Grab", "mutex"},
		{tr, "connGroup", "grabConnTo", "T.Grab", "mutex"},
		{tr, "connGroup", "removeConn", "T.Remove", "mutex"},
		{tr, "connGroup", "releaseConn", "T.Release", "mutex"},
		{tr, "connGroup", "closeIdleConns", "T.CloseIdle", "mutex"},
		{tr, "conn", "run", "T.Recv", ""},
		{tr, "conn", "run", "T.Done", ""},
	}
	var bad []string
	n := 0
	for _, w := range wants {
		fd := findFunc(w.file, w.recv, w.fn)
		if fd == nil {
			bad = append(bad, w.fn+": not found")
			continue
		}
		found := 0
		ast.Inspect(fd.Body, func(x ast.Node) bool {
			c, ok := x.(*ast.CallExpr)
			if !ok || selPath(c.Fun) != "verifEvent" || len(c.Args) == 0 || src(f.fset, c.Args[0]) != "\""+w.kind+"\"" {
				return true
			}
			found++
			n++
			switch {
			case w.lock == "":
			case strings.HasPrefix(w.lock, "@before:"):
				call := strings.TrimPrefix(w.lock, "@before:")
				p := pathTo(fd.Body.List, c)
				ok := false
				// the unlock follows the hook in the hook's own block or in an enclosing one
				for li := len(p) - 1; li >= 0 && !ok; li-- {
					for j := p[li].idx + 1; j < len(p[li].list); j++ {
						if containsCall(p[li].list[j], call) {
							ok = true
						}
					}
					for j := 0; j < p[li].idx; j++ {
						if isCallStmt(p[li].list[j], call) {
							ok = false
							li = -1
							break
						}
					}
				}
				if !ok {
					bad = append(bad, w.fn+": "+w.kind+" not before "+call)
				}
			default:
				if !heldAt(fd.Body, c, w.lock) {
					bad = append(bad, w.fn+": "+w.kind+" outside "+w.lock)
				}
			}
			return true
		})
		if found == 0 {
			bad = append(bad, w.fn+": no "+w.kind+" hook")
		}
	}
	f.add("hooksInsideCriticalSections", len(bad) == 0, fmt.Sprintf("%d hook calls checked; misplaced: %v", n, bad))
}
