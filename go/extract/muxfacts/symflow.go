package main

import (
	"fmt"
	"go/ast"
	"go/token"
	"strings"
)

// A small symbolic executor for the decision structure of a function: conditions are classified into named
// predicates (by data flow and callee names, never by the spelling of locals), a scenario gives each predicate a
// truth value, statements of interest are recorded as effects.  if/else, tagless switch, for, break, continue,
// return are followed; the hook lines (`if verifOn {…}`) are skipped.  A loop is followed until it is left or comes
// round (effect "loop").

type sym struct {
	f        *facts
	classify func(e ast.Expr) string         // predicate name of an atomic condition, "" if unknown
	effect   func(n ast.Node) string         // effect name of a statement/call, "" if none
	scen     map[string]bool
	fixed    map[string]bool // predicates that are not enumerated
	effects  []string
	unknown  []string
	ctl      string // "", break, continue, return
	steps    int
}

func (s *sym) cond(e ast.Expr) bool {
	switch x := e.(type) {
	case *ast.ParenExpr:
		return s.cond(x.X)
	case *ast.UnaryExpr:
		if x.Op == token.NOT {
			return !s.cond(x.X)
		}
	case *ast.BinaryExpr:
		if x.Op == token.LAND {
			return s.cond(x.X) && s.cond(x.Y)
		}
		if x.Op == token.LOR {
			return s.cond(x.X) || s.cond(x.Y)
		}
	}
	s.note(e) // calls made while evaluating the condition (e.g. `!g.releaseConn(c)`)
	p := s.classify(e)
	neg := false
	if strings.HasPrefix(p, "!") {
		neg, p = true, p[1:]
	}
	if p == "" {
		s.unknown = append(s.unknown, "condition "+src(s.f.fset, e))
		return false
	}
	if v, ok := s.fixed[p]; ok {
		return v != neg
	}
	return s.scen[p] != neg
}

func (s *sym) note(n ast.Node) {
	ast.Inspect(n, func(x ast.Node) bool {
		if x == nil {
			return false
		}
		if _, isLit := x.(*ast.FuncLit); isLit {
			return false
		}
		if e := s.effect(x); e != "" {
			s.effects = append(s.effects, e)
		}
		return true
	})
}

func (s *sym) block(list []ast.Stmt) {
	for _, st := range list {
		if s.ctl != "" {
			return
		}
		s.stmt(st)
	}
}

func (s *sym) stmt(st ast.Stmt) {
	s.steps++
	if s.steps > 500 {
		s.ctl = "return"
		s.effects = append(s.effects, "<diverges>")
		return
	}
	switch x := st.(type) {
	case *ast.IfStmt:
		if src(s.f.fset, x.Cond) == "verifOn" {
			return
		}
		if x.Init != nil {
			s.note(x.Init)
		}
		if s.cond(x.Cond) {
			s.block(x.Body.List)
		} else if x.Else != nil {
			if b, ok := x.Else.(*ast.BlockStmt); ok {
				s.block(b.List)
			} else {
				s.stmt(x.Else)
			}
		}
	case *ast.SwitchStmt:
		if x.Tag != nil {
			// a switch on a value (e.g. the negotiated version): its clauses are alternatives of one step; follow the
			// default clause (or the first one)
			s.note(x.Tag)
			var pick *ast.CaseClause
			for _, cc := range x.Body.List {
				cl := cc.(*ast.CaseClause)
				if pick == nil || cl.List == nil {
					pick = cl
				}
			}
			if pick != nil {
				s.block(pick.Body)
			}
			if s.ctl == "break" {
				s.ctl = ""
			}
			return
		}
		var def *ast.CaseClause
		taken := false
		for _, cc := range x.Body.List {
			cl := cc.(*ast.CaseClause)
			if cl.List == nil {
				def = cl
				continue
			}
			for _, e := range cl.List {
				if !taken && s.cond(e) {
					taken = true
					s.block(cl.Body)
				}
			}
			if taken {
				break
			}
		}
		if !taken && def != nil {
			s.block(def.Body)
		}
		if s.ctl == "break" {
			s.ctl = "" // a break inside a switch leaves the switch
		}
	case *ast.ForStmt:
		for iter := 0; ; iter++ {
			if x.Cond != nil && !s.cond(x.Cond) {
				break
			}
			if iter == 1 {
				s.effects = append(s.effects, "loop")
				break
			}
			s.block(x.Body.List)
			if s.ctl == "break" {
				s.ctl = ""
				break
			}
			if s.ctl == "continue" {
				s.ctl = ""
			}
			if s.ctl == "return" {
				return
			}
		}
	case *ast.RangeStmt:
		// one iteration of the body
		s.block(x.Body.List)
		if s.ctl == "break" {
			s.ctl = ""
			s.effects = append(s.effects, "leave-loop")
		} else if s.ctl == "return" {
			// a return inside the loop leaves the loop too (and skips whatever follows the loop: ctl stays "return", so
			// effects after the loop, if any, still tell `return` and `break` apart)
			s.effects = append(s.effects, "leave-loop")
		} else if s.ctl == "" || s.ctl == "continue" {
			s.ctl = ""
			s.effects = append(s.effects, "next-iteration")
		}
	case *ast.BranchStmt:
		switch x.Tok {
		case token.BREAK:
			s.ctl = "break"
		case token.CONTINUE:
			s.ctl = "continue"
		}
	case *ast.ReturnStmt:
		s.note(x)
		s.ctl = "return"
	case *ast.BlockStmt:
		s.block(x.List)
	case *ast.DeferStmt:
		if e := s.effect(x); e != "" {
			s.effects = append(s.effects, e)
		} else if e := s.effect(x.Call); e != "" {
			s.effects = append(s.effects, "defer:"+e)
		}
	case *ast.GoStmt:
		if e := s.effect(x); e != "" {
			s.effects = append(s.effects, e)
		}
	default:
		s.note(st)
	}
}

// runScenarioList executes fd's body for the given named scenarios (each a full assignment of the predicates).
func (f *facts) runScenarioList(fd *ast.FuncDecl, names [][]string, scens []map[string]bool, classify func(ast.Expr) string, effect func(ast.Node) string) ([]string, []string) {
	var rows, unknown []string
	for i, sc := range scens {
		s := &sym{f: f, classify: classify, effect: effect, scen: sc}
		s.block(fd.Body.List)
		var eff []string
		for _, e := range s.effects {
			eff = append(eff, fmt.Sprintf("%q", e))
		}
		var nm []string
		for _, n := range names[i] {
			nm = append(nm, fmt.Sprintf("%q", n))
		}
		rows = append(rows, fmt.Sprintf("([%s], [%s])", strings.Join(nm, ", "), strings.Join(eff, ", ")))
		unknown = append(unknown, s.unknown...)
	}
	return rows, unknown
}

// runScenarios executes fd's body for every scenario and renders Lean rows `(["p=true", …], ["effect", …])`.
func (f *facts) runScenarios(fd *ast.FuncDecl, preds []string, classify func(ast.Expr) string, effect func(ast.Node) string) ([]string, []string) {
	return f.runScenariosFixed(fd, preds, nil, nil, classify, effect)
}

func (f *facts) runScenariosFixed(fd *ast.FuncDecl, preds []string, fixed map[string]bool, drop map[string]bool, classify func(ast.Expr) string, effect func(ast.Node) string) ([]string, []string) {
	var rows, unknown []string
	n := 1 << len(preds)
	for m := 0; m < n; m++ {
		sc := map[string]bool{}
		var name []string
		for i, p := range preds {
			sc[p] = m&(1<<i) != 0
			name = append(name, fmt.Sprintf("%q", fmt.Sprintf("%s=%v", p, sc[p])))
		}
		s := &sym{f: f, classify: classify, effect: effect, scen: sc, fixed: fixed}
		s.block(fd.Body.List)
		var eff []string
		prev := ""
		for _, e := range s.effects {
			if drop[e] || (drop["__dedupe"] && e == prev) {
				continue
			}
			prev = e
			eff = append(eff, fmt.Sprintf("%q", e))
		}
		rows = append(rows, fmt.Sprintf("([%s], [%s])", strings.Join(name, ", "), strings.Join(eff, ", ")))
		unknown = append(unknown, s.unknown...)
	}
	return rows, unknown
}


// ---- decision tables of the four functions the LTS models transcribe ------------------------------------------

func isNilCmp(f *facts, e ast.Expr, v string) (eq bool, ok bool) {
	b, isB := e.(*ast.BinaryExpr)
	if !isB || (b.Op != token.EQL && b.Op != token.NEQ) {
		return false, false
	}
	l, r := src(f.fset, b.X), src(f.fset, b.Y)
	if (l == v && r == "nil") || (r == v && l == "nil") {
		return b.Op == token.EQL, true
	}
	return false, false
}

func (f *facts) flowTables(conn, tr *ast.File) string {
	var b strings.Builder
	emit := func(name string, rows, unknown []string) {
		if len(unknown) > 0 {
			rows = append(rows, fmt.Sprintf("([%q], [%q])", "untranslated", strings.Join(unknown, "; ")))
		}
		fmt.Fprintf(&b, "def %s : List (List String × List String) := [\n  %s]\n", name, strings.Join(rows, ",\n  "))
	}

	// (*Conn).waitResponse
	if fd := findFunc(conn, "Conn", "waitResponse"); fd != nil {
		ps := paramNames(fd.Type)
		peekID, peekErr := "?", "?"
		ast.Inspect(fd.Body, func(n ast.Node) bool {
			if as, ok := n.(*ast.AssignStmt); ok && len(as.Rhs) == 1 && len(as.Lhs) == 3 {
				if _, isPeek := callEnds(as.Rhs[0], ".peekResponseSizeAndID"); isPeek {
					peekID, peekErr = src(f.fset, as.Lhs[1]), src(f.fset, as.Lhs[2])
				}
			}
			return true
		})
		classify := func(e ast.Expr) string {
			if eq, ok := isNilCmp(f, e, peekErr); ok {
				if eq {
					return "!peekFailed"
				}
				return "peekFailed"
			}
			if bx, ok := e.(*ast.BinaryExpr); ok && (bx.Op == token.EQL || bx.Op == token.NEQ) && len(ps) >= 2 {
				l, r := src(f.fset, bx.X), src(f.fset, bx.Y)
				neg := ""
				if bx.Op == token.NEQ {
					neg = "!"
				}
				if (l == ps[1] && r == peekID) || (r == ps[1] && l == peekID) {
					return neg + "idMatches"
				}
				if _, isC := callEnds(bx.X, ".concurrency"); isC && r == "1" {
					return neg + "alone"
				}
			}
			// the deadline test of the yield branch: `!deadline.IsZero() && !time.Now().Before(deadline)`
			if c, isC := e.(*ast.CallExpr); isC {
				switch p := src(f.fset, c.Fun); {
				case strings.HasSuffix(p, ".IsZero"):
					return "!hasDeadline"
				case strings.HasSuffix(p, ".Before") || strings.HasSuffix(p, ".After"):
					if strings.Contains(src(f.fset, c), "time.Now()") {
						if strings.HasSuffix(p, ".Before") {
							return "!deadlinePassed" // time.Now().Before(deadline)
						}
						return "deadlinePassed"
					}
				}
			}
			return ""
		}
		effect := func(n ast.Node) string {
			switch x := n.(type) {
			case *ast.CallExpr:
				for suf, name := range map[string]string{".rlock.Lock": "lock", ".rlock.Unlock": "unlock", ".conn.Close": "close", ".abortRead": "close",
					".skipResponseSizeAndID": "skip", ".leave": "leave", ".peekResponseSizeAndID": "peek",
					".setConnReadDeadline": "attach", ".unsetConnReadDeadline": "detach"} {
					if _, ok := callEnds(x, suf); ok {
						return name
					}
				}
			case *ast.AssignStmt:
				if len(x.Rhs) == 1 && src(f.fset, x.Rhs[0]) == "io.ErrNoProgress" {
					return "noProgress"
				}
			}
			return ""
		}
		rows, unk := f.runScenariosFixed(fd, []string{"peekFailed", "idMatches", "alone", "deadlinePassed", "hasDeadline"}, nil, nil, classify, effect)
		emit("waitResponseFlow", rows, unk)
	}

	// (*Conn).do
	if fd := findFunc(conn, "Conn", "do"); fd != nil {
		ps := paramNames(fd.Type)
		last := ""
		lockVar := "lock"
		ast.Inspect(fd.Body, func(n ast.Node) bool {
			if as, ok := n.(*ast.AssignStmt); ok && len(as.Rhs) == 1 && len(as.Lhs) == 4 {
				if _, isW := callEnds(as.Rhs[0], ".waitResponse"); isW {
					lockVar = src(f.fset, as.Lhs[2])
				}
			}
			return true
		})
		classify := func(e ast.Expr) string {
			if bx, ok := e.(*ast.BinaryExpr); ok && (bx.Op == token.EQL || bx.Op == token.NEQ) && src(f.fset, bx.Y) == "nil" {
				neg := ""
				if bx.Op == token.EQL {
					neg = "!"
				}
				switch last {
				case "doRequest":
					return neg + "requestFailed"
				case "waitResponse":
					return neg + "waitFailed"
				case "read":
					return neg + "readFailed"
				}
			}
			if _, ok := callEnds(e, "errors.As"); ok {
				return "isKafkaError"
			}
			return ""
		}
		effect := func(n ast.Node) string {
			c, ok := n.(*ast.CallExpr)
			if !ok {
				return ""
			}
			p := selPath(c.Fun)
			switch {
			case strings.HasSuffix(p, ".doRequest"):
				last = "doRequest"
				return "doRequest"
			case strings.HasSuffix(p, ".waitResponse"):
				last = "waitResponse"
				return "waitResponse"
			case len(ps) >= 3 && p == ps[2]:
				last = "read"
				return "read"
			case isConnClose(p):
				return "close"
			case strings.HasSuffix(p, ".unsetConnReadDeadline"):
				return "detach"
			case p == lockVar+".Unlock":
				return "unlock"
			}
			return ""
		}
		rows, unk := f.runScenarios(fd, []string{"requestFailed", "waitFailed", "readFailed", "isKafkaError"}, classify, effect)
		emit("doFlow", rows, unk)
	}

	// (*conn).run (transport.go)
	if fd := findFunc(tr, "conn", "run"); fd != nil {
		classify := func(e ast.Expr) string {
			if bx, ok := e.(*ast.BinaryExpr); ok && (bx.Op == token.EQL || bx.Op == token.NEQ) && src(f.fset, bx.Y) == "nil" {
				if bx.Op == token.EQL {
					return "!exchangeFailed"
				}
				return "exchangeFailed"
			}
			if c, ok := callEnds(e, "errors.Is"); ok && len(c.Args) == 2 && strings.HasSuffix(src(f.fset, c.Args[1]), "ErrNoRecord") {
				return "noRecord"
			}
			if _, ok := callEnds(e, ".releaseConn"); ok {
				return "released"
			}
			return ""
		}
		effect := func(n ast.Node) string {
			c, ok := n.(*ast.CallExpr)
			if !ok {
				return ""
			}
			p := selPath(c.Fun)
			switch {
			case strings.HasSuffix(p, ".roundTrip"):
				return "roundTrip"
			case strings.HasSuffix(p, ".res.reject"):
				return "reject"
			case strings.HasSuffix(p, ".res.resolve"):
				return "resolve"
			case strings.HasSuffix(p, ".releaseConn"):
				return "release"
			case strings.HasSuffix(p, ".Close"):
				return "closeSocket"
			}
			return ""
		}
		rows, unk := f.runScenarios(fd, []string{"exchangeFailed", "noRecord", "released"}, classify, effect)
		emit("runFlow", rows, unk)
	}
	// (*Conn).doRequest
	if fd := findFunc(conn, "Conn", "doRequest"); fd != nil {
		ps := paramNames(fd.Type)
		classify := func(e ast.Expr) string {
			if bx, ok := e.(*ast.BinaryExpr); ok && (bx.Op == token.EQL || bx.Op == token.NEQ) && src(f.fset, bx.Y) == "nil" {
				if bx.Op == token.EQL {
					return "!writeFailed"
				}
				return "writeFailed"
			}
			return ""
		}
		effect := func(n ast.Node) string {
			switch x := n.(type) {
			case *ast.IncDecStmt:
				if strings.HasSuffix(src(f.fset, x.X), ".correlationID") {
					return "nextId"
				}
			case *ast.CallExpr:
				p := selPath(x.Fun)
				switch {
				case strings.HasSuffix(p, ".enter"):
					return "enter"
				case strings.HasSuffix(p, ".leave"):
					return "leave"
				case strings.HasSuffix(p, ".wlock.Lock"):
					return "lock"
				case strings.HasSuffix(p, ".wlock.Unlock"):
					return "unlock"
				case isConnClose(p):
					return "close"
				case len(ps) >= 2 && p == ps[1]:
					return "write"
				}
			}
			return ""
		}
		rows, unk := f.runScenarios(fd, []string{"writeFailed"}, classify, effect)
		emit("doRequestFlow", rows, unk)
	}

	// protocol.RoundTrip
	if fd := findFunc(f.files["protocol/roundtrip.go"], "", "RoundTrip"); fd != nil {
		ps := paramNames(fd.Type)
		last := ""
		classify := func(e ast.Expr) string {
			if bx, ok := e.(*ast.BinaryExpr); ok && (bx.Op == token.EQL || bx.Op == token.NEQ) {
				l, r := src(f.fset, bx.X), src(f.fset, bx.Y)
				neg := ""
				if bx.Op == token.EQL {
					neg = "!"
				}
				if r == "nil" {
					if last == "write" {
						return neg + "writeFailed"
					}
					return neg + "readFailed"
				}
				if len(ps) >= 3 && (l == ps[2]) != (r == ps[2]) {
					return neg + "idMismatch"
				}
			}
			if _, ok := callEnds(e, "hasResponse"); ok {
				return "expectsResponse"
			}
			return ""
		}
		effect := func(n ast.Node) string {
			switch x := n.(type) {
			case *ast.CallExpr:
				switch selPath(x.Fun) {
				case "WriteRequest":
					last = "write"
					return "write"
				case "ReadResponse":
					last = "read"
					return "read"
				}
			case *ast.ReturnStmt:
				if len(x.Results) == 2 {
					a, e2 := src(f.fset, x.Results[0]), src(f.fset, x.Results[1])
					switch {
					case a == "nil" && e2 == "nil":
						return "return:nothing"
					case e2 == "nil":
						return "return:response"
					default:
						return "return:error"
					}
				}
			}
			return ""
		}
		rows, unk := f.runScenarios(fd, []string{"writeFailed", "expectsResponse", "readFailed", "idMismatch"}, classify, effect)
		emit("roundTripFlow", rows, unk)
	}

	// (*Dialer).connect and (*connGroup).connect: every way out, and whether the socket is closed on it
	last := ""
	errClassify := func(names map[string]string, extra func(ast.Expr) string) func(ast.Expr) string {
		return func(e ast.Expr) string {
			if bx, ok := e.(*ast.BinaryExpr); ok && (bx.Op == token.EQL || bx.Op == token.NEQ) && src(f.fset, bx.Y) == "nil" && strings.HasPrefix(src(f.fset, bx.X), "err") {
				neg := ""
				if bx.Op == token.EQL {
					neg = "!"
				}
				if p, ok := names[last]; ok {
					return neg + p
				}
			}
			return extra(e)
		}
	}
	if fd := findFunc(f.files["dialer.go"], "Dialer", "connect"); fd != nil {
		last = ""
		ctxOK := ""
		ast.Inspect(fd.Body, func(n ast.Node) bool {
			if as, ok := n.(*ast.AssignStmt); ok && len(as.Lhs) == 2 && len(as.Rhs) == 1 {
				if c, ok := as.Rhs[0].(*ast.CallExpr); ok && strings.HasSuffix(selPath(c.Fun), ".Deadline") {
					if id, ok := as.Lhs[1].(*ast.Ident); ok {
						ctxOK = id.Name
					}
				}
			}
			return true
		})
		classify := errClassify(map[string]string{"dial": "dialFailed", "split": "splitFailed", "auth": "authFailed"}, func(e ast.Expr) string {
			t := src(f.fset, e)
			switch {
			case strings.HasSuffix(t, ".Timeout != 0"):
				return "hasTimeout"
			case strings.HasSuffix(t, ".Deadline.IsZero()"):
				return "noDeadline"
			case strings.HasSuffix(t, ".SASLMechanism != nil"):
				return "sasl"
			}
			// `if deadline, ok := ctx.Deadline(); ok`: followed with a context that has a deadline (Timeout / Deadline set)
			if id, isID := e.(*ast.Ident); isID && ctxOK != "" && id.Name == ctxOK {
				return "ctxHasDeadline"
			}
			return ""
		})
		effect := func(n ast.Node) string {
			switch x := n.(type) {
			case *ast.CallExpr:
				p := selPath(x.Fun)
				switch {
				case strings.HasSuffix(p, ".SetDeadline") && len(x.Args) == 1:
					if src(f.fset, x.Args[0]) == "time.Time{}" {
						return "clearDeadline"
					}
					return "setDeadline"
				case strings.HasSuffix(p, ".dialContext"):
					last = "dial"
					return "dial"
				case p == "NewConnWith":
					return "wrap"
				case p == "splitHostPortNumber":
					last = "split"
					return "split"
				case strings.HasSuffix(p, ".authenticateSASL"):
					last = "auth"
					return "auth"
				case strings.HasSuffix(p, "onn.Close"):
					return "close"
				}
			case *ast.ReturnStmt:
				if len(x.Results) == 2 && src(f.fset, x.Results[1]) == "nil" {
					return "return:conn"
				}
				return "return:error"
			}
			return ""
		}
		// ctxHasDeadline is a dimension of its own: what the dial does must not depend on it (only the deadline bookkeeping may)
		// configuration flags (Timeout, Deadline, the context's deadline) are dimensions: nothing but the deadline bookkeeping
		// may depend on them (round 6: a fixed flag is an unexamined configuration)
		rows, unk := f.runScenariosFixed(fd, []string{"dialFailed", "sasl", "splitFailed", "authFailed", "ctxHasDeadline", "hasTimeout", "noDeadline"},
			nil, nil, classify, effect)
		emit("dialerConnectFlow", rows, unk)
	}
	if fd := findFunc(tr, "connGroup", "connect"); fd != nil {
		last = ""
		guard := ""
		classify := errClassify(map[string]string{"dial": "dialFailed", "apiVersions": "apiVersionsFailed", "split": "splitFailed", "auth": "authFailed"}, func(e ast.Expr) string {
			t := src(f.fset, e)
			switch {
			case strings.HasPrefix(t, "len(") && strings.HasSuffix(t, "> 1"):
				return "manyAddresses"
			case strings.HasSuffix(t, "ErrorCode != 0"):
				return "versionsErrorCode"
			case strings.HasSuffix(t, ".sasl != nil"):
				return "sasl"
			case strings.HasSuffix(t, ".ServerName == \"\""):
				return "noServerName"
			case strings.HasSuffix(t, "!= nil") && strings.Contains(strings.ToLower(t), "tls"):
				return "tls"
			}
			return ""
		})
		effect := func(n ast.Node) string {
			switch x := n.(type) {
			case *ast.DeferStmt:
				if fl, ok := x.Call.Fun.(*ast.FuncLit); ok && containsCall(fl.Body, ".Close") {
					ast.Inspect(fl.Body, func(y ast.Node) bool {
						if is, ok := y.(*ast.IfStmt); ok {
							if bx, ok := is.Cond.(*ast.BinaryExpr); ok && bx.Op == token.NEQ && src(f.fset, bx.Y) == "nil" && containsCall(is.Body, src(f.fset, bx.X)+".Close") {
								guard = src(f.fset, bx.X)
							}
						}
						return true
					})
					if guard != "" {
						return "defer:closeUnlessCleared"
					}
					return "defer:close?"
				}
			case *ast.GoStmt:
				if strings.HasSuffix(selPath(x.Call.Fun), ".run") {
					return "startRun"
				}
			case *ast.AssignStmt:
				if guard != "" && len(x.Lhs) == 1 && src(f.fset, x.Lhs[0]) == guard && src(f.fset, x.Rhs[0]) == "nil" {
					return "clearGuard"
				}
			case *ast.CallExpr:
				p := selPath(x.Fun)
				switch {
				case strings.HasSuffix(p, ".dial"):
					last = "dial"
					return "dial"
				case strings.HasSuffix(p, ".RoundTrip"):
					last = "apiVersions"
					return "apiVersions"
				case strings.HasSuffix(p, ".SetVersions"):
					return "setVersions"
				case strings.HasSuffix(p, ".SetDeadline") && len(x.Args) == 1:
					if src(f.fset, x.Args[0]) == "time.Time{}" {
						return "clearDeadline"
					}
					return "setDeadline"
				case p == "splitHostPortNumber":
					last = "split"
					return "split"
				case p == "authenticateSASL":
					last = "auth"
					return "auth"
				}
			case *ast.ReturnStmt:
				if len(x.Results) == 2 && src(f.fset, x.Results[1]) == "nil" {
					return "return:conn"
				}
				return "return:error"
			}
			return ""
		}
		rows, unk := f.runScenariosFixed(fd, []string{"dialFailed", "apiVersionsFailed", "versionsErrorCode", "sasl", "splitFailed", "authFailed", "tls", "manyAddresses"},
			map[string]bool{"noServerName": true},
			map[string]bool{"leave-loop": true, "next-iteration": true}, classify, effect)
		emit("transportConnectFlow", rows, unk)
	}
	// the idle stack of a connGroup: releaseConn, grabConn, removeConn, closeIdleConns
	poolEffect := func(n ast.Node) string {
		switch x := n.(type) {
		case *ast.CallExpr:
			p := selPath(x.Fun)
			switch {
			case strings.HasSuffix(p, ".mutex.Lock"):
				return "lock"
			case strings.HasSuffix(p, ".mutex.Unlock"):
				return "unlock"
			case strings.HasSuffix(p, ".close"):
				return "closeConn"
			}
		case *ast.AssignStmt:
			if len(x.Lhs) == 1 && len(x.Rhs) == 1 && strings.HasSuffix(src(f.fset, x.Lhs[0]), ".idleConns") {
				r := src(f.fset, x.Rhs[0])
				switch {
				case strings.HasPrefix(r, "append("):
					return "push"
				case r == "nil":
					return "clearIdle"
				case strings.Contains(r, "[:"):
					return "pop"
				}
			}
			if len(x.Lhs) == 1 && strings.HasSuffix(src(f.fset, x.Lhs[0]), ".closed") && src(f.fset, x.Rhs[0]) == "true" {
				return "markClosed"
			}
		case *ast.ReturnStmt:
			if len(x.Results) == 1 {
				switch r := src(f.fset, x.Results[0]); r {
				case "true", "false", "nil":
					return "return:" + r
				default:
					return "return:conn"
				}
			}
		}
		return ""
	}
	poolClassify := func(e ast.Expr) string {
		t := src(f.fset, e)
		switch {
		case strings.HasSuffix(t, ".closed"):
			return "groupClosed"
		case strings.HasSuffix(t, ".timer != nil"):
			return "hasTimer"
		case strings.HasPrefix(t, "len(") && strings.HasSuffix(t, ".idleConns) == 0"):
			return "idleEmpty"
		}
		if bx, ok := e.(*ast.BinaryExpr); ok && bx.Op == token.EQL {
			if _, isID := bx.X.(*ast.Ident); isID {
				if _, isID2 := bx.Y.(*ast.Ident); isID2 {
					return "isThisConn"
				}
			}
		}
		// grabConnTo (the Resolver path): the scan of the idle stack and its address test
		if bx, ok := e.(*ast.BinaryExpr); ok && bx.Op == token.GEQ && src(f.fset, bx.Y) == "0" {
			return "idleLeft"
		}
		if strings.Contains(t, ".network ==") || strings.Contains(t, ".address ==") {
			return "addressMatches" // both halves of `c.network == network && c.address == address`
		}
		return ""
	}
	for _, fn := range []struct {
		name  string
		preds []string
	}{{"releaseConn", []string{"groupClosed", "hasTimer"}}, {"grabConn", []string{"idleEmpty", "hasTimer"}},
		{"removeConn", []string{"hasTimer", "isThisConn"}}, {"closeIdleConns", nil},
		{"grabConnTo", []string{"idleLeft", "addressMatches", "hasTimer"}}} {
		if fd := findFunc(tr, "connGroup", fn.name); fd != nil {
			rows, unk := f.runScenariosFixed(fd, fn.preds, nil, map[string]bool{"leave-loop": true, "next-iteration": true}, poolClassify, poolEffect)
			emit(fn.name+"Flow", rows, unk)
		}
	}

	// the three small wrappers: (*Conn).saslHandshake, saslHandshakeRoundTrip, saslAuthenticateRoundTrip
	wrapClassify := func(e ast.Expr) string {
		if bx, ok := e.(*ast.BinaryExpr); ok {
			l, r := src(f.fset, bx.X), src(f.fset, bx.Y)
			neg := ""
			if bx.Op == token.EQL {
				neg = "!"
			}
			if (bx.Op == token.EQL || bx.Op == token.NEQ) && r == "nil" && strings.HasPrefix(l, "err") {
				if last == "negotiate" {
					return neg + "negotiateFailed"
				}
				return neg + "exchangeFailed"
			}
			if bx.Op == token.NEQ && strings.HasSuffix(l, ".ErrorCode") && r == "0" {
				return "errorCodeInAnswer"
			}
		}
		return ""
	}
	wrapEffect := func(n ast.Node) string {
		switch x := n.(type) {
		case *ast.CallExpr:
			p := selPath(x.Fun)
			switch {
			case strings.HasSuffix(p, ".negotiateVersion") && len(x.Args) > 0:
				last = "negotiate"
				return "negotiate:" + src(f.fset, x.Args[0])
			case strings.HasSuffix(p, ".writeOperation") || strings.HasSuffix(p, ".RoundTrip"):
				last = "exchange"
				return "exchange"
			case p == "Error" || p == "makeError":
				return "kafkaError"
			}
		case *ast.ReturnStmt:
			return "return"
		}
		return ""
	}
	for _, fn := range []struct {
		file         *ast.File
		recv, name   string
		lean         string
		preds        []string
	}{{conn, "Conn", "saslHandshake", "connSaslHandshakeFlow", []string{"negotiateFailed", "exchangeFailed", "errorCodeInAnswer"}},
		{tr, "", "saslHandshakeRoundTrip", "saslHandshakeRoundTripFlow", []string{"exchangeFailed", "errorCodeInAnswer"}},
		{tr, "", "saslAuthenticateRoundTrip", "saslAuthenticateRoundTripFlow", []string{"exchangeFailed", "errorCodeInAnswer"}}} {
		if fd := findFunc(fn.file, fn.recv, fn.name); fd != nil {
			last = ""
			rows, unk := f.runScenarios(fd, fn.preds, wrapClassify, wrapEffect)
			emit(fn.lean, rows, unk)
		}
	}

	// the two users of the multiplexer that do not go through (*Conn).do: ApiVersions and ReadBatchWith
	muxEffect := func(extra func(p string, c *ast.CallExpr) string) func(ast.Node) string {
		return func(n ast.Node) string {
			switch x := n.(type) {
			case *ast.DeferStmt:
				if strings.HasSuffix(selPath(x.Call.Fun), ".Unlock") {
					return "defer:unlock"
				}
			case *ast.CallExpr:
				p := selPath(x.Fun)
				switch {
				case strings.HasSuffix(p, ".doRequest"):
					last = "doRequest"
					return "doRequest"
				case strings.HasSuffix(p, ".waitResponse"):
					last = "waitResponse"
					return "waitResponse"
				case strings.HasSuffix(p, ".unsetConnReadDeadline"):
					return "detach"
				case isConnClose(p):
					return "close"
				}
				return extra(p, x)
			case *ast.ReturnStmt:
				for _, r := range x.Results {
					if u, ok := r.(*ast.UnaryExpr); ok {
						if cl, ok := u.X.(*ast.CompositeLit); ok && src(f.fset, cl.Type) == "Batch" {
							for _, el := range cl.Elts {
								if kv, ok := el.(*ast.KeyValueExpr); ok && src(f.fset, kv.Key) == "lock" {
									return "return:batchHoldingTheLock"
								}
							}
							return "return:batchWithErrorOnly"
						}
					}
				}
				return "return"
			}
			return ""
		}
	}
	errAfter := func(names map[string]string, extra func(ast.Expr) string) func(ast.Expr) string {
		return func(e ast.Expr) string {
			if bx, ok := e.(*ast.BinaryExpr); ok && (bx.Op == token.EQL || bx.Op == token.NEQ) && src(f.fset, bx.Y) == "nil" && strings.HasPrefix(src(f.fset, bx.X), "err") {
				neg := ""
				if bx.Op == token.EQL {
					neg = "!"
				}
				if p, ok := names[last]; ok {
					return neg + p
				}
			}
			return extra(e)
		}
	}
	if fd := findFunc(conn, "Conn", "ApiVersions"); fd != nil {
		// The meaning of `err` changes along the function (request, wait, body, then possibly the size check's error):
		// the closures follow it.  `overwritten`: err was assigned the error of expectZeroSize (never a kafka.Error).
		last = ""
		overwritten, sizeChecked := false, false
		classify := func(e ast.Expr) string {
			t := src(f.fset, e)
			if bx, ok := e.(*ast.BinaryExpr); ok && (bx.Op == token.EQL || bx.Op == token.NEQ) && src(f.fset, bx.Y) == "nil" {
				neg := ""
				if bx.Op == token.EQL {
					neg = "!"
				}
				if src(f.fset, bx.X) == "err" {
					switch last {
					case "doRequest":
						return neg + "requestFailed"
					case "waitResponse":
						return neg + "waitFailed"
					case "body":
						if overwritten {
							return neg + "always"
						}
						return neg + "bodyFailed"
					}
				} else if sizeChecked {
					return neg + "trailingBytes"
				}
			}
			if c, ok := e.(*ast.CallExpr); ok && selPath(c.Fun) == "errors.As" && len(c.Args) == 2 && src(f.fset, c.Args[0]) == "err" {
				if overwritten {
					return "never"
				}
				return "bodyKafkaError"
			}
			switch {
			case strings.HasSuffix(t, ".IsZero()"):
				return "noReadDeadline"
			case strings.Contains(t, "/6") || strings.HasSuffix(t, "< 0"):
				return "countOutOfBounds"
			case strings.HasSuffix(t, "!= 0"):
				return "errorCodeInAnswer"
			}
			if bx, ok := e.(*ast.BinaryExpr); ok && bx.Op == token.LSS {
				return "moreEntries"
			}
			return ""
		}
		base := muxEffect(func(p string, c *ast.CallExpr) string {
			switch {
			case p == "readInt16" || p == "readInt32" || strings.HasSuffix(p, ".readApiVersions"):
				last = "body"
				return "readBody"
			case p == "expectZeroSize":
				sizeChecked = true
				return "checkSize"
			}
			return ""
		})
		effect := func(n ast.Node) string {
			if as, ok := n.(*ast.AssignStmt); ok && as.Tok == token.ASSIGN && len(as.Lhs) == 1 && len(as.Rhs) == 1 &&
				src(f.fset, as.Lhs[0]) == "err" && sizeChecked {
				if id, ok := as.Rhs[0].(*ast.Ident); ok && id.Name != "err" {
					overwritten = true
				}
			}
			r := base(n)
			if r == "doRequest" {
				overwritten, sizeChecked = false, false
			}
			return r
		}
		var names [][]string
		var scens []map[string]bool
		mk := func(req, wait bool, body string, trailing bool) map[string]bool {
			return map[string]bool{"requestFailed": req, "waitFailed": wait, "bodyFailed": body != "ok", "bodyKafkaError": body == "kafka",
				"trailingBytes": trailing, "always": true, "never": false,
				"noReadDeadline": false, "countOutOfBounds": false, "errorCodeInAnswer": false, "moreEntries": false}
		}
		names = append(names, []string{"requestFailed=true"}, []string{"waitFailed=true"})
		scens = append(scens, mk(true, false, "ok", false), mk(false, true, "ok", false))
		for _, body := range []string{"ok", "kafka", "other"} {
			for _, tr := range []bool{false, true} {
				names = append(names, []string{"body=" + body, fmt.Sprintf("trailingBytes=%v", tr)})
				scens = append(scens, mk(false, false, body, tr))
			}
		}
		rows, unk := f.runScenarioList(fd, names, scens, classify, effect)
		emit("apiVersionsFlow", rows, unk)
	}
	if fd := findFunc(conn, "Conn", "ReadBatchWith"); fd != nil {
		hdrFwd := f.forwarders(conn, func(n string) bool { return strings.HasPrefix(n, "readFetchResponseHeaderV") })
		last = ""
		classify := errAfter(map[string]string{"seek": "seekFailed", "negotiate": "negotiateFailed", "doRequest": "requestFailed",
			"waitResponse": "waitFailed", "header": "headerFailed", "drain": "headerFailed", "newReader": "firstHeaderFailed"}, func(e ast.Expr) string {
			t := src(f.fset, e)
			switch {
			case strings.Contains(t, "cfg.M") && !strings.Contains(t, "MaxWait"):
				return "badConfig"
			case strings.Contains(t, "MaxWait"):
				return "explicitMaxWait"
			case strings.Contains(t, "errShortRead"):
				return "shortRead"
			}
			if bx, ok := e.(*ast.BinaryExpr); ok && bx.Op == token.EQL {
				return "atWatermark"
			}
			if bx, ok := e.(*ast.BinaryExpr); ok && bx.Op == token.GTR && src(f.fset, bx.Y) == "0" {
				return "setNotEmpty"
			}
			return ""
		})
		effect := muxEffect(func(p string, c *ast.CallExpr) string {
			switch {
			case strings.HasSuffix(p, ".Seek"):
				last = "seek"
				return "seek"
			case strings.HasSuffix(p, ".negotiateVersion"):
				last = "negotiate"
				return "negotiate"
			case strings.HasPrefix(p, "readFetchResponseHeaderV") || hdrFwd[lastName(p)]:
				last = "header"
				return "readHeader"
			case p == "discardOnKafkaError":
				last = "drain"
				return "drainOnKafkaError"
			case p == "newMessageSetReader":
				last = "newReader"
				return "newMessageSetReader"
			case p == "discardN":
				last = "newReader"
				return "skipSetAtWatermark"
			}
			return ""
		})
		rows, unk := f.runScenariosFixed(fd, []string{"seekFailed", "negotiateFailed", "requestFailed", "waitFailed", "headerFailed", "atWatermark", "setNotEmpty"},
			map[string]bool{"badConfig": false, "explicitMaxWait": true, "shortRead": false, "firstHeaderFailed": false}, nil, classify, effect)
		emit("readBatchWithFlow", rows, unk)
	}

	// (*Batch).close: what is discarded, when the conn is closed, that the lock is released
	if fd := findFunc(f.files["batch.go"], "Batch", "close"); fd != nil {
		discardVar := ""
		ast.Inspect(fd.Body, func(n ast.Node) bool {
			if as, ok := n.(*ast.AssignStmt); ok && len(as.Lhs) == 1 && len(as.Rhs) == 1 {
				if c, ok := as.Rhs[0].(*ast.CallExpr); ok && strings.HasSuffix(selPath(c.Fun), ".msgs.discard") {
					if id, ok := as.Lhs[0].(*ast.Ident); ok {
						discardVar = id.Name
					}
				}
			}
			return true
		})
		classify := func(e ast.Expr) string {
			t := src(f.fset, e)
			switch {
			case strings.HasSuffix(t, ".msgs != nil"):
				return "hasMsgs"
			case strings.HasSuffix(t, ".decompressed != nil"):
				return "hasDecompressed"
			case strings.HasSuffix(t, ".err == nil"):
				return "batchErrNil"
			case t == "conn != nil" || strings.HasSuffix(t, "conn != nil"):
				return "connSet"
			case t == "lock != nil" || strings.HasSuffix(t, "lock != nil"):
				return "hasLock"
			case t == "err != nil":
				return "errLeft"
			}
			// the result of msgs.discard(), kept in a local: `<local> != nil`
			if bx, ok := e.(*ast.BinaryExpr); ok && bx.Op == token.NEQ && src(f.fset, bx.Y) == "nil" {
				if id, ok := bx.X.(*ast.Ident); ok && discardVar != "" && id.Name == discardVar {
					return "discardFailed"
				}
			}
			if c, ok := e.(*ast.CallExpr); ok {
				switch selPath(c.Fun) {
				case "errors.As":
					return "isKafkaError"
				case "errors.Is":
					if len(c.Args) == 2 && strings.HasSuffix(src(f.fset, c.Args[1]), "ErrShortBuffer") {
						return "isShortBuffer"
					}
					if len(c.Args) == 2 && strings.HasSuffix(src(f.fset, c.Args[1]), "io.EOF") {
						return "isEOF"
					}
				}
			}
			return ""
		}
		effect := func(n ast.Node) string {
			c, ok := n.(*ast.CallExpr)
			if !ok {
				return ""
			}
			p := selPath(c.Fun)
			switch {
			case strings.HasSuffix(p, ".msgs.discard"):
				return "discard"
			case strings.HasSuffix(p, "onn.Close"):
				return "closeConn"
			case strings.HasSuffix(p, "lock.Unlock"):
				return "unlock"
			case strings.HasSuffix(p, ".unsetConnReadDeadline"):
				return "detach"
			}
			return ""
		}
		var names [][]string
		var scens []map[string]bool
		for _, hm := range []bool{true, false} {
			for _, cls := range []string{"nil", "eof", "kafka", "short", "other"} {
				for _, df := range []bool{false, true} {
					if df && !hm {
						continue // nothing to discard
					}
					// a failed discard replaces the error Close goes by (never a kafka.Error, never io.ErrShortBuffer)
					names = append(names, []string{fmt.Sprintf("hasMsgs=%v", hm), "err=" + cls, fmt.Sprintf("discardFailed=%v", df)})
					scens = append(scens, map[string]bool{"hasMsgs": hm, "hasDecompressed": false, "connSet": true, "hasLock": true, "discardFailed": df,
						"batchErrNil": cls == "nil", "isEOF": cls == "eof", "errLeft": df || cls == "kafka" || cls == "short" || cls == "other",
						"isKafkaError": !df && cls == "kafka", "isShortBuffer": !df && cls == "short"})
				}
			}
		}
		rows, unk := f.runScenarioList(fd, names, scens, classify, effect)
		emit("batchCloseFlow", rows, unk)
	}

	// (*Conn).saslAuthenticate: raw versus framed, and every way the un-framed exchange can fail
	if fd := findFunc(conn, "Conn", "saslAuthenticate"); fd != nil {
		last = ""
		lenVar := ""
		ast.Inspect(fd.Body, func(n ast.Node) bool {
			if c, ok := n.(*ast.CallExpr); ok && selPath(c.Fun) == "readInt32" && len(c.Args) == 3 {
				if u, ok := c.Args[2].(*ast.UnaryExpr); ok {
					lenVar = src(f.fset, u.X)
				}
			}
			return true
		})
		classify := func(e ast.Expr) string {
			t := src(f.fset, e)
			if bx, ok := e.(*ast.BinaryExpr); ok {
				l, r := src(f.fset, bx.X), src(f.fset, bx.Y)
				neg := ""
				if bx.Op == token.EQL {
					neg = "!"
				}
				if (bx.Op == token.EQL || bx.Op == token.NEQ) && r == "nil" && strings.HasPrefix(l, "err") {
					switch last {
					case "negotiate":
						return neg + "negotiateFailed"
					case "framed":
						return neg + "framedExchangeFailed"
					case "rawWrite":
						return neg + "writeFailed"
					case "rawFlush":
						return neg + "flushFailed"
					case "rawReadLen":
						return neg + "lengthReadFailed"
					}
				}
				if bx.Op == token.EQL && r == "v1" {
					return "handshakeWasV1"
				}
				if bx.Op == token.EQL && r == "v0" {
					return "!handshakeWasV1"
				}
				if bx.Op == token.NEQ && strings.HasSuffix(l, ".ErrorCode") && r == "0" {
					return "errorCodeInAnswer"
				}
				if bx.Op == token.LSS && l == lenVar && r == "0" {
					return "negativeLength"
				}
			}
			_ = t
			return ""
		}
		effect := func(n ast.Node) string {
			switch x := n.(type) {
			case *ast.CallExpr:
				p := selPath(x.Fun)
				switch {
				case strings.HasSuffix(p, ".negotiateVersion") && len(x.Args) > 0:
					last = "negotiate"
					return "negotiate:" + src(f.fset, x.Args[0])
				case strings.HasSuffix(p, ".writeOperation") || strings.HasSuffix(p, ".readOperation"):
					last = "framed"
					return "framedExchange"
				case strings.HasSuffix(p, ".wb.writeInt32"):
					return "rawLength"
				case strings.HasSuffix(p, ".wb.Write"):
					last = "rawWrite"
					return "rawWrite"
				case strings.HasSuffix(p, ".wb.Flush"):
					last = "rawFlush"
					return "rawFlush"
				case p == "readInt32":
					last = "rawReadLen"
					return "rawReadLength"
				case p == "readNewBytes":
					return "rawReadBody"
				}
			case *ast.AssignStmt:
				// `err = Error(response.ErrorCode)`: the broker's error code becomes the result
				if len(x.Rhs) == 1 {
					if c, isC := x.Rhs[0].(*ast.CallExpr); isC && selPath(c.Fun) == "Error" {
						return "kafkaError"
					}
				}
			case *ast.ReturnStmt:
				if len(x.Results) == 2 {
					if src(f.fset, x.Results[0]) == "nil" {
						return "return:error"
					}
					return "return:data,err"
				}
			}
			return ""
		}
		// the framed branch has outcomes of its own (the exchange fails / the answer carries an error code): dimensions too
		rows, unk := f.runScenariosFixed(fd, []string{"negotiateFailed", "handshakeWasV1", "writeFailed", "flushFailed", "lengthReadFailed", "negativeLength",
			"framedExchangeFailed", "errorCodeInAnswer"}, nil, nil, classify, effect)
		emit("connSaslAuthenticateFlow", rows, unk)
	}

	// protocol.(*Conn).RoundTrip: the raw exchange is chosen by the message, never by the caller
	if fd := findFunc(f.files["protocol/conn.go"], "Conn", "RoundTrip"); fd != nil {
		okVar := ""
		ast.Inspect(fd.Body, func(n ast.Node) bool {
			if is, isIf := n.(*ast.IfStmt); isIf && is.Init != nil {
				if as, isAs := is.Init.(*ast.AssignStmt); isAs && len(as.Lhs) == 2 && strings.Contains(src(f.fset, as.Rhs[0]), "RawExchanger") {
					okVar = src(f.fset, as.Lhs[1])
				}
			}
			return true
		})
		classify := func(e ast.Expr) string {
			t := src(f.fset, e)
			switch {
			case t == okVar && okVar != "":
				return "isRawExchanger"
			case strings.HasSuffix(t, "!= nil"):
				return "isPrepared"
			}
			if c, ok := e.(*ast.CallExpr); ok && strings.HasSuffix(selPath(c.Fun), ".Required") {
				return "rawRequired"
			}
			return ""
		}
		effect := func(n ast.Node) string {
			c, ok := n.(*ast.CallExpr)
			if !ok {
				return ""
			}
			p := selPath(c.Fun)
			switch {
			case p == "atomic.AddInt32":
				return "nextId"
			case strings.HasSuffix(p, ".Prepare"):
				return "prepare"
			case strings.HasSuffix(p, ".RawExchange"):
				return "rawExchange"
			case p == "RoundTrip":
				return "framedRoundTrip"
			}
			return ""
		}
		rows, unk := f.runScenarios(fd, []string{"isPrepared", "isRawExchanger", "rawRequired"}, classify, effect)
		emit("protocolConnRoundTripFlow", rows, unk)
	}
	return b.String()
}
