package main

// Translator "connlegacy": re-emits, from /repo's working tree (go/parser only, nothing is executed),
//   * the response parsers of the root package written as `readFrom(r *bufio.Reader, size int)` methods,
//   * the struct layouts read through `read()` / reflection (metadataResponseV1/V6),
//   * per (*Conn) method the set of framing helpers it calls (expectZeroSize, discardOnKafkaError, readResponse, …)
//     and the version lists passed to negotiateVersion,
// as Lean definitions over KV.ConnOps.Step in lean/KafkaVerif/Gen/ConnLegacy.lean.
// The accepted Go subset is the very regular shape of those methods; anything else is reported as untranslated
// (an error for the required types — the check then reports a broken obligation).

import (
	"fmt"
	"go/ast"
	"go/parser"
	"go/token"
	"os"
	"path/filepath"
	"sort"
	"strings"
)

func init() { extractors["connlegacy"] = extractConnLegacy }

type clx struct {
	funcs   map[string]*ast.FuncDecl   // "T.readFrom"
	structs map[string]*ast.StructType // type name -> struct
	memo    map[string]string
	busy    map[string]bool
}

var requiredReadFrom = []string{
	"findCoordinatorResponseV0", "heartbeatResponseV0", "joinGroupResponse", "leaveGroupResponseV0",
	"listGroupsResponseV1", "offsetCommitResponseV2", "offsetFetchResponseV1", "syncGroupResponseV0",
	"saslHandshakeResponseV0", "saslAuthenticateResponseV0", "createTopicsResponse", "deleteTopicsResponse",
	"partitionOffsetV1", "produceResponsePartitionV2", "produceResponsePartitionV7",
}
var requiredStructs = []string{"metadataResponseV1", "metadataResponseV6"}

var connMethods = []string{"Controller", "Brokers", "findCoordinator", "heartbeat", "joinGroup", "leaveGroup", "listGroups",
	"offsetCommit", "offsetFetch", "syncGroup", "ReadBatchWith", "readOffset", "ReadPartitions", "readPartitionsResponse",
	"writeCompressedMessages", "readResponse", "do", "waitResponse", "ApiVersions", "saslHandshake", "saslAuthenticate",
	"createTopics", "deleteTopics"}
var helperNames = map[string]bool{"expectZeroSize": true, "discardOnKafkaError": true, "readResponse": true, "readFrom": true,
	"negotiateVersion": true, "readArrayWith": true, "discardString": true, "discardInt32": true, "Close": true,
	"readFetchResponseHeaderV2": true, "readFetchResponseHeaderV5": true, "readFetchResponseHeaderV10": true,
	"newMessageSetReader": true, "waitResponse": true, "doRequest": true, "do": true, "readOperation": true, "writeOperation": true,
	"readPartitionsResponse": true, "discardN": true, "read": true}

// recvIdent is the name of the receiver variable ("c" if it has none).
func recvIdent(fd *ast.FuncDecl) string {
	if fd.Recv != nil && len(fd.Recv.List) == 1 && len(fd.Recv.List[0].Names) == 1 {
		return fd.Recv.List[0].Names[0].Name
	}
	return "c"
}

func recvName(fd *ast.FuncDecl) string {
	if fd.Recv == nil || len(fd.Recv.List) != 1 {
		return ""
	}
	switch t := fd.Recv.List[0].Type.(type) {
	case *ast.Ident:
		return t.Name
	case *ast.StarExpr:
		if id, ok := t.X.(*ast.Ident); ok {
			return id.Name
		}
	}
	return ""
}

func isErrField(name string) bool { return strings.HasSuffix(name, "ErrorCode") }

// fieldOf returns the selector's field name of `&t.F` / `&p.F`.
func fieldOf(e ast.Expr) string {
	if u, ok := e.(*ast.UnaryExpr); ok && u.Op == token.AND {
		if s, ok := u.X.(*ast.SelectorExpr); ok {
			return s.Sel.Name
		}
	}
	return ""
}

func (x *clx) prim(fn string, args []ast.Expr) (string, error) {
	field := ""
	if len(args) == 3 {
		field = fieldOf(args[2])
	}
	switch fn {
	case "readInt8", "readBool":
		return ".int 1", nil
	case "readInt16":
		if isErrField(field) {
			return ".err", nil
		}
		return ".int 2", nil
	case "readInt32":
		return ".int 4", nil
	case "readInt64":
		return ".int 8", nil
	case "readString":
		return ".str", nil
	case "readBytes":
		return ".bytes", nil
	case "readStringArray":
		return ".arr [.str]", nil
	case "readMapStringInt32":
		return ".arr [.str, .arr [.int 4]]", nil
	}
	return "", fmt.Errorf("untranslated reader call %s", fn)
}

// version constant vN -> N
func verConst(e ast.Expr) (int, bool) {
	id, ok := e.(*ast.Ident)
	if !ok || !strings.HasPrefix(id.Name, "v") {
		return 0, false
	}
	n := 0
	if _, err := fmt.Sscanf(id.Name[1:], "%d", &n); err != nil {
		return 0, false
	}
	return n, true
}

// call translates a call expression occurring as the right-hand side of `remain, err = <call>`.
func (x *clx) call(c *ast.CallExpr, closures map[string]string) (string, error) {
	switch f := c.Fun.(type) {
	case *ast.Ident:
		if f.Name == "readArrayWith" && len(c.Args) == 3 {
			if id, ok := c.Args[2].(*ast.Ident); ok {
				if body, ok := closures[id.Name]; ok {
					return ".arr [" + body + "]", nil
				}
			}
			return "", fmt.Errorf("untranslated readArrayWith callback")
		}
		return x.prim(f.Name, c.Args)
	case *ast.SelectorExpr: // (&t.Coordinator).readFrom(r, remain) / (&item).readFrom(r, size)
		if f.Sel.Name != "readFrom" {
			return "", fmt.Errorf("untranslated method call %s", f.Sel.Name)
		}
		return "", fmt.Errorf("nested readFrom must be resolved by the caller")
	}
	return "", fmt.Errorf("untranslated call")
}

// typeOfNested finds the type of the receiver expression of a nested readFrom call.
func (x *clx) nestedType(owner string, recv ast.Expr, locals map[string]string) (string, error) {
	if p, ok := recv.(*ast.ParenExpr); ok {
		recv = p.X
	}
	if u, ok := recv.(*ast.UnaryExpr); ok && u.Op == token.AND {
		switch t := u.X.(type) {
		case *ast.Ident:
			if ty, ok := locals[t.Name]; ok {
				return ty, nil
			}
		case *ast.SelectorExpr: // t.Field
			st := x.structs[owner]
			if st != nil {
				for _, f := range st.Fields.List {
					for _, n := range f.Names {
						if n.Name == t.Sel.Name {
							if id, ok := f.Type.(*ast.Ident); ok {
								return id.Name, nil
							}
						}
					}
				}
			}
		}
	}
	return "", fmt.Errorf("untranslated receiver of nested readFrom in %s", owner)
}

func (x *clx) stmts(owner string, list []ast.Stmt, closures map[string]string, locals map[string]string, retNames [2]string) (string, error) {
	var out []string
	for _, st := range list {
		switch s := st.(type) {
		case *ast.ReturnStmt:
			if len(s.Results) == 0 {
				continue
			}
			if len(s.Results) == 1 {
				if c, ok := s.Results[0].(*ast.CallExpr); ok {
					t, err := x.callOrNested(owner, c, closures, locals)
					if err != nil {
						return "", err
					}
					out = append(out, t)
					continue
				}
			}
			return "", fmt.Errorf("%s: untranslated return with values", owner)
		case *ast.DeclStmt: // var item T
			gd, ok := s.Decl.(*ast.GenDecl)
			if !ok || gd.Tok != token.VAR {
				return "", fmt.Errorf("%s: untranslated declaration", owner)
			}
			for _, sp := range gd.Specs {
				vs := sp.(*ast.ValueSpec)
				if id, ok := vs.Type.(*ast.Ident); ok && len(vs.Names) == 1 && len(vs.Values) == 0 {
					locals[vs.Names[0].Name] = id.Name
				} else {
					return "", fmt.Errorf("%s: untranslated var declaration", owner)
				}
			}
		case *ast.AssignStmt:
			// fn := func(...) {...}   |   item := T{...}   |   remain = size   |   remain, err = call   |   t.X = append(t.X, item)
			if len(s.Lhs) == 1 && len(s.Rhs) == 1 {
				lhs, _ := s.Lhs[0].(*ast.Ident)
				switch r := s.Rhs[0].(type) {
				case *ast.FuncLit:
					if lhs == nil || s.Tok != token.DEFINE {
						return "", fmt.Errorf("%s: untranslated closure", owner)
					}
					sub := map[string]string{}
					rn := [2]string{}
					body, err := x.stmts(owner, r.Body.List, closures, sub, rn)
					if err != nil {
						return "", err
					}
					closures[lhs.Name] = body
					continue
				case *ast.CompositeLit:
					if id, ok := r.Type.(*ast.Ident); ok && lhs != nil && s.Tok == token.DEFINE {
						locals[lhs.Name] = id.Name
						continue
					}
				case *ast.Ident:
					if lhs != nil && s.Tok == token.ASSIGN {
						continue // `remain = size`: copying the size counter (whatever the two are called)
					}
				case *ast.CallExpr:
					if id, ok := r.Fun.(*ast.Ident); ok && id.Name == "append" {
						continue
					}
				}
				return "", fmt.Errorf("%s: untranslated assignment at %v", owner, s.Pos())
			}
			if len(s.Lhs) == 2 && len(s.Rhs) == 1 {
				if c, ok := s.Rhs[0].(*ast.CallExpr); ok {
					t, err := x.callOrNested(owner, c, closures, locals)
					if err != nil {
						return "", err
					}
					out = append(out, t)
					continue
				}
			}
			return "", fmt.Errorf("%s: untranslated assignment", owner)
		case *ast.IfStmt:
			// if remain, err = call; err != nil { return }     |     if t.v >= vN { ... }
			if s.Init != nil {
				as, ok := s.Init.(*ast.AssignStmt)
				if !ok || len(as.Rhs) != 1 || s.Else != nil {
					return "", fmt.Errorf("%s: untranslated if-init", owner)
				}
				c, ok := as.Rhs[0].(*ast.CallExpr)
				if !ok {
					return "", fmt.Errorf("%s: untranslated if-init rhs", owner)
				}
				be, ok := s.Cond.(*ast.BinaryExpr)
				if !ok || be.Op != token.NEQ {
					return "", fmt.Errorf("%s: untranslated if condition", owner)
				}
				if len(s.Body.List) != 1 {
					return "", fmt.Errorf("%s: error branch is not a single return", owner)
				}
				if r, ok := s.Body.List[0].(*ast.ReturnStmt); !ok || len(r.Results) != 0 {
					return "", fmt.Errorf("%s: error branch is not a bare return", owner)
				}
				t, err := x.callOrNested(owner, c, closures, locals)
				if err != nil {
					return "", err
				}
				out = append(out, t)
				continue
			}
			if isErrCodeExit(s) {
				// `if item.ErrorCode != 0 { err = Error(item.ErrorCode) [; return] }`: an early exit on a broker error code
				out = append(out, ".failIfErr")
				continue
			}
			be, ok := s.Cond.(*ast.BinaryExpr)
			if ok && be.Op == token.GEQ && s.Else == nil {
				if sel, ok := be.X.(*ast.SelectorExpr); ok && sel.Sel.Name == "v" {
					if n, ok := verConst(be.Y); ok {
						body, err := x.stmts(owner, s.Body.List, closures, locals, retNames)
						if err != nil {
							return "", err
						}
						out = append(out, fmt.Sprintf(".ifGe %d [%s]", n, body))
						continue
					}
				}
			}
			return "", fmt.Errorf("%s: untranslated if statement", owner)
		default:
			return "", fmt.Errorf("%s: untranslated statement %T", owner, st)
		}
	}
	return strings.Join(out, ", "), nil
}

// isErrCodeExit recognises `if <x>.ErrorCode != 0 { <v> = Error(<x>.ErrorCode) ; [return …] }`.
func isErrCodeExit(s *ast.IfStmt) bool {
	if s.Init != nil || s.Else != nil {
		return false
	}
	be, ok := s.Cond.(*ast.BinaryExpr)
	if !ok || be.Op != token.NEQ {
		return false
	}
	sel, ok := be.X.(*ast.SelectorExpr)
	if !ok || !isErrField(sel.Sel.Name) {
		return false
	}
	if lit, ok := be.Y.(*ast.BasicLit); !ok || lit.Value != "0" {
		return false
	}
	found := false
	for _, st := range s.Body.List {
		switch b := st.(type) {
		case *ast.AssignStmt:
			for _, r := range b.Rhs {
				if c, ok := r.(*ast.CallExpr); ok {
					if id, ok := c.Fun.(*ast.Ident); ok && id.Name == "Error" {
						found = true
					}
				}
			}
		case *ast.ReturnStmt:
			for _, r := range b.Results {
				if c, ok := r.(*ast.CallExpr); ok {
					if id, ok := c.Fun.(*ast.Ident); ok && id.Name == "Error" {
						found = true
					}
				}
			}
		default:
			return false
		}
	}
	return found
}

// ---- read-lock discipline (conn.go waitResponse / do / ApiVersions / ReadBatchWith, batch.go close) ----

func isCallOn(st ast.Stmt, recvSuffix, method string) bool {
	es, ok := st.(*ast.ExprStmt)
	if !ok {
		return false
	}
	c, ok := es.X.(*ast.CallExpr)
	if !ok {
		return false
	}
	sel, ok := c.Fun.(*ast.SelectorExpr)
	if !ok || sel.Sel.Name != method {
		return false
	}
	return strings.HasSuffix(exprString(sel.X), recvSuffix)
}

func exprString(e ast.Expr) string {
	switch v := e.(type) {
	case *ast.Ident:
		return v.Name
	case *ast.SelectorExpr:
		return exprString(v.X) + "." + v.Sel.Name
	case *ast.UnaryExpr:
		return v.Op.String() + exprString(v.X)
	case *ast.StarExpr:
		return "*" + exprString(v.X)
	}
	return "?"
}

func containsText(n ast.Node, text string) bool {
	found := false
	ast.Inspect(n, func(m ast.Node) bool {
		if e, ok := m.(ast.Expr); ok && exprString(e) == text {
			found = true
		}
		return !found
	})
	return found
}

// waitResponseLockFacts classifies every exit of the wait loop taken while c.rlock is held.
func waitResponseLockFacts(fd *ast.FuncDecl) (facts map[string]bool, err error) {
	facts = map[string]bool{"peekErr": false, "noProgress": false, "take": false, "yield": false, "leave": false, "desyncCloses": false}
	recv := "c" // the receiver's name, whatever it is called
	if fd.Recv != nil && len(fd.Recv.List) == 1 && len(fd.Recv.List[0].Names) == 1 {
		recv = fd.Recv.List[0].Names[0].Name
	}
	var loop *ast.ForStmt
	for i, st := range fd.Body.List {
		if f, ok := st.(*ast.ForStmt); ok {
			loop = f
			// c.leave() on the way out: a statement after the loop
			for _, after := range fd.Body.List[i+1:] {
				if isCallOn(after, recv, "leave") {
					facts["leave"] = true
				}
			}
		}
	}
	if loop == nil {
		return nil, fmt.Errorf("waitResponse: no for loop")
	}
	seen := map[string]int{}
	// several exits may be of one kind (e.g. more than one error exit that gives the connection up): the fact is what
	// ALL of them do
	set := func(kind string, v bool) {
		if seen[kind] > 0 {
			v = v && facts[kind]
		}
		seen[kind]++
		facts[kind] = v
	}
	closes := func(kind string, v bool) {
		if seen[kind] > 0 {
			v = v && facts["desyncCloses"]
		}
		facts["desyncCloses"] = v
	}
	var walk func(list []ast.Stmt) error
	walk = func(list []ast.Stmt) error {
		for i, st := range list {
			switch b := st.(type) {
			case *ast.IfStmt:
				if err := walk(b.Body.List); err != nil {
					return err
				}
				if b.Else != nil {
					return fmt.Errorf("waitResponse: else branch")
				}
			case *ast.BranchStmt:
				if b.Tok != token.BREAK {
					return fmt.Errorf("waitResponse: unexpected %s", b.Tok)
				}
				block := &ast.BlockStmt{List: list[:i]}
				unlocked := false
				for _, p := range list[:i] {
					if isCallOn(p, recv+".rlock", "Unlock") {
						unlocked = true
					}
				}
				kind := ""
				switch {
				case containsText(block, "io.ErrNoProgress"):
					kind = "noProgress"
					closes(kind, containsText(block, recv+".conn.Close"))
				case containsText(block, recv+".conn.Close"):
					kind = "peekErr"
				case containsText(block, "&"+recv+".rlock"):
					kind = "take"
					unlocked = !unlocked // handing the lock over: it must NOT be unlocked here
				default:
					return fmt.Errorf("waitResponse: unclassified break")
				}
				set(kind, unlocked)
			case *ast.ReturnStmt:
				// an exit that bypasses the code after the loop (c.leave()): classified like a break, `leave` is lost
				facts["leave"] = false
				block := &ast.BlockStmt{List: list[:i]}
				unlocked := false
				for _, p := range list[:i] {
					if isCallOn(p, recv+".rlock", "Unlock") {
						unlocked = true
					}
				}
				switch {
				case containsText(block, "io.ErrNoProgress"):
					closes("noProgress", containsText(block, recv+".conn.Close"))
					set("noProgress", unlocked)
				case containsText(block, recv+".conn.Close"):
					set("peekErr", unlocked)
				case containsText(block, "&"+recv+".rlock"):
					set("take", !unlocked)
				default:
					return fmt.Errorf("waitResponse: unclassified return")
				}
			}
		}
		return nil
	}
	if err := walk(loop.Body.List); err != nil {
		return nil, err
	}
	for _, k := range []string{"peekErr", "noProgress", "take"} {
		if seen[k] < 1 || (k == "take" && seen[k] != 1) {
			return nil, fmt.Errorf("waitResponse: %d exits of kind %s", seen[k], k)
		}
	}
	n := len(loop.Body.List)
	facts["yield"] = n > 0 && isCallOn(loop.Body.List[n-1], recv+".rlock", "Unlock")
	return facts, nil
}

// unlockAfter reports whether, in the top-level statements of fd following the call of `after`, the read lock is
// released (`lock.Unlock()` / `defer lock.Unlock()` / handed over as `lock: lock`) before any return statement that
// is not the error check directly following `after`.
func unlockAfter(fd *ast.FuncDecl, after string, handover bool) bool {
	idx := -1
	for i, st := range fd.Body.List {
		if containsCall(st, after) {
			idx = i
			break
		}
	}
	if idx < 0 {
		return false
	}
	// the names the function gives to the lock and the error returned by waitResponse (`_, size, lock, err := …`)
	lockName, errName := "lock", "err"
	if as, ok := fd.Body.List[idx].(*ast.AssignStmt); ok && len(as.Lhs) == 4 {
		lockName, errName = exprString(as.Lhs[2]), exprString(as.Lhs[3])
	}
	rest := fd.Body.List[idx+1:]
	if len(rest) > 0 { // `if err != nil { return … }` right after the call: the lock was not obtained
		if is, ok := rest[0].(*ast.IfStmt); ok {
			if be, ok := is.Cond.(*ast.BinaryExpr); ok && exprString(be.X) == errName {
				rest = rest[1:]
			}
		}
	}
	for _, st := range rest {
		if d, ok := st.(*ast.DeferStmt); ok {
			if sel, ok := d.Call.Fun.(*ast.SelectorExpr); ok && sel.Sel.Name == "Unlock" && exprString(sel.X) == lockName {
				return true
			}
		}
		if isCallOn(st, lockName, "Unlock") {
			return true
		}
		if r, ok := st.(*ast.ReturnStmt); ok {
			if handover {
				ok := false
				ast.Inspect(r, func(n ast.Node) bool {
					if kv, is := n.(*ast.KeyValueExpr); is && exprString(kv.Key) == "lock" && exprString(kv.Value) == lockName {
						ok = true
					}
					return true
				})
				return ok
			}
			return false
		}
		hasReturn := false
		ast.Inspect(st, func(n ast.Node) bool {
			if _, ok := n.(*ast.ReturnStmt); ok {
				hasReturn = true
			}
			if _, ok := n.(*ast.FuncLit); ok {
				return false
			}
			return true
		})
		if hasReturn {
			return false
		}
	}
	return false
}

func containsCall(n ast.Node, name string) bool {
	found := false
	ast.Inspect(n, func(m ast.Node) bool {
		if c, ok := m.(*ast.CallExpr); ok {
			switch f := c.Fun.(type) {
			case *ast.Ident:
				found = found || f.Name == name
			case *ast.SelectorExpr:
				found = found || f.Sel.Name == name
			}
		}
		return !found
	})
	return found
}

// batchCloseUnlocks: (*Batch).close releases the lock it holds on every path: `if lock != nil { lock.Unlock() }` is a
// top-level statement and no return statement occurs before it.
func batchCloseUnlocks(fd *ast.FuncDecl) bool {
	lockName := "lock" // the local that receives batch.lock
	for _, st := range fd.Body.List {
		if as, ok := st.(*ast.AssignStmt); ok && len(as.Lhs) == 1 && len(as.Rhs) == 1 {
			if sel, ok := as.Rhs[0].(*ast.SelectorExpr); ok && sel.Sel.Name == "lock" {
				lockName = exprString(as.Lhs[0])
			}
		}
	}
	for _, st := range fd.Body.List {
		if is, ok := st.(*ast.IfStmt); ok && len(is.Body.List) >= 1 && isCallOn(is.Body.List[len(is.Body.List)-1], lockName, "Unlock") {
			if be, ok := is.Cond.(*ast.BinaryExpr); ok && be.Op == token.NEQ && exprString(be.X) == lockName {
				return true
			}
		}
		hasReturn := false
		ast.Inspect(st, func(n ast.Node) bool {
			if _, ok := n.(*ast.ReturnStmt); ok {
				hasReturn = true
			}
			return true
		})
		if hasReturn {
			return false
		}
	}
	return false
}

// mergeIsStrict: in (*Response).Merge of the package in dir, the loop over `results` calls protocol.Result and, when
// that returns an error, returns it (a `return` with a non-nil second result inside `if err != nil`).
func mergeIsStrict(dir string) (bool, error) {
	fset := token.NewFileSet()
	pkgs, err := parser.ParseDir(fset, dir, func(fi os.FileInfo) bool { return !strings.HasSuffix(fi.Name(), "_test.go") }, 0)
	if err != nil {
		return false, err
	}
	for _, pkg := range pkgs {
		for _, f := range pkg.Files {
			for _, d := range f.Decls {
				fd, ok := d.(*ast.FuncDecl)
				if !ok || fd.Name.Name != "Merge" || fd.Body == nil || recvName(fd) != "Response" {
					continue
				}
				strict := false
				ast.Inspect(fd.Body, func(n ast.Node) bool {
					rs, ok := n.(*ast.RangeStmt)
					if !ok {
						return true
					}
					sawResult := false
					for _, st := range rs.Body.List {
						if containsCall(st, "Result") {
							sawResult = true
						}
						is, ok := st.(*ast.IfStmt)
						if !ok || !sawResult {
							continue
						}
						be, ok := is.Cond.(*ast.BinaryExpr)
						if !ok || be.Op != token.NEQ {
							continue
						}
						if y, ok := be.Y.(*ast.Ident); !ok || y.Name != "nil" {
							continue
						}
						errName := exprString(be.X)
						for _, inner := range is.Body.List {
							if r, ok := inner.(*ast.ReturnStmt); ok && len(r.Results) == 2 && exprString(r.Results[1]) == errName {
								strict = true
							}
						}
					}
					return true
				})
				return strict, nil
			}
		}
	}
	return false, fmt.Errorf("no (*Response).Merge in %s", dir)
}

// readerStackFacts reads three statements off message_reader.go:
//
//	[0] discard(): a loop `for X.parent != nil { X.readerStack = X.parent }` comes before the discardN call;
//	[1] readMessageV2: `X.remain -= <batch size> - int(<limited reader>.N)` (what the codec consumed, not the batch size);
//	[2] readMessageV1: `remain = sz - (n - int(<limited reader>.N))`.
//
// headerSizes: message_reader.go readHeader — how many bytes are read before the first message of a set can be looked
// at, per message format: the readIntN calls (top-level `if err = r.readIntN(…); err != nil` statements) before the
// switch on the magic byte plus those at the top level of each case.
func headerSizes(file string) ([]string, error) {
	fset := token.NewFileSet()
	f, err := parser.ParseFile(fset, file, nil, 0)
	if err != nil {
		return nil, err
	}
	width := map[string]int{"readInt8": 1, "readInt16": 2, "readInt32": 4, "readInt64": 8}
	reads := func(list []ast.Stmt) (n int) {
		for _, st := range list {
			is, ok := st.(*ast.IfStmt)
			if !ok || is.Init == nil {
				continue
			}
			as, ok := is.Init.(*ast.AssignStmt)
			if !ok || len(as.Rhs) != 1 {
				continue
			}
			if c, ok := as.Rhs[0].(*ast.CallExpr); ok {
				if sel, ok := c.Fun.(*ast.SelectorExpr); ok {
					n += width[sel.Sel.Name]
				}
			}
		}
		return n
	}
	for _, d := range f.Decls {
		fd, ok := d.(*ast.FuncDecl)
		if !ok || fd.Name.Name != "readHeader" || recvName(fd) != "messageSetReader" || fd.Body == nil {
			continue
		}
		var out []string
		for i, st := range fd.Body.List {
			sw, ok := st.(*ast.SwitchStmt)
			if !ok {
				continue
			}
			base := reads(fd.Body.List[:i])
			for _, cc := range sw.Body.List {
				cl := cc.(*ast.CaseClause)
				for _, e := range cl.List {
					if lit, ok := e.(*ast.BasicLit); ok && lit.Kind == token.INT {
						out = append(out, fmt.Sprintf("(%s, %d)", lit.Value, base+reads(cl.Body)))
					}
				}
			}
			return out, nil
		}
		return nil, fmt.Errorf("readHeader: no switch on the magic byte")
	}
	return nil, fmt.Errorf("messageSetReader.readHeader not found")
}

func readerStackFacts(file string) ([3]bool, error) {
	var facts [3]bool
	fset := token.NewFileSet()
	f, err := parser.ParseFile(fset, file, nil, 0)
	if err != nil {
		return facts, err
	}
	mentionsLimitedN := func(e ast.Expr) bool {
		found := false
		ast.Inspect(e, func(n ast.Node) bool {
			if sel, ok := n.(*ast.SelectorExpr); ok && sel.Sel.Name == "N" {
				found = true
			}
			return true
		})
		return found
	}
	seen := 0
	for _, d := range f.Decls {
		fd, ok := d.(*ast.FuncDecl)
		if !ok || fd.Body == nil || recvName(fd) != "messageSetReader" {
			continue
		}
		switch fd.Name.Name {
		case "discard":
			seen++
			rewound := false
			ast.Inspect(fd.Body, func(n ast.Node) bool {
				switch s := n.(type) {
				case *ast.ForStmt:
					if be, ok := s.Cond.(*ast.BinaryExpr); ok && be.Op == token.NEQ && strings.HasSuffix(exprString(be.X), ".parent") && exprString(be.Y) == "nil" {
						for _, st := range s.Body.List {
							if as, ok := st.(*ast.AssignStmt); ok && len(as.Lhs) == 1 && len(as.Rhs) == 1 &&
								strings.HasSuffix(exprString(as.Lhs[0]), ".readerStack") && strings.HasSuffix(exprString(as.Rhs[0]), ".parent") {
								rewound = true
							}
						}
					}
				case *ast.CallExpr:
					if sel, ok := s.Fun.(*ast.SelectorExpr); ok && sel.Sel.Name == "discardN" && rewound {
						facts[0] = true
					}
				}
				return true
			})
		case "readMessageV2":
			seen++
			ast.Inspect(fd.Body, func(n ast.Node) bool {
				if as, ok := n.(*ast.AssignStmt); ok && as.Tok == token.SUB_ASSIGN && len(as.Lhs) == 1 && strings.HasSuffix(exprString(as.Lhs[0]), ".remain") {
					if be, ok := as.Rhs[0].(*ast.BinaryExpr); ok && be.Op == token.SUB && mentionsLimitedN(be.Y) {
						facts[1] = true
					}
				}
				return true
			})
		case "readMessageV1":
			seen++
			ast.Inspect(fd.Body, func(n ast.Node) bool {
				if as, ok := n.(*ast.AssignStmt); ok && as.Tok == token.ASSIGN && len(as.Lhs) == 1 && len(as.Rhs) == 1 {
					if be, ok := as.Rhs[0].(*ast.BinaryExpr); ok && be.Op == token.SUB {
						if p, ok := be.Y.(*ast.ParenExpr); ok {
							if in, ok := p.X.(*ast.BinaryExpr); ok && in.Op == token.SUB && mentionsLimitedN(in.Y) {
								facts[2] = true
							}
						}
					}
				}
				return true
			})
		}
	}
	if seen != 3 {
		return facts, fmt.Errorf("message_reader.go: discard / readMessageV2 / readMessageV1 not all found")
	}
	return facts, nil
}

func paramNames(fd *ast.FuncDecl) (names []string) {
	for _, f := range fd.Type.Params.List {
		for _, n := range f.Names {
			names = append(names, n.Name)
		}
		if len(f.Names) == 0 {
			names = append(names, "_")
		}
	}
	return names
}

func fieldTypes(fl *ast.FieldList) (ts []ast.Expr) {
	if fl == nil {
		return nil
	}
	for _, f := range fl.List {
		k := len(f.Names)
		if k == 0 {
			k = 1
		}
		for i := 0; i < k; i++ {
			ts = append(ts, f.Type)
		}
	}
	return ts
}

// framingHelper recognises the two framing helpers by their shape:
//
//	func expectZeroSize(sz int, err error) error              — body compares its first parameter with 0
//	func discardOnKafkaError(r *bufio.Reader, size int, err error) (int, error)
//	                                                          — errors.As(…) and a call f(r, size, size)
func framingHelper(fd *ast.FuncDecl) string {
	if fd.Recv != nil || fd.Body == nil {
		return ""
	}
	ps := paramNames(fd)
	isNamed := func(e ast.Expr, name string) bool { id, ok := e.(*ast.Ident); return ok && id.Name == name }
	ptypes, rtypes := fieldTypes(fd.Type.Params), fieldTypes(fd.Type.Results)
	switch {
	case len(ptypes) == 2 && isNamed(ptypes[0], "int") && isNamed(ptypes[1], "error") && len(rtypes) == 1 && isNamed(rtypes[0], "error"):
		found := false
		ast.Inspect(fd.Body, func(n ast.Node) bool {
			if be, ok := n.(*ast.BinaryExpr); ok && be.Op == token.NEQ {
				if id, ok := be.X.(*ast.Ident); ok && id.Name == ps[0] {
					if lit, ok := be.Y.(*ast.BasicLit); ok && lit.Value == "0" {
						found = true
					}
				}
			}
			return true
		})
		if found {
			return "expectZeroSize"
		}
	case len(ptypes) == 3 && isNamed(ptypes[1], "int") && isNamed(ptypes[2], "error") && len(rtypes) == 2 && isNamed(rtypes[0], "int") && isNamed(rtypes[1], "error"):
		as, dn := false, false
		ast.Inspect(fd.Body, func(n ast.Node) bool {
			if c, ok := n.(*ast.CallExpr); ok {
				switch f := c.Fun.(type) {
				case *ast.Ident:
					if len(c.Args) == 3 && f.Name != "" {
						a1, ok1 := c.Args[1].(*ast.Ident)
						a2, ok2 := c.Args[2].(*ast.Ident)
						dn = dn || (ok1 && ok2 && a1.Name == ps[1] && a2.Name == ps[1])
					}
				case *ast.SelectorExpr:
					as = as || f.Sel.Name == "As"
				}
			}
			return true
		})
		if as && dn {
			return "discardOnKafkaError"
		}
	}
	return ""
}

func quoteAll(xs []string) string {
	q := make([]string, len(xs))
	for i, x := range xs {
		q[i] = fmt.Sprintf("%q", x)
	}
	return strings.Join(q, ", ")
}

// inlineClosers: a method of Conn (other than Close) whose body closes the network connection unconditionally — a
// top-level statement `recv.conn.Close()` with no return / branch before it — is a "closer"; every call `x.M()` of a
// closer in the analysed functions is rewritten to `x.conn.Close()`, so that the close rules below see through a helper
// such as `func (c *Conn) abortRead() { c.conn.Close(); c.rbuf.Discard(…) }`.
//
// Returned: dropsBuffer — in do, ApiVersions and Batch.close, every block guarded by `!errors.As(err, &kafkaError)` that
// closes the connection also drops what is left in the read buffer (`x.rbuf.Discard(x.rbuf.Buffered())`, directly or
// through the closer): callers already in flight must not be served the rest of the broken response.
func inlineClosers(fns map[string]*ast.FuncDecl) (dropsBuffer bool) {
	isDrop := func(c *ast.CallExpr) bool {
		sel, ok := c.Fun.(*ast.SelectorExpr)
		return ok && sel.Sel.Name == "Discard" && strings.HasSuffix(exprString(sel.X), ".rbuf") && len(c.Args) == 1 && containsCall(c.Args[0], "Buffered")
	}
	plainCall := func(st ast.Stmt) *ast.CallExpr {
		if es, ok := st.(*ast.ExprStmt); ok {
			if c, ok := es.X.(*ast.CallExpr); ok {
				return c
			}
		}
		return nil
	}
	closers, closerDrops := map[string]bool{}, map[string]bool{}
	for name, fd := range fns {
		if name == "Close" || recvName(fd) != "Conn" || fd.Type.Params.NumFields() != 0 {
			continue
		}
		want := recvIdent(fd) + ".conn.Close"
		for _, st := range fd.Body.List {
			c := plainCall(st)
			if c == nil {
				break // anything but a plain call before the close: not a closer
			}
			if len(c.Args) == 0 && exprString(c.Fun) == want {
				closers[name] = true
				break
			}
		}
		if closers[name] {
			for _, st := range fd.Body.List {
				if c := plainCall(st); c != nil && isDrop(c) {
					closerDrops[name] = true
				}
			}
		}
	}
	// the blocks that close on non-kafka errors: do they drop the buffer too?
	dropsBuffer = true
	for _, name := range []string{"do", "ApiVersions", "Batch.close"} {
		fd, found := fns[name], false
		if fd == nil {
			return false
		}
		var blks []*ast.BlockStmt
		switch name {
		case "ApiVersions":
			blks = apiVersionsNonKafkaBlocks(fd)
		case "Batch.close":
			blks = nonKafkaBlocks(fd, true)
		default:
			blks = nonKafkaBlocks(fd, false)
		}
		for _, blk := range blks {
			closes, drops := false, false
			for _, st := range blk.List {
				c := plainCall(st)
				if c == nil {
					continue
				}
				if sel, ok := c.Fun.(*ast.SelectorExpr); ok {
					switch {
					case closers[sel.Sel.Name] && len(c.Args) == 0:
						closes, drops = true, drops || closerDrops[sel.Sel.Name]
					case sel.Sel.Name == "Close":
						closes = true
					case isDrop(c):
						drops = true
					}
				}
			}
			if closes {
				found = true
				dropsBuffer = dropsBuffer && drops
			}
		}
		dropsBuffer = dropsBuffer && found
	}
	for _, fd := range fns {
		ast.Inspect(fd.Body, func(n ast.Node) bool {
			c, ok := n.(*ast.CallExpr)
			if !ok || len(c.Args) != 0 {
				return true
			}
			if sel, ok := c.Fun.(*ast.SelectorExpr); ok && closers[sel.Sel.Name] {
				c.Fun = &ast.SelectorExpr{X: &ast.SelectorExpr{X: sel.X, Sel: ast.NewIdent("conn")}, Sel: ast.NewIdent("Close")}
			}
			return true
		})
	}
	return dropsBuffer
}

// nonKafkaBlocks: the blocks of a function that run exactly when the error at hand is not an error reported by the
// broker — the body of `if !errors.As(err, &k) {…}` (without else) and the else block of `if errors.As(err, &k) {…} else
// {…}`; shortBuffer: the same with io.ErrShortBuffer set apart too (`… && !errors.Is(err, io.ErrShortBuffer)`, or
// `errors.As(…) || errors.Is(err, io.ErrShortBuffer)` before the else).
func nonKafkaBlocks(fd *ast.FuncDecl, shortBuffer bool) (blocks []*ast.BlockStmt) {
	if fd == nil {
		return nil
	}
	isCall := func(e ast.Expr, fn string) bool {
		c, ok := e.(*ast.CallExpr)
		if !ok {
			return false
		}
		sel, ok := c.Fun.(*ast.SelectorExpr)
		return ok && exprString(sel.X) == "errors" && sel.Sel.Name == fn
	}
	isNotCall := func(e ast.Expr, fn string) bool {
		u, ok := e.(*ast.UnaryExpr)
		return ok && u.Op == token.NOT && isCall(u.X, fn)
	}
	ast.Inspect(fd.Body, func(n ast.Node) bool {
		s, ok := n.(*ast.IfStmt)
		if !ok {
			return true
		}
		neg, pos := false, false
		if be, is := s.Cond.(*ast.BinaryExpr); is && shortBuffer {
			neg = be.Op == token.LAND && isNotCall(be.X, "As") && isNotCall(be.Y, "Is") && containsText(be.Y, "io.ErrShortBuffer")
			pos = be.Op == token.LOR && isCall(be.X, "As") && isCall(be.Y, "Is") && containsText(be.Y, "io.ErrShortBuffer")
		} else if !shortBuffer {
			neg, pos = isNotCall(s.Cond, "As"), isCall(s.Cond, "As")
		}
		if neg && s.Else == nil {
			blocks = append(blocks, s.Body)
		}
		if pos {
			if eb, ok := s.Else.(*ast.BlockStmt); ok {
				blocks = append(blocks, eb)
			}
		}
		return true
	})
	return blocks
}

// apiVersionsNonKafkaBlocks: ApiVersions tests `err != nil && !errors.As(err, &k)` (the error may be nil there)
func apiVersionsNonKafkaBlocks(fd *ast.FuncDecl) (blocks []*ast.BlockStmt) {
	blocks = nonKafkaBlocks(fd, false)
	ast.Inspect(fd.Body, func(n ast.Node) bool {
		s, ok := n.(*ast.IfStmt)
		if !ok || s.Else != nil {
			return true
		}
		if be, is := s.Cond.(*ast.BinaryExpr); is && be.Op == token.LAND {
			if l, is := be.X.(*ast.BinaryExpr); is && l.Op == token.NEQ && exprString(l.Y) == "nil" {
				if u, is := be.Y.(*ast.UnaryExpr); is && u.Op == token.NOT && containsCall(u.X, "As") {
					blocks = append(blocks, s.Body)
				}
			}
		}
		return true
	})
	return blocks
}

// closesOnNonKafka: the function has exactly one such block, made of plain calls only, exactly one of them a Close (others:
// e.g. dropping the buffered bytes), and no other call of Close on a connection.
func closesOnNonKafka(fd *ast.FuncDecl, shortBuffer bool) bool {
	if fd == nil {
		return false
	}
	good := 0
	for _, blk := range nonKafkaBlocks(fd, shortBuffer) {
		n, plain := 0, true
		for _, st := range blk.List {
			es, is := st.(*ast.ExprStmt)
			if !is {
				plain = false
				break
			}
			if c, is := es.X.(*ast.CallExpr); is {
				if sel, is := c.Fun.(*ast.SelectorExpr); is && sel.Sel.Name == "Close" {
					n++
				}
			} else {
				plain = false
			}
		}
		if plain && n == 1 {
			good++
		}
	}
	closes := 0
	ast.Inspect(fd.Body, func(n ast.Node) bool {
		if c, ok := n.(*ast.CallExpr); ok {
			if sel, ok := c.Fun.(*ast.SelectorExpr); ok && sel.Sel.Name == "Close" {
				closes++
			}
		}
		return true
	})
	return good == 1 && closes == 1
}

// loadVersionsStrict: in (*Conn).loadVersions the statement that follows `x, err := recv.ApiVersions()` is
// `if err != nil { return … }` — the bare test, no further condition — so nothing that came with an error (a version
// list next to a broker error code) reaches the code that builds and stores the Conn's version map.
func loadVersionsStrict(fd *ast.FuncDecl) bool {
	if fd == nil {
		return false
	}
	for i, st := range fd.Body.List {
		as, ok := st.(*ast.AssignStmt)
		if !ok || len(as.Rhs) != 1 || len(as.Lhs) != 2 || !containsCall(as.Rhs[0], "ApiVersions") {
			continue
		}
		errName := exprString(as.Lhs[1])
		if i+1 >= len(fd.Body.List) {
			return false
		}
		is, ok := fd.Body.List[i+1].(*ast.IfStmt)
		if !ok || is.Init != nil || is.Else != nil {
			return false
		}
		be, ok := is.Cond.(*ast.BinaryExpr)
		if !ok || be.Op != token.NEQ || exprString(be.X) != errName || exprString(be.Y) != "nil" {
			return false
		}
		n := len(is.Body.List)
		if n == 0 {
			return false
		}
		_, isRet := is.Body.List[n-1].(*ast.ReturnStmt)
		return isRet && !containsCall(is.Body, "Store")
	}
	return false
}

// parseFunc returns the declaration of recv.name in file (recv "" = a plain function).
func parseFunc(file, recv, name string) (*ast.FuncDecl, error) {
	f, err := parser.ParseFile(token.NewFileSet(), file, nil, 0)
	if err != nil {
		return nil, err
	}
	for _, d := range f.Decls {
		if fd, ok := d.(*ast.FuncDecl); ok && fd.Body != nil && fd.Name.Name == name && recvName(fd) == recv {
			return fd, nil
		}
	}
	return nil, nil
}

// retryRebuildsRecords: writer.go (*partitionWriter).writeBatch — the record reader handed to Produce (a `writerRecords`
// composite literal) is built anew for every attempt: inside the retry loop, or inside the function the loop calls
// ((*Writer).produce) — never once before the loop (a reader is consumed by the request that sends it: the retry after a
// lost response would go out empty).
func retryRebuildsRecords(file string) (bool, error) {
	wb, err := parseFunc(file, "partitionWriter", "writeBatch")
	if err != nil || wb == nil {
		return false, err
	}
	isRecords := func(n ast.Node) bool {
		cl, ok := n.(*ast.CompositeLit)
		if !ok {
			return false
		}
		id, ok := cl.Type.(*ast.Ident)
		return ok && id.Name == "writerRecords"
	}
	count := func(n ast.Node) (k int) {
		ast.Inspect(n, func(m ast.Node) bool {
			if m != nil && isRecords(m) {
				k++
			}
			return true
		})
		return k
	}
	var loop *ast.ForStmt
	for _, st := range wb.Body.List {
		if f, ok := st.(*ast.ForStmt); ok && loop == nil {
			loop = f
		}
	}
	if loop == nil {
		return false, nil
	}
	outside := count(wb.Body) - count(loop)
	inside := count(loop)
	// built by a callee of the loop: a method of Writer called inside the loop whose body has the literal
	f, _ := parser.ParseFile(token.NewFileSet(), file, nil, 0)
	if f != nil {
		for _, d := range f.Decls {
			fd, ok := d.(*ast.FuncDecl)
			if !ok || fd.Body == nil || fd == wb || count(fd.Body) == 0 {
				continue
			}
			if containsCall(loop, fd.Name.Name) {
				inside++
			}
		}
	}
	return outside == 0 && inside > 0, nil
}

// readerClosesUnderDeadline: reader.go (*reader).read — the batch is never closed by a deferred call, and every
// `….Close()` of it comes (in program text) before the statement that clears the read deadline,
// `conn.SetReadDeadline(time.Time{})`: Batch.Close skips the rest of the response, a read like any other.
func readerClosesUnderDeadline(file string) (bool, error) {
	fd, err := parseFunc(file, "reader", "read")
	if err != nil || fd == nil {
		return false, err
	}
	clear := token.NoPos
	closes, deferred := []token.Pos{}, false
	ast.Inspect(fd.Body, func(n ast.Node) bool {
		switch s := n.(type) {
		case *ast.DeferStmt:
			if containsCall(s, "Close") {
				deferred = true
			}
		case *ast.CallExpr:
			if sel, ok := s.Fun.(*ast.SelectorExpr); ok {
				if sel.Sel.Name == "Close" {
					closes = append(closes, s.Pos())
				}
				if sel.Sel.Name == "SetReadDeadline" && len(s.Args) == 1 {
					if cl, ok := s.Args[0].(*ast.CompositeLit); ok && len(cl.Elts) == 0 {
						clear = s.Pos()
					}
				}
			}
		}
		return true
	})
	if deferred || len(closes) == 0 {
		return false, nil
	}
	for _, p := range closes {
		if clear != token.NoPos && p > clear {
			return false, nil
		}
	}
	return true, nil
}

// batchCloseMindsDiscard: in (*Batch).close the result of `….discard()` (skipping what is left of the response) is
// assigned — `x := ….discard()`, `x = ….discard()` or the init of an if — and never dropped as a bare call.  (An assigned
// but unused variable does not compile.)
func batchCloseMindsDiscard(fd *ast.FuncDecl) bool {
	if fd == nil {
		return false
	}
	isDiscard := func(e ast.Expr) bool {
		c, ok := e.(*ast.CallExpr)
		if !ok {
			return false
		}
		sel, ok := c.Fun.(*ast.SelectorExpr)
		return ok && sel.Sel.Name == "discard" && len(c.Args) == 0
	}
	assigned, dropped := 0, 0
	ast.Inspect(fd.Body, func(n ast.Node) bool {
		switch s := n.(type) {
		case *ast.ExprStmt:
			if isDiscard(s.X) {
				dropped++
			}
		case *ast.AssignStmt:
			for i, r := range s.Rhs {
				if isDiscard(r) {
					if id, ok := s.Lhs[i].(*ast.Ident); ok && id.Name == "_" {
						dropped++
					} else {
						assigned++
					}
				}
			}
		}
		return true
	})
	return assigned >= 1 && dropped == 0
}

// transportDropsFailed: in the request loop of (*conn).run, a test of the error (`if err != nil { … }` or
// `if err == nil { … } else { … }`) whose error branch contains a break / return occurs before the first statement that
// calls releaseConn.
func transportDropsFailed(file string) (bool, error) {
	fset := token.NewFileSet()
	f, err := parser.ParseFile(fset, file, nil, 0)
	if err != nil {
		return false, err
	}
	for _, d := range f.Decls {
		fd, ok := d.(*ast.FuncDecl)
		if !ok || fd.Name.Name != "run" || recvName(fd) != "conn" || fd.Body == nil {
			continue
		}
		var loop *ast.RangeStmt
		for _, st := range fd.Body.List {
			if r, ok := st.(*ast.RangeStmt); ok {
				loop = r
			}
		}
		if loop == nil {
			return false, fmt.Errorf("(*conn).run: no range loop")
		}
		for _, st := range loop.Body.List {
			if containsCall(st, "releaseConn") {
				return false, nil // reached the release without having left the loop on an error
			}
			is, ok := st.(*ast.IfStmt)
			if !ok {
				continue
			}
			be, ok := is.Cond.(*ast.BinaryExpr)
			if !ok || exprString(be.Y) != "nil" {
				continue
			}
			// the branch taken on an error: the body of `if err != nil`, the else of `if err == nil`
			var errBranch ast.Node
			switch {
			case be.Op == token.NEQ:
				errBranch = is.Body
			case be.Op == token.EQL && is.Else != nil:
				errBranch = is.Else
			default:
				continue
			}
			leaves := false
			ast.Inspect(errBranch, func(n ast.Node) bool {
				switch b := n.(type) {
				case *ast.BranchStmt:
					leaves = leaves || b.Tok == token.BREAK
				case *ast.ReturnStmt:
					leaves = true
				case *ast.FuncLit:
					return false
				}
				return true
			})
			if leaves {
				return true, nil
			}
		}
		return false, nil
	}
	return false, fmt.Errorf("(*conn).run not found in transport.go")
}

func (x *clx) callOrNested(owner string, c *ast.CallExpr, closures map[string]string, locals map[string]string) (string, error) {
	if sel, ok := c.Fun.(*ast.SelectorExpr); ok && sel.Sel.Name == "readFrom" {
		ty, err := x.nestedType(owner, sel.X, locals)
		if err != nil {
			return "", err
		}
		return x.readFrom(ty)
	}
	return x.call(c, closures)
}

// readFrom returns the comma-separated step list of T.readFrom.
func (x *clx) readFrom(ty string) (string, error) {
	if s, ok := x.memo["rf:"+ty]; ok {
		return s, nil
	}
	if x.busy[ty] {
		return "", fmt.Errorf("recursive readFrom %s", ty)
	}
	fd := x.funcs[ty+".readFrom"]
	if fd == nil {
		return "", fmt.Errorf("no readFrom method for %s", ty)
	}
	x.busy[ty] = true
	defer delete(x.busy, ty)
	s, err := x.stmts(ty, fd.Body.List, map[string]string{}, map[string]string{}, [2]string{})
	if err != nil {
		return "", err
	}
	x.memo["rf:"+ty] = s
	return s, nil
}

// structSteps returns the step list of read(&T{}) through reflection (read.go read/readStruct/readSlice).
func (x *clx) structSteps(ty string) (string, error) {
	st := x.structs[ty]
	if st == nil {
		return "", fmt.Errorf("struct %s not found", ty)
	}
	var out []string
	for _, f := range st.Fields.List {
		if len(f.Names) == 0 {
			return "", fmt.Errorf("%s: embedded field", ty)
		}
		for _, n := range f.Names {
			t, err := x.typeSteps(f.Type, n.Name)
			if err != nil {
				return "", fmt.Errorf("%s.%s: %v", ty, n.Name, err)
			}
			out = append(out, t)
		}
	}
	return strings.Join(out, ", "), nil
}

func (x *clx) typeSteps(t ast.Expr, field string) (string, error) {
	switch v := t.(type) {
	case *ast.Ident:
		switch v.Name {
		case "int8", "bool":
			return ".int 1", nil
		case "int16":
			if isErrField(field) {
				return ".err", nil
			}
			return ".int 2", nil
		case "int32":
			return ".int 4", nil
		case "int64":
			return ".int 8", nil
		case "string":
			return ".str", nil
		}
		return x.structSteps(v.Name)
	case *ast.ArrayType:
		if v.Len != nil {
			return "", fmt.Errorf("fixed array")
		}
		if id, ok := v.Elt.(*ast.Ident); ok && id.Name == "byte" {
			return ".bytes", nil
		}
		e, err := x.typeSteps(v.Elt, "")
		if err != nil {
			return "", err
		}
		return ".arr [" + e + "]", nil
	}
	return "", fmt.Errorf("untranslated field type %T", t)
}

func extractConnLegacy(repo, root string) error {
	fset := token.NewFileSet()
	files, err := filepath.Glob(filepath.Join(repo, "*.go"))
	if err != nil {
		return err
	}
	x := &clx{funcs: map[string]*ast.FuncDecl{}, structs: map[string]*ast.StructType{}, memo: map[string]string{}, busy: map[string]bool{}}
	connFns := map[string]*ast.FuncDecl{}
	helperAlias := map[string]string{}         // actual name of a framing helper → "expectZeroSize" / "discardOnKafkaError"
	var rbufUsers []string                     // every function of the package that touches a Conn's read buffer (`….rbuf`)
	calledBy := map[string]map[string]bool{}   // simple name of a callee → qualified names of the functions calling it
	referredBy := map[string]map[string]bool{} // simple name → qualified names of the functions that mention it at all
	allDecls := map[string]*ast.FuncDecl{}     // qualified name → declaration
	for _, fn := range files {
		base := filepath.Base(fn)
		if strings.HasSuffix(base, "_test.go") || strings.HasPrefix(base, "verif_") {
			continue
		}
		f, err := parser.ParseFile(fset, fn, nil, 0)
		if err != nil {
			return err
		}
		for _, d := range f.Decls {
			switch dd := d.(type) {
			case *ast.FuncDecl:
				if dd.Body == nil {
					continue
				}
				touches := false
				ast.Inspect(dd.Body, func(n ast.Node) bool {
					if sel, ok := n.(*ast.SelectorExpr); ok && sel.Sel.Name == "rbuf" {
						touches = true
					}
					return !touches
				})
				qname := dd.Name.Name
				if r := recvName(dd); r != "" {
					qname = r + "." + qname
				}
				if touches {
					rbufUsers = append(rbufUsers, qname)
				}
				allDecls[qname] = dd
				ast.Inspect(dd.Body, func(n ast.Node) bool {
					// any use of a name (call or function value): who refers to what
					name := ""
					switch e := n.(type) {
					case *ast.SelectorExpr:
						name = e.Sel.Name
					case *ast.Ident:
						name = e.Name
					}
					if name != "" {
						if referredBy[name] == nil {
							referredBy[name] = map[string]bool{}
						}
						referredBy[name][qname] = true
					}
					return true
				})
				ast.Inspect(dd.Body, func(n ast.Node) bool {
					if c, ok := n.(*ast.CallExpr); ok {
						callee := ""
						switch f := c.Fun.(type) {
						case *ast.Ident:
							callee = f.Name
						case *ast.SelectorExpr:
							callee = f.Sel.Name
						}
						if callee != "" {
							if calledBy[callee] == nil {
								calledBy[callee] = map[string]bool{}
							}
							calledBy[callee][qname] = true
						}
					}
					return true
				})
				if r := recvName(dd); r != "" {
					if dd.Name.Name == "readFrom" {
						x.funcs[r+".readFrom"] = dd
					}
					if r == "Conn" {
						connFns[dd.Name.Name] = dd
					}
					if r == "Batch" && dd.Name.Name == "close" {
						connFns["Batch.close"] = dd
					}
				} else if canon := framingHelper(dd); canon != "" {
					// the two framing helpers are recognised by SHAPE, whatever they are called
					helperAlias[dd.Name.Name] = canon
					connFns[canon] = dd
				} else if strings.HasPrefix(dd.Name.Name, "readFetchResponseHeaderV") {
					connFns[dd.Name.Name] = dd
				}
			case *ast.GenDecl:
				if dd.Tok != token.TYPE {
					continue
				}
				for _, sp := range dd.Specs {
					ts := sp.(*ast.TypeSpec)
					if st, ok := ts.Type.(*ast.StructType); ok {
						x.structs[ts.Name.Name] = st
					}
				}
			}
		}
	}
	// a (unexported) method of the table that is not found under its name is looked up by the response type it reads:
	// the one method of Conn that mentions that type
	responseTypeOf := map[string]string{"findCoordinator": "findCoordinatorResponseV0", "heartbeat": "heartbeatResponseV0",
		"joinGroup": "joinGroupResponse", "leaveGroup": "leaveGroupResponseV0", "listGroups": "listGroupsResponseV1",
		"offsetCommit": "offsetCommitResponseV2", "offsetFetch": "offsetFetchResponseV1", "syncGroup": "syncGroupResponseV0",
		"saslHandshake": "saslHandshakeResponseV0", "saslAuthenticate": "saslAuthenticateResponseV0",
		"createTopics": "createTopicsResponse", "deleteTopics": "deleteTopicsResponse", "readOffset": "partitionOffsetV1",
		"writeCompressedMessages": "produceResponsePartitionV2"}
	for _, m := range connMethods {
		ty := responseTypeOf[m]
		if connFns[m] != nil || ty == "" {
			continue
		}
		var cands []string
		for name, fd := range connFns {
			if recvName(fd) != "Conn" {
				continue
			}
			mentions := false
			ast.Inspect(fd, func(n ast.Node) bool {
				if id, ok := n.(*ast.Ident); ok && id.Name == ty {
					mentions = true
				}
				return !mentions
			})
			if mentions {
				cands = append(cands, name)
			}
		}
		if len(cands) == 1 {
			connFns[m] = connFns[cands[0]]
		}
	}
	dropsBuffer := inlineClosers(connFns)
	var b strings.Builder
	b.WriteString("-- GENERATED by /verif/go/extract (connlegacy) from /repo/*.go — do not edit\n")
	b.WriteString("import KafkaVerif.Model.ConnOps\nimport KafkaVerif.Model.TransportConnC17\nimport KafkaVerif.Model.ReaderStack\nnamespace KV.Gen.ConnLegacy\nopen KV.ConnOps\n\n")
	sort.Strings(rbufUsers)
	var ru []string
	for _, u := range rbufUsers {
		var cs []string
		for c := range calledBy[u[strings.LastIndex(u, ".")+1:]] {
			if c != u {
				cs = append(cs, c)
			}
		}
		sort.Strings(cs)
		ru = append(ru, fmt.Sprintf("(%q, [%s])", u, quoteAll(cs)))
	}
	fmt.Fprintf(&b, "/-- every function of package kafka that touches a Conn's read buffer (a selector `.rbuf`), with the functions of\nthe package that call it (by simple name) -/\ndef rbufUsers : List (String × List String) := [\n  %s]\n\n", strings.Join(ru, ",\n  "))
	b.WriteString("-- `readFrom(r *bufio.Reader, size int)` methods\n")
	var names []string
	for _, ty := range requiredReadFrom {
		s, err := x.readFrom(ty)
		if err != nil {
			return fmt.Errorf("untranslated: %v", err)
		}
		fmt.Fprintf(&b, "def %s : List Step := [%s]\n", ty, s)
		names = append(names, ty)
	}
	b.WriteString("\n-- struct layouts read through read()/reflection\n")
	for _, ty := range requiredStructs {
		s, err := x.structSteps(ty)
		if err != nil {
			return fmt.Errorf("untranslated: %v", err)
		}
		fmt.Fprintf(&b, "def %s : List Step := [%s]\n", ty, s)
		names = append(names, ty)
	}
	b.WriteString("\ndef all : List (String × List Step) := [")
	for i, n := range names {
		if i > 0 {
			b.WriteString(", ")
		}
		fmt.Fprintf(&b, "(\"%s\", %s)", n, n)
	}
	b.WriteString("]\n\n-- helpers called (syntactically) inside each (*Conn) method, and the version lists given to negotiateVersion\n")
	b.WriteString("def calls : List (String × List String) := [\n")
	var vers []string
	for i, m := range connMethods {
		fd := connFns[m]
		if fd == nil {
			return fmt.Errorf("untranslated: (*Conn).%s not found", m)
		}
		set := map[string]bool{}
		// a helper method of Conn (not itself in the table) that only THIS method refers to — an extracted read closure,
		// say — counts as part of the method: its calls are added (one level, then its own private helpers likewise)
		bodies := []ast.Node{fd.Body}
		owner := "Conn." + fd.Name.Name
		seenHelper := map[string]bool{}
		for k := 0; k < len(bodies) && k < 4; k++ {
			ast.Inspect(bodies[k], func(n ast.Node) bool {
				sel, ok := n.(*ast.SelectorExpr)
				if !ok {
					return true
				}
				h := allDecls["Conn."+sel.Sel.Name]
				if h == nil || seenHelper[sel.Sel.Name] || helperNames[sel.Sel.Name] || connFns[sel.Sel.Name] == nil {
					return true
				}
				for _, cm := range connMethods {
					if cm == sel.Sel.Name {
						return true
					}
				}
				refs := referredBy[sel.Sel.Name]
				only := len(refs) > 0
				for r := range refs {
					if r != owner && !seenHelper[strings.TrimPrefix(r, "Conn.")] {
						only = false
					}
				}
				if only {
					seenHelper[sel.Sel.Name] = true
					bodies = append(bodies, h.Body)
				}
				return true
			})
		}
		for _, body := range bodies[1:] {
			ast.Inspect(body, func(n ast.Node) bool {
				if c, ok := n.(*ast.CallExpr); ok {
					name := ""
					switch f := c.Fun.(type) {
					case *ast.Ident:
						name = f.Name
					case *ast.SelectorExpr:
						name = f.Sel.Name
					}
					if canon, ok := helperAlias[name]; ok {
						name = canon
					}
					if helperNames[name] {
						set[name] = true
					}
				}
				return true
			})
		}
		ast.Inspect(fd.Body, func(n ast.Node) bool {
			c, ok := n.(*ast.CallExpr)
			if !ok {
				return true
			}
			name := ""
			switch f := c.Fun.(type) {
			case *ast.Ident:
				name = f.Name
			case *ast.SelectorExpr:
				name = f.Sel.Name
			}
			if canon, ok := helperAlias[name]; ok {
				name = canon
			}
			if helperNames[name] {
				set[name] = true
			}
			if name == "negotiateVersion" && len(c.Args) >= 2 {
				var vs []string
				for _, a := range c.Args[1:] {
					if n, ok := verConst(a); ok {
						vs = append(vs, fmt.Sprint(n))
					} else {
						vs = append(vs, "999")
					}
				}
				vers = append(vers, fmt.Sprintf("(\"%s\", [%s])", m, strings.Join(vs, ", ")))
			}
			return true
		})
		var l []string
		for k := range set {
			l = append(l, "\""+k+"\"")
		}
		sort.Strings(l)
		sep := ","
		if i == len(connMethods)-1 {
			sep = ""
		}
		fmt.Fprintf(&b, "  (\"%s\", [%s])%s\n", m, strings.Join(l, ", "), sep)
	}
	b.WriteString("]\n\ndef negotiated : List (String × List Nat) := [" + strings.Join(vers, ", ") + "]\n\n")
	// body shapes of the two framing helpers
	ez, dk := false, false
	if fd := connFns["expectZeroSize"]; fd != nil {
		szName := paramNames(fd)[0]
		ast.Inspect(fd.Body, func(n ast.Node) bool {
			if be, ok := n.(*ast.BinaryExpr); ok && be.Op == token.NEQ {
				if id, ok := be.X.(*ast.Ident); ok && id.Name == szName {
					if lit, ok := be.Y.(*ast.BasicLit); ok && lit.Value == "0" {
						ez = true
					}
				}
			}
			return true
		})
	}
	if fd := connFns["discardOnKafkaError"]; fd != nil {
		as, dn := false, false
		ast.Inspect(fd.Body, func(n ast.Node) bool {
			if c, ok := n.(*ast.CallExpr); ok {
				switch f := c.Fun.(type) {
				case *ast.Ident:
					// discardN(r, size, size): the whole remainder
					if f.Name == "discardN" && len(c.Args) == 3 {
						a1, ok1 := c.Args[1].(*ast.Ident)
						a2, ok2 := c.Args[2].(*ast.Ident)
						dn = dn || (ok1 && ok2 && a1.Name == a2.Name)
					}
				case *ast.SelectorExpr:
					as = as || f.Sel.Name == "As"
				}
			}
			return true
		})
		dk = as && dn
	}
	fmt.Fprintf(&b, "/-- protocol.go expectZeroSize contains `sz != 0` -/\ndef expectZeroSizeChecks : Bool := %v\n", ez)
	fmt.Fprintf(&b, "/-- conn.go discardOnKafkaError = errors.As(err, &kafkaError) guarding discardN(r, size, size) -/\ndef discardOnKafkaErrorDrains : Bool := %v\n\n", dk)
	// read-lock discipline
	for _, m := range []string{"waitResponse", "do", "ApiVersions", "ReadBatchWith", "Batch.close"} {
		if connFns[m] == nil {
			return fmt.Errorf("untranslated: %s not found", m)
		}
	}
	wf, err := waitResponseLockFacts(connFns["waitResponse"])
	if err != nil {
		return fmt.Errorf("untranslated: %v", err)
	}
	b.WriteString("/-- conn.go/batch.go: on which exit paths the Conn's read lock (rlock) is released / handed over -/\n")
	fmt.Fprintf(&b, "def lockFacts : LockFacts := { peekErr := %v, noProgress := %v, desyncCloses := %v, yield := %v, take := %v, leave := %v, doBody := %v, apiVersions := %v, batchHandover := %v, batchClose := %v, dropsBuffer := %v }\n\n",
		wf["peekErr"], wf["noProgress"], wf["desyncCloses"], wf["yield"], wf["take"], wf["leave"], unlockAfter(connFns["do"], "waitResponse", false),
		unlockAfter(connFns["ApiVersions"], "waitResponse", false), unlockAfter(connFns["ReadBatchWith"], "waitResponse", true),
		batchCloseUnlocks(connFns["Batch.close"]), dropsBuffer)
	// parsers that are not readFrom methods: read.go fetch headers, conn.go element callbacks
	b.WriteString("-- read.go readFetchResponseHeaderV2/V5/V10\n")
	for _, hv := range []string{"V2", "V5", "V10"} {
		fd := connFns["readFetchResponseHeader"+hv]
		if fd == nil {
			return fmt.Errorf("untranslated: readFetchResponseHeader%s not found", hv)
		}
		t, err := translateFetchHeader(fd)
		if err != nil {
			return fmt.Errorf("untranslated: %v", err)
		}
		fmt.Fprintf(&b, "def fetchHeader%sGen : List Step := [%s]\n", hv, t)
	}
	b.WriteString("-- conn.go: the element callbacks of readOffset and of writeCompressedMessages (per negotiated produce version)\n")
	if fl := findRootArray(connFns["readOffset"]); fl != nil {
		t, err := x.callback("readOffset", fl.Body.List, 1)
		if err != nil {
			return fmt.Errorf("untranslated: %v", err)
		}
		fmt.Fprintf(&b, "def readOffsetClosureGen : List Step := [.arr [%s]]\n", t)
	} else {
		return fmt.Errorf("untranslated: readOffset has no readArrayWith(&c.rbuf, …) call")
	}
	if fl := findRootArray(connFns["writeCompressedMessages"]); fl != nil {
		var parts []string
		for _, v := range []int{2, 3, 7} {
			t, err := x.callback("writeCompressedMessages", fl.Body.List, v)
			if err != nil {
				return fmt.Errorf("untranslated: %v", err)
			}
			parts = append(parts, fmt.Sprintf("(%d, [.arr [%s]])", v, t))
		}
		fmt.Fprintf(&b, "def produceClosureGen : List (Nat × List Step) := [%s]\n\n", strings.Join(parts, ", "))
	} else {
		return fmt.Errorf("untranslated: writeCompressedMessages has no readArrayWith(&c.rbuf, …) call")
	}
	avFn := connFns["ApiVersions"]
	if h := connFns["readApiVersions"]; h != nil {
		avFn = h
	}
	avCloses := false
	avClose := exprString(&ast.SelectorExpr{X: &ast.SelectorExpr{X: ast.NewIdent(recvIdent(connFns["ApiVersions"])), Sel: ast.NewIdent("conn")}, Sel: ast.NewIdent("Close")})
	for _, blk := range apiVersionsNonKafkaBlocks(connFns["ApiVersions"]) {
		avCloses = avCloses || containsText(blk, avClose)
	}
	fmt.Fprintf(&b, "/-- conn.go ApiVersions closes the connection on errors that are not kafka errors -/\ndef apiVersionsClosesNonKafka : Bool := %v\n", avCloses)
	if t, after, err := translateApiVersions(avFn); err != nil {
		return fmt.Errorf("untranslated: %v", err)
	} else {
		fmt.Fprintf(&b, "-- conn.go ApiVersions (v0): the parse after waitResponse; error code checked after the parse: %v\n", after)
		fmt.Fprintf(&b, "def apiVersionsParseGen : List Step := [%s]\ndef apiVersionsErrAfter : Bool := %v\n\n", t, after)
	}
	// message_reader.go: the three frame-accounting statements of the reader stack
	rsf, err := readerStackFacts(filepath.Join(repo, "message_reader.go"))
	if err != nil {
		return fmt.Errorf("untranslated: %v", err)
	}
	fmt.Fprintf(&b, "/-- message_reader.go: discard() rewinds to the root reader; compressed v2 / v1 pushes charge `remain` with what the codec consumed -/\ndef readerStackFacts : KV.ReaderStack.Facts := { discardRewinds := %v, v2AccountsConsumed := %v, v1AccountsConsumed := %v }\n\n", rsf[0], rsf[1], rsf[2])
	// the state a Conn carries from one operation to the next: the fields of the struct
	if st := x.structs["Conn"]; st != nil {
		var fs []string
		for _, f := range st.Fields.List {
			for _, n := range f.Names {
				fs = append(fs, n.Name)
			}
		}
		fmt.Fprintf(&b, "/-- the fields of `type Conn struct` (conn.go): everything a Conn carries from one operation to the next -/\ndef connFields : List String := [%s]\n\n", quoteAll(fs))
	} else {
		return fmt.Errorf("untranslated: type Conn struct not found")
	}
	hs, err := headerSizes(filepath.Join(repo, "message_reader.go"))
	if err != nil {
		return fmt.Errorf("untranslated: %v", err)
	}
	fmt.Fprintf(&b, "/-- message_reader.go readHeader: bytes read before the first message of a set can be looked at, per magic byte -/\ndef headerSizes : List (Nat × Nat) := [%s]\n\n", strings.Join(hs, ", "))
	// transport.go (*conn).run: a failed exchange leaves the loop before releaseConn
	tf, err := transportDropsFailed(filepath.Join(repo, "transport.go"))
	if err != nil {
		return fmt.Errorf("untranslated: %v", err)
	}
	fmt.Fprintf(&b, "/-- transport.go (*conn).run: `if err != nil { … break }` (for anything but ErrNoRecord) comes before the releaseConn call -/\ndef transportFacts : KV.TransportConn.TFacts := { dropFailed := %v }\n\n", tf)
	// Merge methods of the split requests: the first failed part fails the call
	b.WriteString("/-- protocol/<api>/(*Response).Merge returns the error of the first failed part from inside its loop over the results -/\n")
	b.WriteString("def strictMerges : List (String × Bool) := [")
	// every package under protocol/ that defines a Merge method, list-offsets apart (its Merge keeps the parts that
	// arrived and marks the lost ones: the C19 builder's Model/ListOffsets.lean) — a new Merge joins the list by itself
	var mergeAPIs []string
	if dirs, err := filepath.Glob(filepath.Join(repo, "protocol", "*")); err == nil {
		for _, d := range dirs {
			api := filepath.Base(d)
			if api == "listoffsets" {
				continue
			}
			files, _ := filepath.Glob(filepath.Join(d, "*.go"))
			has := false
			for _, fn := range files {
				if strings.HasSuffix(fn, "_test.go") {
					continue
				}
				if f, err := parser.ParseFile(token.NewFileSet(), fn, nil, 0); err == nil {
					for _, dcl := range f.Decls {
						if fd, ok := dcl.(*ast.FuncDecl); ok && fd.Recv != nil && fd.Name.Name == "Merge" {
							has = true
						}
					}
				}
			}
			if has {
				mergeAPIs = append(mergeAPIs, api)
			}
		}
	}
	// the order the theorems and notes use: the three known ones first, anything new after them
	sort.SliceStable(mergeAPIs, func(i, j int) bool {
		rank := map[string]int{"listgroups": 0, "describegroups": 1, "describeconfigs": 2}
		ri, oki := rank[mergeAPIs[i]]
		rj, okj := rank[mergeAPIs[j]]
		if !oki {
			ri = 9
		}
		if !okj {
			rj = 9
		}
		return ri < rj
	})
	for i, api := range mergeAPIs {
		strict, err := mergeIsStrict(filepath.Join(repo, "protocol", api))
		if err != nil {
			return fmt.Errorf("untranslated: %v", err)
		}
		if i > 0 {
			b.WriteString(", ")
		}
		fmt.Fprintf(&b, "(\"%s\", %v)", api, strict)
	}
	b.WriteString("]\n\n")
	// ReadBatchWith: the branch taken when the high watermark equals the fetch offset discards the message set
	skips := false
	ast.Inspect(connFns["ReadBatchWith"].Body, func(n ast.Node) bool {
		if is, ok := n.(*ast.IfStmt); ok {
			if be, ok := is.Cond.(*ast.BinaryExpr); ok && be.Op == token.EQL {
				_, xi := be.X.(*ast.Ident)
				_, yi := be.Y.(*ast.Ident)
				if xi && yi && containsText(is.Body, "messageSetReader") && containsCall(is.Body, "discardN") {
					skips = true
				}
			}
		}
		return true
	})
	fmt.Fprintf(&b, "/-- conn.go ReadBatchWith: at the high watermark (empty reader) the message set of the response is discarded -/\ndef fetchSkipsAtWatermark : Bool := %v\n\n", skips)
	// which errors close the connection: `if !errors.As(err, &kafkaError) { c.conn.Close() }` in do,
	// `if !errors.As(err, &kafkaError) && !errors.Is(err, io.ErrShortBuffer) { conn.Close() }` in Batch.close
	fmt.Fprintf(&b, "/-- (*Conn).loadVersions returns on ANY error of ApiVersions before the version map is built and stored -/\ndef loadVersionsStrict : Bool := %v\n\n", loadVersionsStrict(connFns["loadVersions"]))
	rr, err := retryRebuildsRecords(filepath.Join(repo, "writer.go"))
	if err != nil {
		return fmt.Errorf("untranslated: %v", err)
	}
	rc, err := readerClosesUnderDeadline(filepath.Join(repo, "reader.go"))
	if err != nil {
		return fmt.Errorf("untranslated: %v", err)
	}
	fmt.Fprintf(&b, "/-- writer.go writeBatch: the record reader of a produce request is built anew for every attempt -/\ndef retryRebuildsRecords : Bool := %v\n", rr)
	fmt.Fprintf(&b, "/-- reader.go (*reader).read: the batch is closed (its rest skipped) before the read deadline is cleared, never by a deferred call -/\ndef readerClosesUnderDeadline : Bool := %v\n\n", rc)
	fmt.Fprintf(&b, "/-- (*Batch).close uses the result of msgs.discard(): a response whose rest cannot be skipped does not end in a kept Conn -/\ndef batchCloseMindsDiscard : Bool := %v\n\n", batchCloseMindsDiscard(connFns["Batch.close"]))
	fmt.Fprintf(&b, "/-- (*Conn).do / (*Batch).close close the connection exactly on errors that are not kafka errors (Batch: nor io.ErrShortBuffer) -/\ndef doClosesNonKafka : Bool := %v\ndef batchClosesNonKafka : Bool := %v\n\n",
		closesOnNonKafka(connFns["do"], false), closesOnNonKafka(connFns["Batch.close"], true))
	b.WriteString("def callsOf (m : String) : List String := ((calls.find? (·.1 == m)).map (·.2)).getD []\n")
	b.WriteString("def versionsOf (m : String) : List Nat := ((negotiated.find? (·.1 == m)).map (·.2)).getD []\n")
	b.WriteString("end KV.Gen.ConnLegacy\n")
	return os.WriteFile(filepath.Join(root, "lean/KafkaVerif/Gen/ConnLegacy.lean"), []byte(b.String()), 0o644)
}
