package main

// Translation of the response parsers that are NOT `readFrom` methods: the three `readFetchResponseHeaderV*` functions
// of read.go and the element callbacks written inline in conn.go (`readOffset`, `writeCompressedMessages`).  Same
// restricted subset idea as connlegacy.go: recognise the statement shapes these functions are made of, classify local
// variables by how they are USED (compared with 1, with 0 + Error(…), with the remaining size, with -1), never by
// their names; anything else is an error ("untranslated").

import (
	"fmt"
	"go/ast"
	"go/token"
	"strings"
)

// ---------------------------------------------------------------------------------------- read.go fetch headers

type hdrRoles struct {
	ones    map[string]bool // compared with 1: the topic / partition counts
	errs    map[string]bool // `X != 0` guarding Error(X)
	setSize map[string]bool // compared with the remaining size
	abLen   map[string]bool // compared with -1: the aborted-transactions count
	hwm     string          // struct field copied into the second result (the high watermark)
}

func isIntLit(e ast.Expr, v string) bool {
	if u, ok := e.(*ast.UnaryExpr); ok && u.Op == token.SUB {
		if l, ok := u.X.(*ast.BasicLit); ok {
			return "-"+l.Value == v
		}
	}
	l, ok := e.(*ast.BasicLit)
	return ok && l.Value == v
}

func bodyMakesError(b *ast.BlockStmt) bool {
	found := false
	ast.Inspect(b, func(n ast.Node) bool {
		if c, ok := n.(*ast.CallExpr); ok {
			if id, ok := c.Fun.(*ast.Ident); ok && id.Name == "Error" {
				found = true
			}
		}
		return true
	})
	return found
}

func headerRoles(fd *ast.FuncDecl) hdrRoles {
	r := hdrRoles{ones: map[string]bool{}, errs: map[string]bool{}, setSize: map[string]bool{}, abLen: map[string]bool{}}
	res2 := ""
	if fd.Type.Results != nil {
		i := 0
		for _, f := range fd.Type.Results.List {
			for _, n := range f.Names {
				if i == 1 {
					res2 = n.Name
				}
				i++
			}
		}
	}
	ast.Inspect(fd.Body, func(n ast.Node) bool {
		switch s := n.(type) {
		case *ast.IfStmt:
			be, ok := s.Cond.(*ast.BinaryExpr)
			if !ok {
				return true
			}
			x := exprString(be.X)
			switch {
			case be.Op == token.NEQ && isIntLit(be.Y, "1"):
				r.ones[x] = true
			case be.Op == token.NEQ && isIntLit(be.Y, "0") && bodyMakesError(s.Body):
				r.errs[x] = true
			case be.Op == token.EQL && isIntLit(be.Y, "-1"):
				r.abLen[x] = true
			case be.Op == token.NEQ:
				if c, ok := be.Y.(*ast.CallExpr); ok && len(c.Args) == 1 { // remain != int(X)
					r.setSize[exprString(c.Args[0])] = true
				}
			}
		case *ast.AssignStmt:
			if len(s.Lhs) == 1 && len(s.Rhs) == 1 && exprString(s.Lhs[0]) == res2 {
				if sel, ok := s.Rhs[0].(*ast.SelectorExpr); ok {
					r.hwm = sel.Sel.Name
				}
			}
		}
		return true
	})
	return r
}

func intWidth(fn string) int {
	switch fn {
	case "readInt8", "readBool":
		return 1
	case "readInt16":
		return 2
	case "readInt32":
		return 4
	case "readInt64":
		return 8
	}
	return 0
}

// target of `&x` / `&p.F`
func addrTarget(e ast.Expr) string {
	if u, ok := e.(*ast.UnaryExpr); ok && u.Op == token.AND {
		return exprString(u.X)
	}
	return ""
}

func translateFetchHeader(fd *ast.FuncDecl) (string, error) {
	roles := headerRoles(fd)
	structs := map[string]*ast.StructType{} // local `var p struct{…}`
	var out []string
	list := fd.Body.List
	isErrReturn := func(st ast.Stmt) bool { // `if err != nil { return }`
		is, ok := st.(*ast.IfStmt)
		if !ok || is.Init != nil || len(is.Body.List) != 1 {
			return false
		}
		be, ok := is.Cond.(*ast.BinaryExpr)
		if !ok || be.Op != token.NEQ || exprString(be.Y) != "nil" {
			return false
		}
		_, ok = is.Body.List[0].(*ast.ReturnStmt)
		return ok
	}
	call := func(c *ast.CallExpr) (string, error) {
		fn, ok := c.Fun.(*ast.Ident)
		if !ok {
			return "", fmt.Errorf("untranslated call in %s", fd.Name.Name)
		}
		switch {
		case intWidth(fn.Name) > 0 && len(c.Args) == 3:
			t := addrTarget(c.Args[2])
			switch {
			case roles.ones[t]:
				return ".expect1", nil
			case roles.errs[t]:
				return ".err", nil
			case roles.setSize[t]:
				return ".setSizeRead", nil
			}
			return fmt.Sprintf(".int %d", intWidth(fn.Name)), nil
		case fn.Name == "discardString":
			return ".discStr", nil
		case fn.Name == "discardBytes":
			return ".discBytes", nil
		case fn.Name == "discardInt32":
			return ".disc 4", nil
		case fn.Name == "readArrayLen" && len(c.Args) == 3 && roles.abLen[addrTarget(c.Args[2])]:
			return ".abortedTxs", nil
		case fn.Name == "read" && len(c.Args) == 3:
			t := addrTarget(c.Args[2])
			st := structs[t]
			if st == nil {
				return "", fmt.Errorf("%s: read(&%s) of an unknown local struct", fd.Name.Name, t)
			}
			var fs []string
			for _, f := range st.Fields.List {
				id, ok := f.Type.(*ast.Ident)
				if !ok {
					return "", fmt.Errorf("%s: field type in %s", fd.Name.Name, t)
				}
				w := map[string]int{"int8": 1, "int16": 2, "int32": 4, "int64": 8, "bool": 1}[id.Name]
				if w == 0 {
					return "", fmt.Errorf("%s: field type %s in %s", fd.Name.Name, id.Name, t)
				}
				for _, n := range f.Names {
					switch {
					case roles.errs[t+"."+n.Name]:
						fs = append(fs, ".err")
					case n.Name == roles.hwm:
						fs = append(fs, ".hwm")
					case roles.setSize[t+"."+n.Name]:
						fs = append(fs, ".setSizeRead")
					default:
						fs = append(fs, fmt.Sprintf(".int %d", w))
					}
				}
			}
			return strings.Join(fs, ", "), nil
		}
		return "", fmt.Errorf("%s: untranslated call %s", fd.Name.Name, fn.Name)
	}
	for i := 0; i < len(list); i++ {
		switch s := list[i].(type) {
		case *ast.DeclStmt:
			gd := s.Decl.(*ast.GenDecl)
			for _, sp := range gd.Specs {
				if vs, ok := sp.(*ast.ValueSpec); ok {
					if st, ok := vs.Type.(*ast.StructType); ok {
						for _, n := range vs.Names {
							structs[n.Name] = st
						}
					}
				}
			}
		case *ast.ReturnStmt:
		case *ast.AssignStmt:
			if len(s.Lhs) == 2 && len(s.Rhs) == 1 { // remain, err = readInt32(…) ; if err != nil { return }
				c, ok := s.Rhs[0].(*ast.CallExpr)
				if !ok {
					return "", fmt.Errorf("%s: untranslated assignment", fd.Name.Name)
				}
				t, err := call(c)
				if err != nil {
					return "", err
				}
				out = append(out, t)
				if i+1 < len(list) && isErrReturn(list[i+1]) {
					i++
				}
				continue
			}
			if len(s.Lhs) == 1 { // watermark = p.HighwaterMarkOffset, abortedTransactions = nil
				continue
			}
			return "", fmt.Errorf("%s: untranslated assignment", fd.Name.Name)
		case *ast.IfStmt:
			if s.Init != nil {
				as, ok := s.Init.(*ast.AssignStmt)
				if !ok || len(as.Rhs) != 1 {
					return "", fmt.Errorf("%s: untranslated if-init", fd.Name.Name)
				}
				c, ok := as.Rhs[0].(*ast.CallExpr)
				if !ok {
					return "", fmt.Errorf("%s: untranslated if-init", fd.Name.Name)
				}
				t, err := call(c)
				if err != nil {
					return "", err
				}
				out = append(out, t)
				continue
			}
			be, ok := s.Cond.(*ast.BinaryExpr)
			if !ok {
				return "", fmt.Errorf("%s: untranslated condition", fd.Name.Name)
			}
			if be.Op == token.LOR && !bodyMakesError(s.Body) && containsCall(s.Body, "Errorf") && s.Else == nil {
				// a sanity bound on a count read from the wire (`if n < -1 || n > remain/16 { err = fmt.Errorf(…); return }`):
				// a frame it rejects fails in the element loop as well, or is a negative count (C20's subject)
				mentions := false
				ast.Inspect(be, func(n ast.Node) bool {
					if e, ok := n.(ast.Expr); ok && (roles.abLen[exprString(e)] || roles.ones[exprString(e)]) {
						mentions = true
					}
					return true
				})
				if mentions {
					continue
				}
			}
			x := exprString(be.X)
			switch {
			case roles.ones[x] && isIntLit(be.Y, "1"): // merged into .expect1
			case roles.errs[x] && isIntLit(be.Y, "0"):
				out = append(out, ".failIfErr")
			case roles.abLen[x]: // merged into .abortedTxs (the loop reading 16-byte entries)
				if s.Else == nil || !containsCall(s.Else, "read") {
					return "", fmt.Errorf("%s: aborted-transactions block without its read loop", fd.Name.Name)
				}
			case be.Op == token.NEQ:
				if c, ok := be.Y.(*ast.CallExpr); ok && len(c.Args) == 1 && roles.setSize[exprString(c.Args[0])] {
					out = append(out, ".setSizeCheck")
					continue
				}
				return "", fmt.Errorf("%s: untranslated if (%s)", fd.Name.Name, x)
			default:
				return "", fmt.Errorf("%s: untranslated if (%s)", fd.Name.Name, x)
			}
		default:
			return "", fmt.Errorf("%s: untranslated statement %T", fd.Name.Name, s)
		}
	}
	return strings.Join(out, ", "), nil
}

// ---------------------------------------------------------------------------------------- conn.go element callbacks

// findRootArray returns the callback of the `readArrayWith(&<recv>.rbuf, size, func…)` call inside a Conn method.
func findRootArray(fd *ast.FuncDecl) *ast.FuncLit {
	var fl *ast.FuncLit
	ast.Inspect(fd.Body, func(n ast.Node) bool {
		c, ok := n.(*ast.CallExpr)
		if !ok || fl != nil {
			return fl == nil
		}
		if id, ok := c.Fun.(*ast.Ident); ok && id.Name == "readArrayWith" && len(c.Args) == 3 && strings.HasSuffix(exprString(c.Args[0]), ".rbuf") {
			fl, _ = c.Args[2].(*ast.FuncLit)
		}
		return true
	})
	return fl
}

// callback translates the body of an element callback for negotiated version v.
func (x *clx) callback(owner string, list []ast.Stmt, v int) (string, error) {
	var out []string
	locals := map[string]string{}
	isErrCheck := func(st ast.Stmt) bool {
		is, ok := st.(*ast.IfStmt)
		if !ok || is.Init != nil || len(is.Body.List) != 1 {
			return false
		}
		be, ok := is.Cond.(*ast.BinaryExpr)
		if !ok || be.Op != token.NEQ || exprString(be.Y) != "nil" {
			return false
		}
		_, ok = is.Body.List[0].(*ast.ReturnStmt)
		return ok
	}
	call := func(c *ast.CallExpr) (string, error) {
		switch f := c.Fun.(type) {
		case *ast.Ident:
			switch f.Name {
			case "discardString":
				return ".discStr", nil
			case "discardBytes":
				return ".discBytes", nil
			case "discardInt32":
				return ".disc 4", nil
			case "readArrayWith":
				if fl, ok := c.Args[len(c.Args)-1].(*ast.FuncLit); ok {
					inner, err := x.callback(owner, fl.Body.List, v)
					if err != nil {
						return "", err
					}
					return ".arr [" + inner + "]", nil
				}
			}
			if w := intWidth(f.Name); w > 0 {
				return fmt.Sprintf(".int %d", w), nil
			}
		case *ast.SelectorExpr:
			if f.Sel.Name == "readFrom" {
				ty, ok := locals[exprString(f.X)]
				if !ok {
					return "", fmt.Errorf("%s: readFrom on an unknown local", owner)
				}
				return x.readFrom(ty)
			}
		}
		return "", fmt.Errorf("%s: untranslated call in an element callback", owner)
	}
	for i := 0; i < len(list); i++ {
		switch s := list[i].(type) {
		case *ast.DeclStmt:
			gd, ok := s.Decl.(*ast.GenDecl)
			if !ok {
				return "", fmt.Errorf("%s: untranslated declaration", owner)
			}
			for _, sp := range gd.Specs {
				if vs, ok := sp.(*ast.ValueSpec); ok {
					if id, ok := vs.Type.(*ast.Ident); ok {
						for _, n := range vs.Names {
							locals[n.Name] = id.Name
						}
					}
				}
			}
		case *ast.AssignStmt:
			if len(s.Lhs) == 2 && len(s.Rhs) == 1 {
				c, ok := s.Rhs[0].(*ast.CallExpr)
				if !ok {
					return "", fmt.Errorf("%s: untranslated assignment", owner)
				}
				t, err := call(c)
				if err != nil {
					return "", err
				}
				out = append(out, t)
				if i+1 < len(list) && isErrCheck(list[i+1]) {
					i++
				}
				continue
			}
			if len(s.Lhs) == 1 { // offset = p.Offset: handing a value to the enclosing function
				continue
			}
			return "", fmt.Errorf("%s: untranslated assignment", owner)
		case *ast.IfStmt:
			if s.Init != nil || s.Else != nil {
				return "", fmt.Errorf("%s: untranslated if", owner)
			}
			cond := s.Cond
			if be, ok := cond.(*ast.BinaryExpr); ok && be.Op == token.LAND { // err == nil && p.ErrorCode != 0
				cond = be.Y
				if l, ok := be.X.(*ast.BinaryExpr); !ok || l.Op != token.EQL || exprString(l.Y) != "nil" {
					return "", fmt.Errorf("%s: untranslated condition", owner)
				}
			}
			be, ok := cond.(*ast.BinaryExpr)
			if !ok {
				return "", fmt.Errorf("%s: untranslated condition", owner)
			}
			switch {
			case be.Op == token.NEQ && isIntLit(be.Y, "0") && bodyMakesError(s.Body):
				if sel, ok := be.X.(*ast.SelectorExpr); !ok || !isErrField(sel.Sel.Name) {
					return "", fmt.Errorf("%s: error exit on something that is not an error code", owner)
				}
				out = append(out, ".failIfErr")
			case be.Op == token.EQL && exprString(be.Y) == "nil": // if err == nil { results for the caller }
				for _, st := range s.Body.List {
					if as, ok := st.(*ast.AssignStmt); !ok || len(as.Lhs) != 1 {
						return "", fmt.Errorf("%s: untranslated statement under err == nil", owner)
					}
				}
			case isErrCheck(s):
			default:
				return "", fmt.Errorf("%s: untranslated if", owner)
			}
		case *ast.ReturnStmt:
			if len(s.Results) == 1 {
				c, ok := s.Results[0].(*ast.CallExpr)
				if !ok {
					return "", fmt.Errorf("%s: untranslated return", owner)
				}
				t, err := call(c)
				if err != nil {
					return "", err
				}
				out = append(out, t)
			}
			return strings.Join(out, ", "), nil
		case *ast.SwitchStmt: // switch <negotiated version> { case v7: … default: … }
			if s.Init != nil || s.Tag == nil {
				return "", fmt.Errorf("%s: untranslated switch", owner)
			}
			var chosen, def *ast.CaseClause
			for _, cs := range s.Body.List {
				cc := cs.(*ast.CaseClause)
				if cc.List == nil {
					def = cc
				}
				for _, e := range cc.List {
					if n, ok := verConst(e); ok && n == v {
						chosen = cc
					}
				}
			}
			if chosen == nil {
				chosen = def
			}
			if chosen == nil {
				return "", fmt.Errorf("%s: version switch without a matching case", owner)
			}
			t, err := x.callback(owner, chosen.Body, v)
			if err != nil {
				return "", err
			}
			out = append(out, t)
			// the switch returns in every branch
			return strings.Join(out, ", "), nil
		default:
			return "", fmt.Errorf("%s: untranslated statement %T", owner, s)
		}
	}
	return strings.Join(out, ", "), nil
}

// ---------------------------------------------------------------------------------------- conn.go ApiVersions

// translateApiVersions translates the statements of (*Conn).ApiVersions that follow the waitResponse call: integer reads
// into locals, one counted loop of integer reads, the error code checked AFTER the whole parse (`errAfter` = true).
func translateApiVersions(fd *ast.FuncDecl) (prog string, errAfter bool, err error) {
	idx := -1
	for i, st := range fd.Body.List {
		if containsCall(st, "waitResponse") {
			idx = i
		}
	}
	// (when the parse lives in a helper of its own — readApiVersions — the whole body is translated)
	errVars := map[string]bool{}   // X in `if X != 0 { return …, Error(X) }`
	countVars := map[string]bool{} // X in `for …; i < int(X); …`
	ast.Inspect(fd.Body, func(n ast.Node) bool {
		switch s := n.(type) {
		case *ast.IfStmt:
			if be, ok := s.Cond.(*ast.BinaryExpr); ok && be.Op == token.NEQ && isIntLit(be.Y, "0") && bodyMakesError(s.Body) {
				errVars[exprString(be.X)] = true
			}
		case *ast.ForStmt:
			if be, ok := s.Cond.(*ast.BinaryExpr); ok && be.Op == token.LSS {
				if c, ok := be.Y.(*ast.CallExpr); ok && len(c.Args) == 1 {
					countVars[exprString(c.Args[0])] = true
				}
			}
		}
		return true
	})
	readOf := func(st ast.Stmt) (string, string, bool) { // `if size, err = readIntN(…, &X); err != nil { return … }`
		is, ok := st.(*ast.IfStmt)
		if !ok || is.Init == nil {
			return "", "", false
		}
		as, ok := is.Init.(*ast.AssignStmt)
		if !ok || len(as.Rhs) != 1 {
			return "", "", false
		}
		c, ok := as.Rhs[0].(*ast.CallExpr)
		if !ok || len(c.Args) != 3 {
			return "", "", false
		}
		fn, ok := c.Fun.(*ast.Ident)
		if !ok || intWidth(fn.Name) == 0 {
			return "", "", false
		}
		return fmt.Sprintf(".int %d", intWidth(fn.Name)), addrTarget(c.Args[2]), true
	}
	var out []string
	var pendingCount bool
	boundElem := 0 // > 0: the count is checked against size/boundElem (and for being negative) before the loop
	for _, st := range fd.Body.List[idx+1:] {
		switch s := st.(type) {
		case *ast.DeclStmt, *ast.DeferStmt, *ast.ReturnStmt:
		case *ast.AssignStmt: // r := make(…)
		case *ast.IfStmt:
			if step, target, ok := readOf(s); ok {
				switch {
				case errVars[target]:
					out = append(out, ".err")
				case countVars[target]:
					pendingCount = true // becomes the `.arr` of the loop below
				default:
					out = append(out, step)
				}
				continue
			}
			if be, ok := s.Cond.(*ast.BinaryExpr); ok && errVars[exprString(be.X)] {
				errAfter = true
				continue
			}
			if be, ok := s.Cond.(*ast.BinaryExpr); ok && be.Op == token.NEQ && exprString(be.Y) == "nil" {
				continue // the error check right after waitResponse
			}
			if id, ok := s.Cond.(*ast.Ident); ok && id.Name == "verifOn" {
				continue
			}
			// a sanity bound on the entry count (`if n < 0 || n > size/6 { return nil, fmt.Errorf(…) }`): a frame it
			// rejects would fail in the loop as well (short read) or is a negative count (C20's subject, not modelled
			// here); it must mention the count variable and return a non-kafka error
			mentionsCount := false
			ast.Inspect(s.Cond, func(n ast.Node) bool {
				if e, ok := n.(ast.Expr); ok && countVars[exprString(e)] {
					mentionsCount = true
				}
				return true
			})
			if mentionsCount && pendingCount && !bodyMakesError(s.Body) && containsCall(s.Body, "Errorf") {
				// `n < 0 || n > size/<elem>`: the element size is the literal divisor
				ast.Inspect(s.Cond, func(n ast.Node) bool {
					if be, ok := n.(*ast.BinaryExpr); ok && be.Op == token.QUO {
						if lit, ok := be.Y.(*ast.BasicLit); ok {
							fmt.Sscanf(lit.Value, "%d", &boundElem)
						}
					}
					return true
				})
				continue
			}
			return "", false, fmt.Errorf("ApiVersions: untranslated if")
		case *ast.ForStmt:
			if !pendingCount {
				return "", false, fmt.Errorf("ApiVersions: loop without a count read before it")
			}
			var body []string
			for _, bs := range s.Body.List {
				step, _, ok := readOf(bs)
				if !ok {
					return "", false, fmt.Errorf("ApiVersions: untranslated statement in the entry loop")
				}
				body = append(body, step)
			}
			if boundElem > 0 {
				out = append(out, fmt.Sprintf(".arrB %d [%s]", boundElem, strings.Join(body, ", ")))
			} else {
				out = append(out, ".arr ["+strings.Join(body, ", ")+"]")
			}
			pendingCount = false
		default:
			return "", false, fmt.Errorf("ApiVersions: untranslated statement %T", st)
		}
	}
	return strings.Join(out, ", "), errAfter, nil
}
