package main

// Translator for property C12: the routing-relevant facts of every registered kafka API.
//
// Reads (go/parser + go/ast only, nothing is executed):
//   - protocol/protocol.go            the ApiKey constant block (name → number)
//   - protocol/<pkg>/*.go (no tests)  packages whose init() calls protocol.Register / RegisterOverride:
//     the method set of the request type (ApiKey, Broker, Group, Transaction, Split, HasResponse,
//     Prepare, TypeKey, Required/RawExchange), a syntactic classification of the Broker() body, and the
//     raw (min,max) version pairs of the `kafka:"…"` tags on the top-level fields of Request
//     (what protocol.makeTypes folds into the client's supported version range)
//   - transport.go                    the order of the interface cases in (*connPool).sendRequest's type
//     switch and in roundTrip's type switch (first match wins in Go)
//
// Writes lean/KafkaVerif/Gen/Routing.lean.

import (
	"fmt"
	"go/ast"
	"go/constant"
	"go/parser"
	"go/token"
	"os"
	"path/filepath"
	"reflect"
	"sort"
	"strconv"
	"strings"
)

func init() { extractors["routing"] = extractRouting }

type apiFacts struct {
	pkg       string
	keyName   string
	key       int
	override  bool
	broker    string // BrokerBody constructor
	group     bool
	txn       bool
	split     bool
	hasResp   bool
	prepare   bool
	raw       bool
	typeKey   bool
	tags      [][2]int
	groupBody string
}

func recvName(fd *ast.FuncDecl) string {
	if fd.Recv == nil || len(fd.Recv.List) != 1 {
		return ""
	}
	switch t := fd.Recv.List[0].Type.(type) {
	case *ast.Ident:
		return t.Name
	case *ast.StarExpr:
		if id, ok := t.X.(*ast.Ident); ok {
			return id.Name
		}
	}
	return ""
}

func exprString(e ast.Expr) string {
	switch x := e.(type) {
	case *ast.Ident:
		return x.Name
	case *ast.SelectorExpr:
		return exprString(x.X) + "." + x.Sel.Name
	case *ast.IndexExpr:
		return exprString(x.X) + "[" + exprString(x.Index) + "]"
	case *ast.BasicLit:
		return x.Value
	case *ast.StarExpr:
		return "*" + exprString(x.X)
	case *ast.CallExpr:
		return exprString(x.Fun) + "(…)"
	}
	return "?"
}

// classifyBroker gives the syntactic shape of a Broker(cluster) body.
func classifyBroker(fd *ast.FuncDecl) string {
	clusterName := "cluster"
	if fd.Type.Params != nil && len(fd.Type.Params.List) == 1 && len(fd.Type.Params.List[0].Names) == 1 {
		clusterName = fd.Type.Params.List[0].Names[0].Name
	}
	recv := "r"
	if fd.Recv != nil && len(fd.Recv.List) == 1 && len(fd.Recv.List[0].Names) == 1 {
		recv = fd.Recv.List[0].Names[0].Name
	}
	ctrl := clusterName + ".Brokers[" + clusterName + ".Controller]"
	if len(fd.Body.List) == 1 {
		if rs, ok := fd.Body.List[0].(*ast.ReturnStmt); ok && len(rs.Results) == 2 {
			s := exprString(rs.Results[0])
			if s == ctrl && exprString(rs.Results[1]) == "nil" {
				return "controller"
			}
			if strings.HasPrefix(s, clusterName+".Brokers["+recv+".") && exprString(rs.Results[1]) == "nil" {
				return "field"
			}
		}
	}
	usesLeader, usesAtoi, rangesTopics, indexZero, usesCtrl := false, false, false, false, false
	ast.Inspect(fd.Body, func(n ast.Node) bool {
		switch x := n.(type) {
		case *ast.SelectorExpr:
			if x.Sel.Name == "Leader" {
				usesLeader = true
			}
			if x.Sel.Name == "Atoi" {
				usesAtoi = true
			}
		case *ast.RangeStmt:
			if exprString(x.X) == recv+".Topics" {
				rangesTopics = true
			}
		case *ast.IndexExpr:
			if exprString(x) == recv+".Topics[0]" {
				indexZero = true
			}
			if exprString(x) == ctrl {
				usesCtrl = true
			}
		}
		return true
	})
	hasLoop := false
	ast.Inspect(fd.Body, func(n ast.Node) bool {
		switch n.(type) {
		case *ast.RangeStmt, *ast.ForStmt:
			hasLoop = true
		}
		return true
	})
	switch {
	case usesCtrl && !usesLeader && !usesAtoi && !hasLoop:
		return "controller" // the same lookup through a local variable
	case usesLeader && rangesTopics:
		return "leaderAll"
	case usesLeader && indexZero:
		return "leaderFirst"
	case usesAtoi && usesCtrl:
		return "resourceOrController"
	}
	return "other"
}

// tagPairs mirrors the *lexing* of protocol.forEachStructTag for min=/max= only (the fold over the pairs is
// done by the Lean model, Model/Routing.lean clientRange, mirroring protocol.makeTypes).
func tagPairs(tag string) (out [][2]int, err error) {
	if tag == "-" {
		return nil, nil
	}
	for _, seg := range splitNonEmptyTail(tag, '|') {
		mn, mx := -1, -1
		for _, kv := range splitNonEmptyTail(seg, ',') {
			switch {
			case strings.HasPrefix(kv, "min=v"):
				mn, err = strconv.Atoi(kv[5:])
			case strings.HasPrefix(kv, "max=v"):
				mx, err = strconv.Atoi(kv[5:])
			}
			if err != nil {
				return nil, err
			}
		}
		out = append(out, [2]int{mn, mx})
	}
	return out, nil
}

// splitNonEmptyTail mirrors protocol.forEach: iterate while the remaining string is non-empty.
func splitNonEmptyTail(s string, sep byte) (parts []string) {
	for len(s) != 0 {
		i := strings.IndexByte(s, sep)
		if i < 0 {
			parts = append(parts, s)
			s = ""
		} else {
			parts = append(parts, s[:i])
			s = s[i+1:]
		}
	}
	return
}

func apiKeyConsts(repo string) (map[string]int, error) {
	fset := token.NewFileSet()
	f, err := parser.ParseFile(fset, filepath.Join(repo, "protocol", "protocol.go"), nil, 0)
	if err != nil {
		return nil, err
	}
	res := map[string]int{}
	for _, d := range f.Decls {
		gd, ok := d.(*ast.GenDecl)
		if !ok || gd.Tok != token.CONST {
			continue
		}
		for _, s := range gd.Specs {
			vs := s.(*ast.ValueSpec)
			if id, ok := vs.Type.(*ast.Ident); !ok || id.Name != "ApiKey" {
				continue
			}
			for i, n := range vs.Names {
				if i < len(vs.Values) {
					if v, ok := litValue(vs.Values[i]); ok {
						res[n.Name] = int(v)
					}
				}
			}
		}
	}
	if len(res) == 0 {
		return nil, fmt.Errorf("no ApiKey constants found in protocol/protocol.go")
	}
	return res, nil
}

// switchCases returns the case type expressions, in source order, of the first type switch of the function.
func switchCases(repo, file, recv, fn string) ([]string, error) {
	fset := token.NewFileSet()
	f, err := parser.ParseFile(fset, filepath.Join(repo, file), nil, 0)
	if err != nil {
		return nil, err
	}
	// local package names → canonical names by import path, so that a renamed import alias changes nothing
	canon := map[string]string{}
	for _, im := range f.Imports {
		path, _ := strconv.Unquote(im.Path.Value)
		base := path[strings.LastIndex(path, "/")+1:]
		local := base
		if im.Name != nil {
			local = im.Name.Name
		}
		switch {
		case strings.HasSuffix(path, "kafka-go/protocol"):
			canon[local] = "protocol"
		case strings.HasSuffix(path, "kafka-go/protocol/metadata"):
			canon[local] = "meta"
		}
	}
	rename := func(s string) string {
		star := strings.HasPrefix(s, "*")
		t := strings.TrimPrefix(s, "*")
		if i := strings.Index(t, "."); i > 0 {
			if c, ok := canon[t[:i]]; ok {
				t = c + t[i:]
			}
		}
		if star {
			return "*" + t
		}
		return t
	}
	for _, d := range f.Decls {
		fd, ok := d.(*ast.FuncDecl)
		if !ok || fd.Body == nil || fd.Name.Name != fn || recvName(fd) != recv {
			continue
		}
		var out []string
		found := false
		ast.Inspect(fd.Body, func(n ast.Node) bool {
			if found {
				return false
			}
			if ts, ok := n.(*ast.TypeSwitchStmt); ok {
				found = true
				for _, c := range ts.Body.List {
					cc := c.(*ast.CaseClause)
					if cc.List == nil {
						out = append(out, "default")
					}
					for _, e := range cc.List {
						out = append(out, rename(exprString(e)))
					}
				}
				return false
			}
			return true
		})
		if !found {
			return nil, fmt.Errorf("%s: no type switch in %s.%s", file, recv, fn)
		}
		return out, nil
	}
	return nil, fmt.Errorf("%s: function %s.%s not found", file, recv, fn)
}

// discoverExits classifies every `return` inside the refresh loop of (*connPool).discover by its guard:
//
//	errIsPoolCtx   if … errors.Is(err, <ctx param>.Err())   (the pool's own context)
//	errIsOtherCtx  if … errors.Is(err, <other>.Err())       (e.g. the per-request deadline context)
//	poolDone       case <-done / <-ctx.Done()               (done := <ctx param>.Done())
//	otherChan      any other select case
//	other          anything else (unconditional, other conditions)
func discoverExits(repo string) ([]string, error) {
	fset := token.NewFileSet()
	f, err := parser.ParseFile(fset, filepath.Join(repo, "transport.go"), nil, 0)
	if err != nil {
		return nil, err
	}
	for _, d := range f.Decls {
		fd, ok := d.(*ast.FuncDecl)
		if !ok || fd.Body == nil || fd.Name.Name != "discover" || recvName(fd) != "connPool" {
			continue
		}
		if fd.Type.Params == nil || len(fd.Type.Params.List) == 0 || len(fd.Type.Params.List[0].Names) == 0 {
			return nil, fmt.Errorf("discover: no context parameter")
		}
		ctxName := fd.Type.Params.List[0].Names[0].Name
		doneNames := map[string]bool{}
		var loop *ast.ForStmt
		for _, st := range fd.Body.List {
			switch x := st.(type) {
			case *ast.AssignStmt:
				if len(x.Lhs) == 1 && len(x.Rhs) == 1 && exprString(x.Rhs[0]) == ctxName+".Done(…)" {
					doneNames[exprString(x.Lhs[0])] = true
				}
			case *ast.ForStmt:
				if loop == nil {
					loop = x
				}
			}
		}
		if loop == nil {
			return nil, fmt.Errorf("discover: no refresh loop")
		}
		var out []string
		var walk func(n ast.Node, guard string)
		walk = func(n ast.Node, guard string) {
			switch x := n.(type) {
			case nil:
				return
			case *ast.ReturnStmt:
				out = append(out, guard)
			case *ast.FuncLit:
				return // returns of nested functions do not leave the loop
			case *ast.IfStmt:
				g := "other"
				ast.Inspect(x.Cond, func(m ast.Node) bool {
					if c, ok := m.(*ast.CallExpr); ok && exprString(c.Fun) == "errors.Is" && len(c.Args) == 2 {
						if exprString(c.Args[1]) == ctxName+".Err(…)" {
							g = "errIsPoolCtx"
						} else if strings.HasSuffix(exprString(c.Args[1]), ".Err(…)") {
							g = "errIsOtherCtx"
						}
					}
					return true
				})
				walk(x.Body, g)
				if x.Else != nil {
					walk(x.Else, "other")
				}
			case *ast.CommClause:
				g := "otherChan"
				var recv ast.Expr
				switch c := x.Comm.(type) {
				case *ast.ExprStmt:
					recv = c.X
				case *ast.AssignStmt:
					if len(c.Rhs) == 1 {
						recv = c.Rhs[0]
					}
				}
				if u, ok := recv.(*ast.UnaryExpr); ok && u.Op == token.ARROW {
					if e := exprString(u.X); doneNames[e] || e == ctxName+".Done(…)" {
						g = "poolDone"
					}
				}
				for _, st := range x.Body {
					walk(st, g)
				}
			case *ast.BlockStmt:
				for _, st := range x.List {
					walk(st, guard)
				}
			case *ast.ForStmt:
				walk(x.Body, guard)
			case *ast.RangeStmt:
				walk(x.Body, guard)
			case *ast.SelectStmt:
				for _, cl := range x.Body.List {
					walk(cl, guard)
				}
			case *ast.SwitchStmt:
				for _, cl := range x.Body.List {
					for _, st := range cl.(*ast.CaseClause).Body {
						walk(st, "other")
					}
				}
			case *ast.TypeSwitchStmt:
				for _, cl := range x.Body.List {
					for _, st := range cl.(*ast.CaseClause).Body {
						walk(st, "other")
					}
				}
			case *ast.LabeledStmt:
				walk(x.Stmt, guard)
			}
		}
		walk(loop.Body, "other")
		return out, nil
	}
	return nil, fmt.Errorf("transport.go: (*connPool).discover not found")
}

// selectVersionExpr translates (ApiKey).SelectVersion into a Lean if-chain.  Accepted subset: a prologue of
// `x := k.MinVersion()` / `y := k.MaxVersion()` assignments (any local names), then either a tagless switch or an
// if / else-if chain whose conditions are comparisons between those locals and the two parameters and whose
// bodies are a single `return <local or parameter>`.  Identifiers are canonicalised (cmin, cmax, bmin, bmax) so
// that renaming locals or parameters changes nothing.
func selectVersionExpr(repo string) (string, error) {
	fset := token.NewFileSet()
	f, err := parser.ParseFile(fset, filepath.Join(repo, "protocol", "protocol.go"), nil, 0)
	if err != nil {
		return "", err
	}
	for _, d := range f.Decls {
		fd, ok := d.(*ast.FuncDecl)
		if !ok || fd.Body == nil || fd.Name.Name != "SelectVersion" || recvName(fd) != "ApiKey" {
			continue
		}
		names := map[string]string{}
		var params []string
		for _, fl := range fd.Type.Params.List {
			for _, n := range fl.Names {
				params = append(params, n.Name)
			}
		}
		if len(params) != 2 {
			return "", fmt.Errorf("SelectVersion: expected two parameters")
		}
		names[params[0]], names[params[1]] = "bmin", "bmax"
		recv := fd.Recv.List[0].Names[0].Name
		term := func(e ast.Expr) (string, error) {
			switch x := e.(type) {
			case *ast.Ident:
				if c, ok := names[x.Name]; ok {
					return c, nil
				}
			case *ast.CallExpr:
				switch exprString(x.Fun) {
				case recv + ".MinVersion":
					return "cmin", nil
				case recv + ".MaxVersion":
					return "cmax", nil
				}
			case *ast.ParenExpr:
				return "", fmt.Errorf("parenthesised term")
			}
			return "", fmt.Errorf("SelectVersion: term %s outside the translated subset", exprString(e))
		}
		cond := func(e ast.Expr) (string, error) {
			b, ok := e.(*ast.BinaryExpr)
			if !ok {
				return "", fmt.Errorf("SelectVersion: condition outside the translated subset")
			}
			op := map[token.Token]string{token.LSS: "<", token.GTR: ">", token.LEQ: "≤", token.GEQ: "≥", token.EQL: "=", token.NEQ: "≠"}[b.Op]
			if op == "" {
				return "", fmt.Errorf("SelectVersion: operator %s outside the translated subset", b.Op)
			}
			l, err := term(b.X)
			if err != nil {
				return "", err
			}
			r, err := term(b.Y)
			if err != nil {
				return "", err
			}
			return l + " " + op + " " + r, nil
		}
		ret := func(body []ast.Stmt) (string, error) {
			if len(body) == 1 {
				if rs, ok := body[0].(*ast.ReturnStmt); ok && len(rs.Results) == 1 {
					return term(rs.Results[0])
				}
			}
			return "", fmt.Errorf("SelectVersion: case body outside the translated subset")
		}
		var chain func(stmts []ast.Stmt) (string, error)
		chain = func(stmts []ast.Stmt) (string, error) {
			if len(stmts) == 0 {
				return "", fmt.Errorf("SelectVersion: falls off the end")
			}
			switch x := stmts[0].(type) {
			case *ast.AssignStmt:
				if len(x.Lhs) == 1 && len(x.Rhs) == 1 {
					if id, ok := x.Lhs[0].(*ast.Ident); ok {
						c, err := term(x.Rhs[0])
						if err != nil {
							return "", err
						}
						names[id.Name] = c
						return chain(stmts[1:])
					}
				}
			case *ast.ReturnStmt:
				return ret(stmts[:1])
			case *ast.SwitchStmt:
				if x.Tag != nil || x.Init != nil {
					break
				}
				out, deflt := "", ""
				for _, cl := range x.Body.List {
					cc := cl.(*ast.CaseClause)
					r, err := ret(cc.Body)
					if err != nil {
						return "", err
					}
					if cc.List == nil {
						deflt = r
						continue
					}
					if len(cc.List) != 1 {
						return "", fmt.Errorf("SelectVersion: multi-expression case")
					}
					c, err := cond(cc.List[0])
					if err != nil {
						return "", err
					}
					out += "if " + c + " then " + r + " else "
				}
				if deflt == "" {
					rest, err := chain(stmts[1:])
					if err != nil {
						return "", err
					}
					deflt = rest
				}
				return out + deflt, nil
			case *ast.IfStmt:
				c, err := cond(x.Cond)
				if err != nil {
					return "", err
				}
				r, err := ret(x.Body.List)
				if err != nil {
					return "", err
				}
				var rest string
				switch e := x.Else.(type) {
				case nil:
					rest, err = chain(stmts[1:])
				case *ast.BlockStmt:
					rest, err = chain(append(append([]ast.Stmt{}, e.List...), stmts[1:]...))
				case *ast.IfStmt:
					rest, err = chain(append([]ast.Stmt{e}, stmts[1:]...))
				}
				if err != nil {
					return "", err
				}
				return "if " + c + " then " + r + " else " + rest, nil
			}
			return "", fmt.Errorf("SelectVersion: statement outside the translated subset")
		}
		return chain(fd.Body.List)
	}
	return "", fmt.Errorf("protocol.go: (ApiKey).SelectVersion not found")
}

// updateCompare classifies how (*connPool).update decides that a broker known under the same id has changed:
// "whole" for `<local> != <local>` (the two Broker structs compared as a whole), "fields:<A>,<B>" when only
// fields are compared, "other" otherwise.
func updateCompare(repo string) (string, error) {
	fset := token.NewFileSet()
	f, err := parser.ParseFile(fset, filepath.Join(repo, "transport.go"), nil, 0)
	if err != nil {
		return "", err
	}
	for _, d := range f.Decls {
		fd, ok := d.(*ast.FuncDecl)
		if !ok || fd.Body == nil || fd.Name.Name != "update" || recvName(fd) != "connPool" {
			continue
		}
		res := ""
		ast.Inspect(fd.Body, func(n ast.Node) bool {
			rs, ok := n.(*ast.RangeStmt)
			if !ok || !strings.HasSuffix(exprString(rs.X), ".Brokers") || rs.Value == nil {
				return true
			}
			for _, st := range rs.Body.List {
				is, ok := st.(*ast.IfStmt)
				if !ok || is.Init == nil {
					continue
				}
				if el, ok := is.Else.(*ast.IfStmt); ok {
					var fields []string
					whole, other := false, false
					ast.Inspect(el.Cond, func(m ast.Node) bool {
						b, ok := m.(*ast.BinaryExpr)
						if !ok {
							return true
						}
						switch b.Op {
						case token.NEQ:
							_, li := b.X.(*ast.Ident)
							_, ri := b.Y.(*ast.Ident)
							ls, lsel := b.X.(*ast.SelectorExpr)
							rsel, rselok := b.Y.(*ast.SelectorExpr)
							switch {
							case li && ri:
								whole = true
							case lsel && rselok && ls.Sel.Name == rsel.Sel.Name:
								fields = append(fields, ls.Sel.Name)
							default:
								other = true
							}
							return false
						case token.LOR:
							return true
						default:
							other = true
							return false
						}
					})
					switch {
					case other:
						res = "other"
					case whole:
						res = "whole"
					case len(fields) > 0:
						sort.Strings(fields)
						res = "fields:" + strings.Join(fields, ",")
					}
				}
			}
			return true
		})
		if res == "" {
			return "", fmt.Errorf("transport.go update: broker comparison not found")
		}
		return res, nil
	}
	return "", fmt.Errorf("transport.go: (*connPool).update not found")
}

// brokerConnGuard translates the condition under which sendRequest uses a per-broker connection
// (`if <id> <op> <int> { … grabBrokerConn … }`) into a Lean proposition over `brokerID`.
func brokerConnGuard(repo string) (string, error) {
	fset := token.NewFileSet()
	f, err := parser.ParseFile(fset, filepath.Join(repo, "transport.go"), nil, 0)
	if err != nil {
		return "", err
	}
	for _, d := range f.Decls {
		fd, ok := d.(*ast.FuncDecl)
		if !ok || fd.Body == nil || fd.Name.Name != "sendRequest" || recvName(fd) != "connPool" {
			continue
		}
		out, bad := "", ""
		ast.Inspect(fd.Body, func(n ast.Node) bool {
			is, ok := n.(*ast.IfStmt)
			if !ok {
				return true
			}
			calls := false
			ast.Inspect(is.Body, func(m ast.Node) bool {
				if c, ok := m.(*ast.CallExpr); ok && strings.HasSuffix(exprString(c.Fun), ".grabBrokerConn") {
					calls = true
				}
				return true
			})
			if !calls {
				return true
			}
			b, ok := is.Cond.(*ast.BinaryExpr)
			if !ok {
				bad = "condition is not a comparison"
				return false
			}
			op := map[token.Token]string{token.LSS: "<", token.GTR: ">", token.LEQ: "≤", token.GEQ: "≥", token.EQL: "=", token.NEQ: "≠"}[b.Op]
			_, lid := b.X.(*ast.Ident)
			v, vok := litValue(b.Y)
			neg := false
			if u, ok := b.Y.(*ast.UnaryExpr); ok && u.Op == token.SUB {
				v, vok = litValue(u.X)
				neg = true
			}
			if op == "" || !lid || !vok {
				bad = "comparison outside the translated subset"
				return false
			}
			lit := strconv.FormatUint(v, 10)
			if neg {
				lit = "-" + lit
			}
			out = "brokerID " + op + " " + lit
			return false
		})
		if bad != "" || out == "" {
			return "", fmt.Errorf("transport.go sendRequest: broker connection guard: %s", bad)
		}
		return out, nil
	}
	return "", fmt.Errorf("transport.go: (*connPool).sendRequest not found")
}

// searchPredicate translates the predicate of the sort.Search call in findMetadataTopic
// (`func(i int) bool { return topics[i].Name >= topicName }`) and the final equality test into Lean over
// `elem` (the i-th topic's name) and `target`.
func searchPredicate(repo string) (pred, final string, err error) {
	fset := token.NewFileSet()
	f, perr := parser.ParseFile(fset, filepath.Join(repo, "transport.go"), nil, 0)
	if perr != nil {
		return "", "", perr
	}
	for _, d := range f.Decls {
		fd, ok := d.(*ast.FuncDecl)
		if !ok || fd.Body == nil || fd.Name.Name != "findMetadataTopic" {
			continue
		}
		if len(fd.Type.Params.List) < 2 {
			return "", "", fmt.Errorf("findMetadataTopic: unexpected signature")
		}
		target := fd.Type.Params.List[len(fd.Type.Params.List)-1].Names[0].Name
		side := func(e ast.Expr) string {
			if id, ok := e.(*ast.Ident); ok && id.Name == target {
				return "target"
			}
			if sel, ok := e.(*ast.SelectorExpr); ok && sel.Sel.Name == "Name" {
				if _, ok := sel.X.(*ast.IndexExpr); ok {
					return "elem"
				}
			}
			return ""
		}
		ops := map[token.Token]string{token.LSS: "<", token.GTR: ">", token.LEQ: "≤", token.GEQ: "≥", token.EQL: "=", token.NEQ: "≠"}
		ast.Inspect(fd.Body, func(n ast.Node) bool {
			switch x := n.(type) {
			case *ast.FuncLit:
				ast.Inspect(x.Body, func(m ast.Node) bool {
					if b, ok := m.(*ast.BinaryExpr); ok && ops[b.Op] != "" && side(b.X) != "" && side(b.Y) != "" {
						pred = side(b.X) + " " + ops[b.Op] + " " + side(b.Y)
					}
					return true
				})
				return false
			case *ast.BinaryExpr:
				if x.Op == token.EQL && side(x.X) != "" && side(x.Y) != "" {
					final = side(x.X) + " = " + side(x.Y)
				}
			}
			return true
		})
		if pred == "" || final == "" {
			return "", "", fmt.Errorf("findMetadataTopic: search predicate / final test outside the translated subset")
		}
		return pred, final, nil
	}
	return "", "", fmt.Errorf("transport.go: findMetadataTopic not found")
}

func extractRouting(repo, root string) error {
	keys, err := apiKeyConsts(repo)
	if err != nil {
		return err
	}
	dirs, err := filepath.Glob(filepath.Join(repo, "protocol", "*"))
	if err != nil {
		return err
	}
	var apis []apiFacts
	for _, dir := range dirs {
		st, err := os.Stat(dir)
		if err != nil || !st.IsDir() {
			continue
		}
		fset := token.NewFileSet()
		pkgs, err := parser.ParseDir(fset, dir, func(fi os.FileInfo) bool { return !strings.HasSuffix(fi.Name(), "_test.go") }, 0)
		if err != nil {
			return err
		}
		for _, pkg := range pkgs {
			a := apiFacts{pkg: pkg.Name, hasResp: false, broker: "none", key: -1}
			registered := false
			var reqStruct *ast.StructType
			fileNames := make([]string, 0, len(pkg.Files))
			for n := range pkg.Files {
				fileNames = append(fileNames, n)
			}
			sort.Strings(fileNames)
			for _, fn := range fileNames {
				f := pkg.Files[fn]
				for _, d := range f.Decls {
					switch x := d.(type) {
					case *ast.GenDecl:
						if x.Tok != token.TYPE {
							continue
						}
						for _, s := range x.Specs {
							ts := s.(*ast.TypeSpec)
							if st, ok := ts.Type.(*ast.StructType); ok && ts.Name.Name == "Request" {
								reqStruct = st
							}
						}
					case *ast.FuncDecl:
						if x.Body == nil {
							continue
						}
						if x.Recv == nil && x.Name.Name == "init" {
							ast.Inspect(x.Body, func(n ast.Node) bool {
								if c, ok := n.(*ast.CallExpr); ok {
									switch exprString(c.Fun) {
									case "protocol.Register":
										registered = true
									case "protocol.RegisterOverride":
										registered = true
										a.override = true
									}
								}
								return true
							})
							continue
						}
						if recvName(x) != "Request" {
							continue
						}
						switch x.Name.Name {
						case "ApiKey":
							ast.Inspect(x.Body, func(n ast.Node) bool {
								if rs, ok := n.(*ast.ReturnStmt); ok && len(rs.Results) == 1 {
									s := exprString(rs.Results[0])
									a.keyName = strings.TrimPrefix(s, "protocol.")
								}
								return true
							})
						case "Broker":
							a.broker = classifyBroker(x)
						case "Group":
							a.group = true
						case "Transaction":
							a.txn = true
						case "Split":
							a.split = true
						case "HasResponse":
							a.hasResp = true
						case "Prepare":
							a.prepare = true
						case "TypeKey":
							a.typeKey = true
						case "RawExchange":
							a.raw = true
						}
					}
				}
			}
			if !registered {
				continue
			}
			k, ok := keys[a.keyName]
			if !ok {
				return fmt.Errorf("package %s: cannot resolve ApiKey() result %q", a.pkg, a.keyName)
			}
			a.key = k
			if reqStruct == nil {
				return fmt.Errorf("package %s: no Request struct", a.pkg)
			}
			for _, fld := range reqStruct.Fields.List {
				names := fld.Names
				if len(names) == 0 {
					// embedded field: exported iff its type name is; none in the tree — treat as untranslated
					return fmt.Errorf("package %s: embedded field in Request is outside the translated subset", a.pkg)
				}
				for _, nm := range names {
					if !ast.IsExported(nm.Name) && nm.Name != "_" {
						continue // forEachStructField skips unexported fields other than "_"
					}
					tag := "|"
					if fld.Tag != nil {
						raw, err := strconv.Unquote(fld.Tag.Value)
						if err != nil {
							return err
						}
						if v, ok := reflect.StructTag(raw).Lookup("kafka"); ok {
							tag = v
						}
					}
					ps, err := tagPairs(tag)
					if err != nil {
						return fmt.Errorf("package %s field %s: %v", a.pkg, nm.Name, err)
					}
					a.tags = append(a.tags, ps...)
				}
			}
			apis = append(apis, a)
		}
	}
	if len(apis) < 10 {
		return fmt.Errorf("only %d registered APIs found under protocol/", len(apis))
	}
	sort.Slice(apis, func(i, j int) bool {
		if apis[i].key != apis[j].key {
			return apis[i].key < apis[j].key
		}
		return apis[i].pkg < apis[j].pkg
	})
	sendCases, err := switchCases(repo, "transport.go", "connPool", "sendRequest")
	if err != nil {
		return err
	}
	rtCases, err := switchCases(repo, "transport.go", "connPool", "roundTrip")
	if err != nil {
		return err
	}

	var b strings.Builder
	b.WriteString("/- GENERATED by go/extract/routing.go from /repo/protocol/protocol.go, /repo/protocol/*/*.go and\n")
	b.WriteString("   /repo/transport.go (go/ast only).  Overwritten on every run — do not edit. -/\n")
	b.WriteString("namespace KV.Gen.Routing\n\n")
	b.WriteString("/-- syntactic shape of the request type's `Broker(cluster)` method -/\n")
	b.WriteString("inductive BrokerBody where\n  | none | controller | leaderAll | leaderFirst | resourceOrController | field | other\n  deriving DecidableEq, Repr, Inhabited\n\n")
	b.WriteString("structure ApiMethods where\n  pkg : String\n  apiKey : Nat\n  apiName : String\n  override : Bool\n  broker : BrokerBody\n  group : Bool\n  transaction : Bool\n  split : Bool\n  hasResponseMethod : Bool\n  prepare : Bool\n  rawExchange : Bool\n  /-- raw (min,max) of every `kafka:\"…\"` tag segment on Request's top-level fields, −1 = absent -/\n  tags : List (Int × Int)\n  deriving Repr, Inhabited\n\n")
	b.WriteString("def apis : List ApiMethods := [\n")
	for i, a := range apis {
		var tg []string
		for _, t := range a.tags {
			tg = append(tg, fmt.Sprintf("(%d, %d)", t[0], t[1]))
		}
		sep := ","
		if i == len(apis)-1 {
			sep = ""
		}
		fmt.Fprintf(&b, "  { pkg := %q, apiKey := %d, apiName := %q, override := %v, broker := .%s, group := %v, transaction := %v, split := %v, hasResponseMethod := %v, prepare := %v, rawExchange := %v,\n    tags := [%s] }%s\n",
			a.pkg, a.key, a.keyName, a.override, a.broker, a.group, a.txn, a.split, a.hasResp, a.prepare, a.raw, strings.Join(tg, ", "), sep)
	}
	b.WriteString("]\n\n")
	caseName := func(x string) string {
		switch x {
		case "protocol.BrokerMessage":
			return ".broker"
		case "protocol.GroupMessage":
			return ".group"
		case "protocol.TransactionalMessage":
			return ".transaction"
		case "*meta.Request":
			return ".metadata"
		case "protocol.Splitter":
			return ".splitter"
		}
		return ".other"
	}
	q := func(xs []string) string {
		ys := make([]string, len(xs))
		for i, x := range xs {
			ys[i] = caseName(x)
		}
		return "[" + strings.Join(ys, ", ") + "]"
	}
	b.WriteString("/-- an interface (or type) case of the type switches in transport.go -/\n")
	b.WriteString("inductive SwitchCase where\n  | broker | group | transaction | metadata | splitter | other\n  deriving DecidableEq, Repr, Inhabited\n\n")
	b.WriteString("/-- case order of the type switch in transport.go (*connPool).sendRequest (first match wins) -/\n")
	fmt.Fprintf(&b, "def sendRequestCases : List SwitchCase := %s  -- %s\n\n", q(sendCases), strings.Join(sendCases, ", "))
	b.WriteString("/-- case order of the type switch on the request in transport.go (*connPool).roundTrip -/\n")
	fmt.Fprintf(&b, "def roundTripCases : List SwitchCase := %s  -- %s\n\n", q(rtCases), strings.Join(rtCases, ", "))
	sv, err := selectVersionExpr(repo)
	if err != nil {
		return err
	}
	b.WriteString("/-- protocol/protocol.go (ApiKey).SelectVersion translated statement by statement: `cmin`/`cmax` are\n`k.MinVersion()`/`k.MaxVersion()`, `bmin`/`bmax` the two parameters (the broker's advertised range) -/\n")
	fmt.Fprintf(&b, "def selectVersionSrc (cmin cmax bmin bmax : Int) : Int :=\n  %s\n\n", sv)
	b.WriteString("/-- why a leader-routed request is refused -/\ninductive LeaderErr where\n  | noTopic | noPartition | noLeader | mismatch\n  deriving DecidableEq, Repr, Inhabited\n\n")
	for _, a := range apis {
		if a.broker != "leaderAll" {
			continue
		}
		ll, err := leaderLoopOf(repo, a.pkg)
		if err != nil {
			return err
		}
		fmt.Fprintf(&b, "/-- protocol/%s (*Request).Broker, executed symbolically: initial `broker.ID`, the outer prologue (`some e` = the call\nends with e before the partition loop) and one iteration of the partition loop (`cur` = broker.ID so far, `part` = leader id of the\nlooked-up partition, `bro` = id of the looked-up broker) -/\n", a.pkg)
		fmt.Fprintf(&b, "def leaderInit_%s : Int := %s\n", a.pkg, ll.init)
		fmt.Fprintf(&b, "def leaderTopic_%s (topicFound : Bool) : Option LeaderErr :=\n  %s\n", a.pkg, ll.outer)
		fmt.Fprintf(&b, "def leaderStep_%s (cur : Int) (part : Option Int) (bro : Int → Option Int) : Except LeaderErr Int :=\n  %s\n\n", a.pkg, ll.inner)
	}
	spred, sfinal, err := searchPredicate(repo)
	if err != nil {
		return err
	}
	b.WriteString("/-- transport.go findMetadataTopic: the predicate handed to sort.Search and the final test, over the i-th topic's\nname `elem` and the requested name `target` -/\n")
	fmt.Fprintf(&b, "def searchPred (elem target : String) : Bool := decide (%s)\ndef searchHit (elem target : String) : Bool := decide (%s)\n\n", spred, sfinal)
	lf, err := leaderFirstOf(repo)
	if err != nil {
		return err
	}
	b.WriteString("/-- protocol/listoffsets (*Request).Broker: `part` = Leader of the topic's partition whose ID is the requested one (none: no\nsuch topic / partition), `bro` = id of the broker registered under an id, `zeroBroker` = ID of the zero Broker value -/\n")
	fmt.Fprintf(&b, "def listOffsetsBroker (part : Option Int) (bro : Int → Option Int) (zeroBroker : Int := 0) : Int :=\n  %s\n\n", lf)
	cmp, err := updateCompare(repo)
	if err != nil {
		return err
	}
	b.WriteString("/-- how (*connPool).update decides that a broker known under the same id has changed -/\n")
	b.WriteString("inductive BrokerCompare where\n  | whole | fields (fs : List String) | other\n  deriving DecidableEq, Repr, Inhabited\n\n")
	switch {
	case cmp == "whole":
		b.WriteString("def updateCompare : BrokerCompare := .whole\n\n")
	case strings.HasPrefix(cmp, "fields:"):
		var fs []string
		for _, x := range strings.Split(strings.TrimPrefix(cmp, "fields:"), ",") {
			fs = append(fs, strconv.Quote(x))
		}
		fmt.Fprintf(&b, "def updateCompare : BrokerCompare := .fields [%s]\n\n", strings.Join(fs, ", "))
	default:
		b.WriteString("def updateCompare : BrokerCompare := .other\n\n")
	}
	us, err := extractUpdateSets(repo)
	if err != nil {
		return err
	}
	b.WriteString("/-- transport.go update, classification of a broker id of the NEW layout: (goes into the add set, goes into the\ndelete set), by whether the id was in the old layout and whether its entry changed -/\n")
	fmt.Fprintf(&b, "def updateNewEntry (inOld changed : Bool) : Bool × Bool :=\n  %s\n", us.newEntry)
	b.WriteString("/-- … and of a broker id of the OLD layout, by whether it is still in the new one -/\n")
	fmt.Fprintf(&b, "def updateOldEntry (inNew : Bool) : Bool × Bool :=\n  %s\n", us.oldEntry)
	b.WriteString("/-- which set is applied to the pool's connection groups first -/\ninductive SetRole where\n  | add | del\n  deriving DecidableEq, Repr, Inhabited\n")
	for i := range us.order {
		us.order[i] = "." + us.order[i]
	}
	fmt.Fprintf(&b, "def updateApplyOrder : List SetRole := [%s]\n\n", strings.Join(us.order, ", "))
	keeps, stores, succ, err := updateStateWrites(repo)
	if err != nil {
		return err
	}
	has := func(x string) bool {
		for _, y := range succ {
			if y == x {
				return true
			}
		}
		return false
	}
	b.WriteString("/-- transport.go update, what is written to the cached state: a failed refresh keeps a known view (early return when\nmetadata is cached) and otherwise stores the error; a successful refresh installs the new metadata and layout and CLEARS the error -/\n")
	fmt.Fprintf(&b, "def updateErrorKeepsKnown : Bool := %v\ndef updateErrorStoresErr : Bool := %v\ndef updateSuccessSetsMetadata : Bool := %v\ndef updateSuccessSetsLayout : Bool := %v\ndef updateSuccessClearsErr : Bool := %v\n\n",
		keeps, stores, has("metadata=new"), has("layout=new"), has("err=nil"))
	form, err := brokerDialAddress(repo)
	if err != nil {
		return err
	}
	b.WriteString("/-- transport.go newBrokerConnGroup: how the dial address of a broker's connection group is built from the Host / Port\nthe metadata lists -/\n")
	b.WriteString("inductive AddrForm where\n  | joinHostPort | concat | other\n  deriving DecidableEq, Repr, Inhabited\n")
	fmt.Fprintf(&b, "def brokerDialAddress : AddrForm := .%s\n\n", form)
	if err := emitPrepare(repo, &b); err != nil {
		return err
	}
	if err := emitSplitFields(repo, &b); err != nil {
		return err
	}
	guard, err := brokerConnGuard(repo)
	if err != nil {
		return err
	}
	b.WriteString("/-- transport.go sendRequest: the condition under which the request goes over a connection of the broker's own\ngroup (`grabBrokerConn`) rather than over the control connection -/\n")
	fmt.Fprintf(&b, "def usesBrokerConn (brokerID : Int) : Bool := decide (%s)\n\n", guard)
	exits, err := discoverExits(repo)
	if err != nil {
		return err
	}
	b.WriteString("/-- guard of a `return` inside the refresh loop of transport.go (*connPool).discover -/\n")
	b.WriteString("inductive ExitGuard where\n  | errIsPoolCtx | errIsOtherCtx | poolDone | otherChan | other\n  deriving DecidableEq, Repr, Inhabited\n\n")
	b.WriteString("/-- every way the refresh loop of (*connPool).discover returns, in source order -/\n")
	for i := range exits {
		exits[i] = "." + exits[i]
	}
	fmt.Fprintf(&b, "def discoverExits : List ExitGuard := [%s]\n\n", strings.Join(exits, ", "))
	b.WriteString("end KV.Gen.Routing\n")
	out := filepath.Join(root, "lean", "KafkaVerif", "Gen", "Routing.lean")
	return os.WriteFile(out, []byte(b.String()), 0o644)
}

// brokerDialAddress classifies the `address:` expression of the networkAddress literal in newBrokerConnGroup.
func brokerDialAddress(repo string) (string, error) {
	f, err := parser.ParseFile(token.NewFileSet(), filepath.Join(repo, "transport.go"), nil, 0)
	if err != nil {
		return "", err
	}
	for _, d := range f.Decls {
		fd, ok := d.(*ast.FuncDecl)
		if !ok || fd.Body == nil || fd.Name.Name != "newBrokerConnGroup" {
			continue
		}
		if len(fd.Type.Params.List) != 1 || len(fd.Type.Params.List[0].Names) != 1 {
			return "", fmt.Errorf("newBrokerConnGroup: unexpected parameters")
		}
		bv := fd.Type.Params.List[0].Names[0].Name
		locals := map[string]ast.Expr{}
		form := ""
		ast.Inspect(fd.Body, func(n ast.Node) bool {
			switch x := n.(type) {
			case *ast.AssignStmt:
				if len(x.Lhs) == 1 && len(x.Rhs) == 1 {
					if id, ok := x.Lhs[0].(*ast.Ident); ok {
						locals[id.Name] = x.Rhs[0]
					}
				}
			case *ast.KeyValueExpr:
				k, ok := x.Key.(*ast.Ident)
				if !ok || k.Name != "address" {
					return true
				}
				v := x.Value
				if id, ok := v.(*ast.Ident); ok && locals[id.Name] != nil {
					v = locals[id.Name]
				}
				raw := rawExpr(v)
				switch {
				case raw == "net.JoinHostPort("+bv+".Host,strconv.Itoa("+bv+".Port))",
					raw == "net.JoinHostPort("+bv+".Host,strconv.Itoa(int("+bv+".Port)))",
					raw == "net.JoinHostPort("+bv+".Host,strconv.FormatInt(int64("+bv+".Port),10))":
					form = "joinHostPort"
				case strings.HasPrefix(raw, bv+".Host+\":\"+"), strings.HasPrefix(raw, "fmt.Sprintf(\"%s:%d\","), strings.HasPrefix(raw, "fmt.Sprintf(\"%v:%v\","):
					form = "concat"
				default:
					form = "other"
				}
			}
			return true
		})
		if form == "" {
			return "", fmt.Errorf("newBrokerConnGroup: no `address:` field found")
		}
		return form, nil
	}
	return "", fmt.Errorf("transport.go: newBrokerConnGroup not found")
}

// litValue evaluates an integer literal expression (possibly parenthesised / typed conversion).
func litValue(e ast.Expr) (uint64, bool) {
	switch x := e.(type) {
	case *ast.BasicLit:
		v := constant.MakeFromLiteral(x.Value, x.Kind, 0)
		u, ok := constant.Uint64Val(v)
		return u, ok
	case *ast.ParenExpr:
		return litValue(x.X)
	case *ast.CallExpr:
		if len(x.Args) == 1 {
			return litValue(x.Args[0])
		}
	}
	return 0, false
}
