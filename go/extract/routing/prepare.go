package main

// Translation of the `Prepare(apiVersion)` methods (protocol.PreparedMessage) — the part of "encoded with the version
// negotiated with the broker" that is not the version number in the header: produce picks the RECORD FORMAT (magic) of
// the record sets from the API version, leavegroup moves the member id into the field old versions have.
//
// The bodies are executed symbolically over the integer parameter: local variables become Lean `Int` expressions of
// `apiVersion`, every assignment to a field is recorded with the conjunction of the conditions on its path and the
// loop nesting it sits in.

import (
	"fmt"
	"go/ast"
	"go/parser"
	"go/token"
	"path/filepath"
	"strings"
)

type prepWrite struct {
	lhs, rhsRaw string
	rhs         string   // Lean Int term ("" when not an integer term of the parameter)
	conds       []string // Lean propositions over apiVersion / len_<Field>
	rawConds    []string // conditions that are not integer propositions, rendered from the source
	depth       int      // loop nesting
	escapes     bool     // a break / continue / return sits in an enclosing loop body
}

type prepEnv struct {
	vars   map[string]string
	param  string
	lens   map[string]bool
	writes *[]prepWrite
}

func (e *prepEnv) clone() *prepEnv {
	n := &prepEnv{vars: map[string]string{}, param: e.param, lens: e.lens, writes: e.writes}
	for k, v := range e.vars {
		n.vars[k] = v
	}
	return n
}

func rawExpr(x ast.Expr) string {
	switch v := x.(type) {
	case *ast.ParenExpr:
		return rawExpr(v.X)
	case *ast.BinaryExpr:
		return rawExpr(v.X) + v.Op.String() + rawExpr(v.Y)
	case *ast.UnaryExpr:
		return v.Op.String() + rawExpr(v.X)
	case *ast.IndexExpr:
		return rawExpr(v.X) + "[" + rawExpr(v.Index) + "]"
	case *ast.SelectorExpr:
		return rawExpr(v.X) + "." + v.Sel.Name
	case *ast.CallExpr:
		var as []string
		for _, a := range v.Args {
			as = append(as, rawExpr(a))
		}
		return rawExpr(v.Fun) + "(" + strings.Join(as, ",") + ")"
	}
	return exprString(x)
}

func (e *prepEnv) term(x ast.Expr) (string, bool) {
	switch v := x.(type) {
	case *ast.ParenExpr:
		return e.term(v.X)
	case *ast.BasicLit:
		if v.Kind == token.INT {
			return v.Value, true
		}
	case *ast.Ident:
		if v.Name == e.param {
			return "apiVersion", true
		}
		if t, ok := e.vars[v.Name]; ok {
			return t, true
		}
	case *ast.UnaryExpr:
		if v.Op == token.SUB {
			if t, ok := e.term(v.X); ok {
				return "(-" + t + ")", true
			}
		}
	case *ast.CallExpr:
		if id, ok := v.Fun.(*ast.Ident); ok && len(v.Args) == 1 {
			switch id.Name {
			case "int", "int8", "int16", "int32", "int64":
				return e.term(v.Args[0])
			case "len":
				if s, ok := v.Args[0].(*ast.SelectorExpr); ok {
					n := "len" + s.Sel.Name
					e.lens[n] = true
					return n, true
				}
			}
		}
	}
	return "", false
}

func (e *prepEnv) cond(x ast.Expr) (string, bool) {
	switch v := x.(type) {
	case *ast.ParenExpr:
		return e.cond(v.X)
	case *ast.UnaryExpr:
		if v.Op == token.NOT {
			if c, ok := e.cond(v.X); ok {
				return "(¬ " + c + ")", true
			}
		}
	case *ast.BinaryExpr:
		switch v.Op {
		case token.LAND, token.LOR:
			a, ok1 := e.cond(v.X)
			b, ok2 := e.cond(v.Y)
			if ok1 && ok2 {
				op := " ∧ "
				if v.Op == token.LOR {
					op = " ∨ "
				}
				return "(" + a + op + b + ")", true
			}
		case token.LSS, token.LEQ, token.GTR, token.GEQ, token.EQL, token.NEQ:
			a, ok1 := e.term(v.X)
			b, ok2 := e.term(v.Y)
			if ok1 && ok2 {
				op := map[token.Token]string{token.LSS: "<", token.LEQ: "≤", token.GTR: ">", token.GEQ: "≥", token.EQL: "=", token.NEQ: "≠"}[v.Op]
				return "(" + a + " " + op + " " + b + ")", true
			}
		}
	}
	return "", false
}

type prepPath struct {
	conds, raw []string
	depth      int
	escapes    bool
}

func hasEscape(stmts []ast.Stmt) bool {
	found := false
	for _, s := range stmts {
		ast.Inspect(s, func(n ast.Node) bool {
			switch n.(type) {
			case *ast.BranchStmt, *ast.ReturnStmt:
				found = true
			case *ast.FuncLit:
				return false
			}
			return true
		})
	}
	return found
}

func (e *prepEnv) exec(stmts []ast.Stmt, p prepPath) error {
	for _, st := range stmts {
		switch x := st.(type) {
		case *ast.DeclStmt:
			gd, ok := x.Decl.(*ast.GenDecl)
			if !ok || gd.Tok != token.VAR {
				continue
			}
			for _, sp := range gd.Specs {
				vs := sp.(*ast.ValueSpec)
				for i, n := range vs.Names {
					e.vars[n.Name] = "0"
					if i < len(vs.Values) {
						if t, ok := e.term(vs.Values[i]); ok {
							e.vars[n.Name] = t
						} else {
							delete(e.vars, n.Name)
						}
					}
				}
			}
		case *ast.AssignStmt:
			for i, l := range x.Lhs {
				if i >= len(x.Rhs) {
					break
				}
				if id, ok := l.(*ast.Ident); ok {
					if t, ok := e.term(x.Rhs[i]); ok {
						e.vars[id.Name] = t
					} else {
						delete(e.vars, id.Name) // an alias / opaque value
					}
					continue
				}
				t, _ := e.term(x.Rhs[i])
				*e.writes = append(*e.writes, prepWrite{lhs: rawExpr(l), rhsRaw: rawExpr(x.Rhs[i]), rhs: t,
					conds: append([]string(nil), p.conds...), rawConds: append([]string(nil), p.raw...), depth: p.depth, escapes: p.escapes})
			}
		case *ast.IfStmt:
			if x.Init != nil {
				if err := e.exec([]ast.Stmt{x.Init}, p); err != nil {
					return err
				}
			}
			c, isInt := e.cond(x.Cond)
			thenEnv, elseEnv := e.clone(), e.clone()
			tp, ep := p, p
			if isInt {
				tp.conds = append(append([]string(nil), p.conds...), c)
				ep.conds = append(append([]string(nil), p.conds...), "(¬ "+c+")")
			} else {
				tp.raw = append(append([]string(nil), p.raw...), rawExpr(x.Cond))
				ep.raw = append(append([]string(nil), p.raw...), "!("+rawExpr(x.Cond)+")")
			}
			if err := thenEnv.exec(x.Body.List, tp); err != nil {
				return err
			}
			switch el := x.Else.(type) {
			case *ast.BlockStmt:
				if err := elseEnv.exec(el.List, ep); err != nil {
					return err
				}
			case *ast.IfStmt:
				if err := elseEnv.exec([]ast.Stmt{el}, ep); err != nil {
					return err
				}
			}
			// merge the integer variables
			for k := range e.vars {
				a, okA := thenEnv.vars[k]
				b, okB := elseEnv.vars[k]
				switch {
				case !okA || !okB:
					delete(e.vars, k)
				case a == b:
					e.vars[k] = a
				case isInt:
					e.vars[k] = "(if " + c + " then " + a + " else " + b + ")"
				default:
					delete(e.vars, k)
				}
			}
		case *ast.SwitchStmt:
			// switch { case c1: … } / switch tag { case v: … } over integer terms, translated as an if chain
			var chain ast.Stmt
			var tail *ast.IfStmt
			var deflt []ast.Stmt
			for _, cc := range x.Body.List {
				cl := cc.(*ast.CaseClause)
				if cl.List == nil {
					deflt = cl.Body
					continue
				}
				var c ast.Expr
				for _, v := range cl.List {
					var one ast.Expr = v
					if x.Tag != nil {
						one = &ast.BinaryExpr{X: x.Tag, Op: token.EQL, Y: v}
					}
					if c == nil {
						c = one
					} else {
						c = &ast.BinaryExpr{X: c, Op: token.LOR, Y: one}
					}
				}
				is := &ast.IfStmt{Cond: c, Body: &ast.BlockStmt{List: cl.Body}}
				if tail == nil {
					chain = is
				} else {
					tail.Else = is
				}
				tail = is
			}
			if tail == nil {
				if err := e.exec(deflt, p); err != nil {
					return err
				}
				continue
			}
			tail.Else = &ast.BlockStmt{List: deflt}
			if x.Init != nil {
				if err := e.exec([]ast.Stmt{x.Init}, p); err != nil {
					return err
				}
			}
			if err := e.exec([]ast.Stmt{chain}, p); err != nil {
				return err
			}
		case *ast.RangeStmt:
			in := e.clone()
			for _, kv := range []ast.Expr{x.Key, x.Value} {
				if id, ok := kv.(*ast.Ident); ok {
					delete(in.vars, id.Name)
				}
			}
			lp := p
			lp.depth++
			lp.escapes = p.escapes || hasEscape(x.Body.List)
			if err := in.exec(x.Body.List, lp); err != nil {
				return err
			}
		case *ast.ForStmt:
			in := e.clone()
			lp := p
			lp.depth++
			lp.escapes = p.escapes || hasEscape(x.Body.List)
			if err := in.exec(x.Body.List, lp); err != nil {
				return err
			}
		case *ast.BlockStmt:
			if err := e.exec(x.List, p); err != nil {
				return err
			}
		}
	}
	return nil
}

// prepareWrites runs the Prepare method of protocol/<pkg> symbolically.
func prepareWrites(repo, pkg string) (writes []prepWrite, lens []string, err error) {
	fset := token.NewFileSet()
	pkgs, perr := parser.ParseDir(fset, filepath.Join(repo, "protocol", pkg), nil, 0)
	if perr != nil {
		return nil, nil, perr
	}
	for _, p := range pkgs {
		for name, f := range p.Files {
			if strings.HasSuffix(name, "_test.go") {
				continue
			}
			for _, d := range f.Decls {
				fd, ok := d.(*ast.FuncDecl)
				if !ok || fd.Body == nil || fd.Name.Name != "Prepare" || recvName(fd) != "Request" {
					continue
				}
				ps := fd.Type.Params.List
				if len(ps) != 1 || len(ps[0].Names) != 1 {
					return nil, nil, fmt.Errorf("%s.Prepare: unexpected parameters", pkg)
				}
				env := &prepEnv{vars: map[string]string{}, param: ps[0].Names[0].Name, lens: map[string]bool{}, writes: &writes}
				if err := env.exec(fd.Body.List, prepPath{}); err != nil {
					return nil, nil, err
				}
				for l := range env.lens {
					lens = append(lens, l)
				}
				return writes, lens, nil
			}
		}
	}
	return nil, nil, fmt.Errorf("protocol/%s: (*Request).Prepare not found", pkg)
}

// preparedPackages lists the protocol packages that declare a Prepare method on their Request.
func preparedPackages(repo string) ([]string, error) {
	dirs, err := filepath.Glob(filepath.Join(repo, "protocol", "*", "*.go"))
	if err != nil {
		return nil, err
	}
	seen := map[string]bool{}
	var out []string
	for _, file := range dirs {
		if strings.HasSuffix(file, "_test.go") {
			continue
		}
		f, err := parser.ParseFile(token.NewFileSet(), file, nil, 0)
		if err != nil {
			return nil, err
		}
		for _, d := range f.Decls {
			if fd, ok := d.(*ast.FuncDecl); ok && fd.Name.Name == "Prepare" && recvName(fd) == "Request" {
				pkg := filepath.Base(filepath.Dir(file))
				if !seen[pkg] {
					seen[pkg] = true
					out = append(out, pkg)
				}
			}
		}
	}
	return out, nil
}

// preparedWithRequestVersion: protocol/conn.go (*Conn).RoundTrip hands Prepare the very variable it passes on as the
// request's API version, and that variable is the connection's negotiated version of the message's API key.
func preparedWithRequestVersion(repo string) (bool, error) {
	f, err := parser.ParseFile(token.NewFileSet(), filepath.Join(repo, "protocol", "conn.go"), nil, 0)
	if err != nil {
		return false, err
	}
	for _, d := range f.Decls {
		fd, ok := d.(*ast.FuncDecl)
		if !ok || fd.Body == nil || fd.Name.Name != "RoundTrip" || recvName(fd) != "Conn" {
			continue
		}
		prepArg, sendArg, source := "", "", map[string]string{}
		ast.Inspect(fd.Body, func(n ast.Node) bool {
			switch x := n.(type) {
			case *ast.AssignStmt:
				if len(x.Lhs) == 1 && len(x.Rhs) == 1 {
					if id, ok := x.Lhs[0].(*ast.Ident); ok {
						source[id.Name] = rawExpr(x.Rhs[0])
					}
				}
			case *ast.CallExpr:
				switch fn := x.Fun.(type) {
				case *ast.SelectorExpr:
					if fn.Sel.Name == "Prepare" && len(x.Args) == 1 {
						prepArg = rawExpr(x.Args[0])
					}
				case *ast.Ident:
					if fn.Name == "RoundTrip" && len(x.Args) >= 2 {
						sendArg = rawExpr(x.Args[1])
					}
				}
			}
			return true
		})
		if prepArg == "" || sendArg == "" {
			return false, fmt.Errorf("protocol/conn.go RoundTrip: Prepare / RoundTrip call not found")
		}
		src := source[prepArg]
		return prepArg == sendArg && strings.Contains(src, "[") && strings.HasSuffix(src, ".ApiKey()]"), nil
	}
	return false, fmt.Errorf("protocol/conn.go: (*Conn).RoundTrip not found")
}

// emitPrepare renders the Lean definitions.
func emitPrepare(repo string, b *strings.Builder) error {
	pkgs, err := preparedPackages(repo)
	if err != nil {
		return err
	}
	q := make([]string, len(pkgs))
	for i, p := range pkgs {
		q[i] = fmt.Sprintf("%q", p)
	}
	b.WriteString("/-- protocol packages whose Request has a `Prepare(apiVersion)` method (protocol.PreparedMessage) -/\n")
	fmt.Fprintf(b, "def preparedPackages : List String := [%s]\n\n", strings.Join(q, ", "))
	same, err := preparedWithRequestVersion(repo)
	if err != nil {
		return err
	}
	b.WriteString("/-- protocol/conn.go RoundTrip: Prepare receives the variable that is also written to the request header, and that\nvariable is the connection's negotiated version for the message's API key -/\n")
	fmt.Fprintf(b, "def preparedWithRequestVersion : Bool := %v\n\n", same)

	// produce: the record format
	ws, _, err := prepareWrites(repo, "produce")
	if err != nil {
		return err
	}
	var w *prepWrite
	for i := range ws {
		if strings.HasSuffix(ws[i].lhs, ".RecordSet.Version") {
			if w != nil {
				return fmt.Errorf("produce.Prepare: more than one assignment to RecordSet.Version")
			}
			w = &ws[i]
		}
	}
	if w == nil || w.rhs == "" {
		return fmt.Errorf("produce.Prepare: the assignment of RecordSet.Version is not an integer function of the API version")
	}
	keeps := false
	for _, c := range w.rawConds {
		switch c {
		case w.lhs + "==0", "0==" + w.lhs:
			keeps = true
		default:
			return fmt.Errorf("produce.Prepare: RecordSet.Version is assigned under a condition that is not understood: %s", c)
		}
	}
	val := w.rhs
	if len(w.conds) > 0 {
		return fmt.Errorf("produce.Prepare: RecordSet.Version is assigned only under %s", strings.Join(w.conds, " ∧ "))
	}
	b.WriteString("/-- protocol/produce (*Request).Prepare: the record format (magic) chosen for a Produce request of the given version -/\n")
	fmt.Fprintf(b, "def produceRecordVersion (apiVersion : Int) : Int := %s\n", val)
	b.WriteString("/-- … it is applied only to record sets whose Version the caller left 0, … -/\n")
	fmt.Fprintf(b, "def produceKeepsExplicitVersion : Bool := %v\n", keeps)
	b.WriteString("/-- … and to every partition of every topic (two nested loops without break / continue / return) -/\n")
	fmt.Fprintf(b, "def produceCoversEveryPartition : Bool := %v\n\n", w.depth == 2 && !w.escapes)

	// leavegroup: the member id of old versions
	ws, _, err = prepareWrites(repo, "leavegroup")
	if err != nil {
		return err
	}
	w = nil
	for i := range ws {
		if strings.HasSuffix(ws[i].lhs, ".MemberID") && strings.HasSuffix(ws[i].rhsRaw, ".Members[0].MemberID") {
			w = &ws[i]
		}
	}
	cond := "False"
	if w != nil {
		if len(w.rawConds) > 0 {
			return fmt.Errorf("leavegroup.Prepare: condition not understood: %s", strings.Join(w.rawConds, ", "))
		}
		cond = "True"
		if len(w.conds) > 0 {
			cond = strings.Join(w.conds, " ∧ ")
		}
	}
	b.WriteString("/-- protocol/leavegroup (*Request).Prepare: when the first element of Members is copied into the MemberID field (the\nonly place versions before v3 have for the leaving member) -/\n")
	fmt.Fprintf(b, "def leaveGroupCopiesFirstMember (apiVersion lenMembers : Int) : Bool := decide (%s)\n\n", cond)
	return nil
}
