package main

// Which fields of the original request do the sub-requests built by `(*Request).Split` carry?  (property C12: the
// request that reaches the designated broker has to be the caller's request, restricted to that broker's part.)
//
// For every protocol package with a Split method: the wire fields of `Request` (struct fields with a kafka tag) and,
// for each `Request{…}` / `&Request{…}` literal in the body of Split, the fields it sets — keys of the literal plus
// later assignments `v.F = …` when the literal was bound to a variable `v`.  A field counts as copied verbatim when
// its value is `<receiver>.<same field>`.

import (
	"fmt"
	"go/ast"
	"go/parser"
	"go/token"
	"path/filepath"
	"sort"
	"strings"
)

type splitSub struct {
	fields map[string]bool // field → copied verbatim from the receiver
}

type splitInfo struct {
	pkg    string
	fields []string
	subs   []splitSub
}

func splitFieldsOf(repo string) ([]splitInfo, error) {
	files, err := filepath.Glob(filepath.Join(repo, "protocol", "*", "*.go"))
	if err != nil {
		return nil, err
	}
	byPkg := map[string][]*ast.File{}
	for _, file := range files {
		if strings.HasSuffix(file, "_test.go") {
			continue
		}
		f, err := parser.ParseFile(token.NewFileSet(), file, nil, 0)
		if err != nil {
			return nil, err
		}
		pkg := filepath.Base(filepath.Dir(file))
		byPkg[pkg] = append(byPkg[pkg], f)
	}
	var pkgs []string
	for p := range byPkg {
		pkgs = append(pkgs, p)
	}
	sort.Strings(pkgs)
	var out []splitInfo
	for _, pkg := range pkgs {
		var split *ast.FuncDecl
		var fields []string
		for _, f := range byPkg[pkg] {
			for _, d := range f.Decls {
				switch x := d.(type) {
				case *ast.FuncDecl:
					if x.Name.Name == "Split" && recvName(x) == "Request" && x.Body != nil {
						split = x
					}
				case *ast.GenDecl:
					for _, sp := range x.Specs {
						ts, ok := sp.(*ast.TypeSpec)
						if !ok || ts.Name.Name != "Request" {
							continue
						}
						st, ok := ts.Type.(*ast.StructType)
						if !ok {
							continue
						}
						for _, fl := range st.Fields.List {
							if fl.Tag == nil || !strings.Contains(fl.Tag.Value, "kafka:") {
								continue
							}
							for _, n := range fl.Names {
								if n.Name != "_" {
									fields = append(fields, n.Name)
								}
							}
						}
					}
				}
			}
		}
		if split == nil {
			continue
		}
		recv := ""
		if len(split.Recv.List[0].Names) == 1 {
			recv = split.Recv.List[0].Names[0].Name
		}
		info := splitInfo{pkg: pkg, fields: fields}
		bound := map[string]int{} // variable → index of its literal
		isReq := func(e ast.Expr) *ast.CompositeLit {
			if u, ok := e.(*ast.UnaryExpr); ok && u.Op == token.AND {
				e = u.X
			}
			if cl, ok := e.(*ast.CompositeLit); ok {
				if id, ok := cl.Type.(*ast.Ident); ok && id.Name == "Request" {
					return cl
				}
			}
			return nil
		}
		seen := map[*ast.CompositeLit]int{}
		add := func(cl *ast.CompositeLit) int {
			if i, ok := seen[cl]; ok {
				return i
			}
			sub := splitSub{fields: map[string]bool{}}
			for _, el := range cl.Elts {
				kv, ok := el.(*ast.KeyValueExpr)
				if !ok {
					continue
				}
				k, ok := kv.Key.(*ast.Ident)
				if !ok {
					continue
				}
				sub.fields[k.Name] = recv != "" && rawExpr(kv.Value) == recv+"."+k.Name
			}
			info.subs = append(info.subs, sub)
			seen[cl] = len(info.subs) - 1
			return seen[cl]
		}
		ast.Inspect(split.Body, func(n ast.Node) bool {
			switch x := n.(type) {
			case *ast.AssignStmt:
				for i, l := range x.Lhs {
					if i >= len(x.Rhs) {
						break
					}
					if id, ok := l.(*ast.Ident); ok {
						if cl := isReq(x.Rhs[i]); cl != nil {
							bound[id.Name] = add(cl)
						}
						continue
					}
					if sel, ok := l.(*ast.SelectorExpr); ok {
						if id, ok := sel.X.(*ast.Ident); ok {
							if j, ok := bound[id.Name]; ok {
								copied := recv != "" && rawExpr(x.Rhs[i]) == recv+"."+sel.Sel.Name
								info.subs[j].fields[sel.Sel.Name] = info.subs[j].fields[sel.Sel.Name] || copied
							}
						}
					}
				}
			case *ast.CompositeLit:
				if cl := isReq(x); cl != nil {
					add(cl)
				}
			}
			return true
		})
		out = append(out, info)
	}
	if len(out) == 0 {
		return nil, fmt.Errorf("no Split method found under protocol/")
	}
	return out, nil
}

func emitSplitFields(repo string, b *strings.Builder) error {
	infos, err := splitFieldsOf(repo)
	if err != nil {
		return err
	}
	b.WriteString("/-- for every protocol package with a `Split` method: the wire fields of its Request, and for each sub-request literal\nSplit builds the fields it sets (with: is the value the receiver's same field, verbatim?) -/\n")
	b.WriteString("def splitSubrequests : List (String × List String × List (List (String × Bool))) := [\n")
	for i, in := range infos {
		q := make([]string, len(in.fields))
		for j, f := range in.fields {
			q[j] = fmt.Sprintf("%q", f)
		}
		var subs []string
		for _, s := range in.subs {
			var ks []string
			for k := range s.fields {
				ks = append(ks, k)
			}
			sort.Strings(ks)
			for j, k := range ks {
				ks[j] = fmt.Sprintf("(%q, %v)", k, s.fields[k])
			}
			subs = append(subs, "["+strings.Join(ks, ", ")+"]")
		}
		sep := ","
		if i == len(infos)-1 {
			sep = ""
		}
		fmt.Fprintf(b, "  (%q, [%s], [%s])%s\n", in.pkg, strings.Join(q, ", "), strings.Join(subs, ", "), sep)
	}
	b.WriteString("]\n\n")
	return nil
}
