package main

// Translation of protocol/listoffsets (*Request).Broker (property C12): the request carries one topic-partition; the
// method scans the topic's partitions for the one whose ID equals the requested partition number, returns the
// broker registered under that partition's Leader when the broker map has it, and a broker with a sentinel ID
// otherwise.  Accepted shape (identifier names free):
//
//	<n> := <r>.Topics[0].Partitions[0].Partition ; <t> := <r>.Topics[0].Topic
//	for _, <p> := range <c>.Topics[<t>].Partitions {
//	    if <p>.ID == <n> { if <b>, <ok> := <c>.Brokers[<p>.Leader]; <ok> { return <b>, nil } [else …] ; break }
//	}
//	return protocol.Broker{ID: <lit>}, nil
//
// Result: Lean `match part with | none => <lit> | some leader => match bro leader with | some bid => bid | none => <miss>`
// where <miss> is the sentinel when the lookup is guarded (today) and `zeroBroker` when the map is read without `ok`.

import (
	"fmt"
	"go/ast"
	"go/parser"
	"go/token"
	"path/filepath"
	"strings"
)

func leaderFirstOf(repo string) (string, error) {
	fset := token.NewFileSet()
	f, err := parser.ParseFile(fset, filepath.Join(repo, "protocol", "listoffsets", "listoffsets.go"), nil, 0)
	if err != nil {
		return "", err
	}
	for _, d := range f.Decls {
		fd, ok := d.(*ast.FuncDecl)
		if !ok || fd.Body == nil || fd.Name.Name != "Broker" || recvName(fd) != "Request" {
			continue
		}
		partVar, sentinel, miss := "", "", ""
		var loop *ast.RangeStmt
		for _, st := range fd.Body.List {
			switch x := st.(type) {
			case *ast.AssignStmt:
				if len(x.Lhs) == 1 && len(x.Rhs) == 1 && strings.HasSuffix(exprString(x.Rhs[0]), ".Partitions[0].Partition") {
					partVar = exprString(x.Lhs[0])
				}
			case *ast.RangeStmt:
				if strings.HasSuffix(exprString(x.X), ".Partitions") && loop == nil {
					loop = x
				}
			case *ast.ReturnStmt:
				if len(x.Results) == 2 {
					if cl, ok := x.Results[0].(*ast.CompositeLit); ok {
						for _, el := range cl.Elts {
							if kv, ok := el.(*ast.KeyValueExpr); ok && exprString(kv.Key) == "ID" {
								if u, ok := kv.Value.(*ast.UnaryExpr); ok && u.Op == token.SUB {
									if v, ok := litValue(u.X); ok {
										sentinel = fmt.Sprintf("-%d", v)
									}
								} else if v, ok := litValue(kv.Value); ok {
									sentinel = fmt.Sprintf("%d", v)
								}
							}
						}
					}
				}
			}
		}
		if partVar == "" || loop == nil || sentinel == "" || loop.Value == nil {
			return "", fmt.Errorf("listoffsets Broker(): not of the scan-for-partition shape")
		}
		elem := exprString(loop.Value)
		if len(loop.Body.List) != 1 {
			return "", fmt.Errorf("listoffsets Broker(): loop body outside the translated subset")
		}
		outer, ok := loop.Body.List[0].(*ast.IfStmt)
		if !ok {
			return "", fmt.Errorf("listoffsets Broker(): loop body outside the translated subset")
		}
		cond, ok := outer.Cond.(*ast.BinaryExpr)
		if !ok || cond.Op != token.EQL || !((exprString(cond.X) == elem+".ID" && exprString(cond.Y) == partVar) || (exprString(cond.Y) == elem+".ID" && exprString(cond.X) == partVar)) {
			return "", fmt.Errorf("listoffsets Broker(): the partition is not selected by `<p>.ID == <requested partition>`")
		}
		// inside: either `return <c>.Brokers[<p>.Leader], nil` (unguarded) or the guarded lookup
		for _, st := range outer.Body.List {
			switch x := st.(type) {
			case *ast.ReturnStmt:
				if len(x.Results) == 2 && strings.HasSuffix(exprString(x.Results[0]), ".Brokers["+elem+".Leader]") {
					miss = "zeroBroker"
				}
			case *ast.IfStmt:
				init, ok := x.Init.(*ast.AssignStmt)
				if !ok || len(init.Lhs) != 2 || !strings.HasSuffix(exprString(init.Rhs[0]), ".Brokers["+elem+".Leader]") {
					return "", fmt.Errorf("listoffsets Broker(): leader lookup outside the translated subset")
				}
				if exprString(x.Cond) != exprString(init.Lhs[1]) {
					return "", fmt.Errorf("listoffsets Broker(): leader lookup test outside the translated subset")
				}
				if len(x.Body.List) != 1 {
					return "", fmt.Errorf("listoffsets Broker(): leader lookup body outside the translated subset")
				}
				rs, ok := x.Body.List[0].(*ast.ReturnStmt)
				if !ok || len(rs.Results) != 2 || exprString(rs.Results[0]) != exprString(init.Lhs[0]) {
					return "", fmt.Errorf("listoffsets Broker(): leader lookup does not return the looked-up broker")
				}
				if x.Else != nil {
					return "", fmt.Errorf("listoffsets Broker(): else branch outside the translated subset")
				}
				miss = sentinel
			case *ast.BranchStmt:
			default:
				return "", fmt.Errorf("listoffsets Broker(): statement outside the translated subset")
			}
		}
		if miss == "" {
			return "", fmt.Errorf("listoffsets Broker(): no leader lookup found")
		}
		return fmt.Sprintf("match part with | none => %s | some leader => (match bro leader with | some bid => bid | none => %s)", sentinel, miss), nil
	}
	return "", fmt.Errorf("listoffsets: (*Request).Broker not found")
}
