package main

// Symbolic translation of the leader loops of produce / fetch / rawproduce `(*Request).Broker` (property C12).
//
// The method has the shape
//
//	broker := protocol.Broker{ID: <init>}
//	for … range r.Topics {            // outer body: topic lookup, then the inner loop
//	    for … range t.Partitions {    // inner body: partition lookup, leader lookup, compare with `broker`
//	    }
//	}
//	return broker, nil
//
// The inner body is executed symbolically into a Lean step function over
//   cur  : Int                 `broker.ID` so far
//   part : Option Int          result of `<topic>.Partitions[<p>.Partition]` (some leader id)
//   bro  : Int → Option Int    `cluster.Brokers[<id>]` (some broker id)
// and the outer prologue into "does a missing topic end the call".  Variables are tracked by role (the map that is
// indexed decides what a `v, ok := m[k]` introduces), never by name.

import (
	"fmt"
	"go/ast"
	"go/parser"
	"go/token"
	"path/filepath"
	"strings"
)

type llEnv struct {
	vars map[string]string // Go identifier → Lean term ("cur", "bid", …) or role marker
	oks  map[string]bool   // ok-variable → known truth value in this branch
}

func (e *llEnv) clone() *llEnv {
	n := &llEnv{vars: map[string]string{}, oks: map[string]bool{}}
	for k, v := range e.vars {
		n.vars[k] = v
	}
	for k, v := range e.oks {
		n.oks[k] = v
	}
	return n
}

func errKindOf(x ast.Expr) (string, error) {
	s := ""
	ast.Inspect(x, func(n ast.Node) bool {
		if c, ok := n.(*ast.CallExpr); ok {
			name := exprString(c.Fun)
			switch {
			case strings.HasSuffix(name, "NewErrNoTopic"):
				s = ".noTopic"
			case strings.HasSuffix(name, "NewErrNoPartition"):
				s = ".noPartition"
			case strings.HasSuffix(name, "NewErrNoLeader"):
				s = ".noLeader"
			case name == "fmt.Errorf" && s == "":
				s = ".mismatch"
			}
		}
		return true
	})
	if s == "" {
		return "", fmt.Errorf("leader loop: error value outside the translated subset")
	}
	return s, nil
}

// lookupRole tells what `m[k]` reads: "part" for `<x>.Partitions[…]`, "bro" for `<x>.Brokers[…]`, "topic" for `<x>.Topics[…]`.
func lookupRole(x ast.Expr) string {
	ix, ok := x.(*ast.IndexExpr)
	if !ok {
		return ""
	}
	sel, ok := ix.X.(*ast.SelectorExpr)
	if !ok {
		return ""
	}
	switch sel.Sel.Name {
	case "Partitions":
		return "part"
	case "Brokers":
		return "bro"
	case "Topics":
		return "topic"
	}
	return ""
}

func (e *llEnv) term(x ast.Expr) (string, error) {
	switch v := x.(type) {
	case *ast.ParenExpr:
		return e.term(v.X)
	case *ast.BasicLit:
		return v.Value, nil
	case *ast.SelectorExpr:
		// <partition>.Leader: the leader id of the looked-up partition (bound by `| some leader`)
		if id, ok := v.X.(*ast.Ident); ok && v.Sel.Name == "Leader" && e.vars[id.Name] == "#partition" {
			return "leader", nil
		}
		if id, ok := v.X.(*ast.Ident); ok && v.Sel.Name == "ID" {
			if t, ok := e.vars[id.Name]; ok && (t == "cur" || t == "bid") {
				return t, nil
			}
			if t, ok := e.vars[id.Name]; ok && strings.HasPrefix(t, "(") { // updated broker
				return t, nil
			}
		}
	case *ast.UnaryExpr:
		if v.Op == token.SUB {
			t, err := e.term(v.X)
			return "-" + t, err
		}
	}
	return "", fmt.Errorf("leader loop: term %s outside the translated subset", exprString(x))
}

// cond returns (leanCondition, knownValue, isKnown)
func (e *llEnv) cond(x ast.Expr) (string, bool, bool, error) {
	switch v := x.(type) {
	case *ast.UnaryExpr:
		if v.Op == token.NOT {
			if id, ok := v.X.(*ast.Ident); ok {
				if val, ok := e.oks[id.Name]; ok {
					return "", !val, true, nil
				}
			}
		}
	case *ast.Ident:
		if val, ok := e.oks[v.Name]; ok {
			return "", val, true, nil
		}
	case *ast.BinaryExpr:
		op := map[token.Token]string{token.LSS: "<", token.GTR: ">", token.LEQ: "≤", token.GEQ: "≥", token.EQL: "=", token.NEQ: "≠"}[v.Op]
		if op != "" {
			a, err := e.term(v.X)
			if err != nil {
				return "", false, false, err
			}
			b, err := e.term(v.Y)
			if err != nil {
				return "", false, false, err
			}
			return a + " " + op + " " + b, false, false, nil
		}
	}
	return "", false, false, fmt.Errorf("leader loop: condition outside the translated subset")
}

// exec translates a statement list; `fall` is what falling off the end means (continue the loop).
func (e *llEnv) exec(stmts []ast.Stmt, fall func(*llEnv) string) (string, error) {
	if len(stmts) == 0 {
		return fall(e), nil
	}
	st, rest := stmts[0], stmts[1:]
	bind := func(as *ast.AssignStmt, rest []ast.Stmt) (string, bool, error) {
		// v, ok := m[k]
		if as.Tok == token.DEFINE && len(as.Lhs) == 2 && len(as.Rhs) == 1 {
			role := lookupRole(as.Rhs[0])
			v, ok1 := as.Lhs[0].(*ast.Ident)
			okv, ok2 := as.Lhs[1].(*ast.Ident)
			if role == "" || !ok1 || !ok2 {
				return "", true, fmt.Errorf("leader loop: two-value assignment outside the translated subset")
			}
			no, yes := e.clone(), e.clone()
			no.oks[okv.Name], yes.oks[okv.Name] = false, true
			var scrut, pat string
			key := as.Rhs[0].(*ast.IndexExpr).Index
			switch role {
			case "part":
				// the partition map is read at the request partition's number
				if ks, ok := key.(*ast.SelectorExpr); !ok || ks.Sel.Name != "Partition" {
					return "", true, fmt.Errorf("leader loop: partition looked up by %s, not by the requested partition number", exprString(key))
				}
				scrut, pat = "part", "some leader"
				yes.vars[v.Name] = "#partition"
			case "bro":
				// the broker map is read at the looked-up partition's Leader
				ks, ok := key.(*ast.SelectorExpr)
				root, _ := func() (*ast.Ident, bool) {
					if !ok {
						return nil, false
					}
					id, ok := ks.X.(*ast.Ident)
					return id, ok
				}()
				if !ok || root == nil || e.vars[root.Name] != "#partition" || ks.Sel.Name != "Leader" {
					return "", true, fmt.Errorf("leader loop: broker looked up by %s, not by the partition's Leader", exprString(key))
				}
				scrut, pat = "bro leader", "some bid"
				yes.vars[v.Name] = "bid"
			case "topic":
				scrut, pat = "topicFound", "true"
			}
			a, err := no.exec(rest, fall)
			if err != nil {
				return "", true, err
			}
			b, err := yes.exec(rest, fall)
			if err != nil {
				return "", true, err
			}
			if role == "topic" {
				return "(if topicFound then " + b + " else " + a + ")", true, nil
			}
			return "(match " + scrut + " with | none => " + a + " | " + pat + " => " + b + ")", true, nil
		}
		return "", false, nil
	}
	switch s := st.(type) {
	case *ast.AssignStmt:
		if out, done, err := bind(s, rest); done {
			return out, err
		}
		if len(s.Lhs) == 1 && len(s.Rhs) == 1 {
			l, lok := s.Lhs[0].(*ast.Ident)
			if lok {
				// p := &t.Partitions[j]   /   t := &r.Topics[i]  : an alias of the element, nothing to track
				if u, ok := s.Rhs[0].(*ast.UnaryExpr); ok && u.Op == token.AND {
					return e.exec(rest, fall)
				}
				if _, ok := s.Rhs[0].(*ast.IndexExpr); ok && s.Tok == token.DEFINE {
					return e.exec(rest, fall)
				}
				// broker = b
				if r, ok := s.Rhs[0].(*ast.Ident); ok && e.vars[l.Name] != "" && e.vars[r.Name] == "bid" && (e.vars[l.Name] == "cur" || strings.HasPrefix(e.vars[l.Name], "(")) {
					n := e.clone()
					n.vars[l.Name] = "bid"
					n.vars["#cur"] = "bid"
					return n.exec(rest, fall)
				}
			}
		}
		return "", fmt.Errorf("leader loop: assignment outside the translated subset")
	case *ast.ReturnStmt:
		if len(s.Results) == 2 {
			if id, ok := s.Results[1].(*ast.Ident); ok && id.Name == "nil" {
				return ".ok " + e.cur(), nil
			}
			k, err := errKindOf(s.Results[1])
			if err != nil {
				return "", err
			}
			return ".error " + k, nil
		}
		return "", fmt.Errorf("leader loop: return outside the translated subset")
	case *ast.IfStmt:
		stmts2 := rest
		if s.Init != nil {
			as, ok := s.Init.(*ast.AssignStmt)
			if !ok {
				return "", fmt.Errorf("leader loop: if-init outside the translated subset")
			}
			inner := *s
			inner.Init = nil
			out, done, err := bind(as, append([]ast.Stmt{&inner}, rest...))
			if done {
				return out, err
			}
			return "", fmt.Errorf("leader loop: if-init outside the translated subset")
		}
		c, val, known, err := e.cond(s.Cond)
		if err != nil {
			return "", err
		}
		var elseStmts []ast.Stmt
		switch el := s.Else.(type) {
		case *ast.BlockStmt:
			elseStmts = el.List
		case *ast.IfStmt:
			elseStmts = []ast.Stmt{el}
		}
		thenS := append(append([]ast.Stmt{}, s.Body.List...), stmts2...)
		elseS := append(append([]ast.Stmt{}, elseStmts...), stmts2...)
		if known {
			if val {
				return e.clone().exec(thenS, fall)
			}
			return e.clone().exec(elseS, fall)
		}
		a, err := e.clone().exec(thenS, fall)
		if err != nil {
			return "", err
		}
		b, err := e.clone().exec(elseS, fall)
		if err != nil {
			return "", err
		}
		return "(if " + c + " then " + a + " else " + b + ")", nil
	}
	return "", fmt.Errorf("leader loop: statement outside the translated subset")
}

func (e *llEnv) cur() string {
	if c, ok := e.vars["#cur"]; ok {
		return c
	}
	return "cur"
}

type leaderLoop struct{ init, outer, inner string }

// leaderLoopOf translates protocol/<pkg>/<pkg>.go (*Request).Broker.
func leaderLoopOf(repo, pkg string) (*leaderLoop, error) {
	fset := token.NewFileSet()
	f, err := parser.ParseFile(fset, filepath.Join(repo, "protocol", pkg, pkg+".go"), nil, 0)
	if err != nil {
		return nil, err
	}
	for _, d := range f.Decls {
		fd, ok := d.(*ast.FuncDecl)
		if !ok || fd.Body == nil || fd.Name.Name != "Broker" || recvName(fd) != "Request" {
			continue
		}
		res := &leaderLoop{}
		brokerVar := ""
		var outerLoop *ast.RangeStmt
		for _, st := range fd.Body.List {
			switch x := st.(type) {
			case *ast.AssignStmt: // broker := protocol.Broker{ID: -1}
				if cl, ok := x.Rhs[0].(*ast.CompositeLit); ok && len(x.Lhs) == 1 {
					for _, el := range cl.Elts {
						if kv, ok := el.(*ast.KeyValueExpr); ok && exprString(kv.Key) == "ID" {
							env := &llEnv{vars: map[string]string{}, oks: map[string]bool{}}
							v, err := env.term(kv.Value)
							if err != nil {
								return nil, err
							}
							res.init = v
							brokerVar = x.Lhs[0].(*ast.Ident).Name
						}
					}
				}
			case *ast.RangeStmt:
				outerLoop = x
			}
		}
		if outerLoop == nil || brokerVar == "" || res.init == "" {
			return nil, fmt.Errorf("%s: Broker() is not of the leader-loop shape", pkg)
		}
		// split the outer body at the inner loop
		var prologue []ast.Stmt
		var innerLoop *ast.RangeStmt
		for _, st := range outerLoop.Body.List {
			if r, ok := st.(*ast.RangeStmt); ok {
				innerLoop = r
				break
			}
			prologue = append(prologue, st)
		}
		if innerLoop == nil {
			return nil, fmt.Errorf("%s: no inner partition loop", pkg)
		}
		env := &llEnv{vars: map[string]string{brokerVar: "cur"}, oks: map[string]bool{}}
		res.outer, err = env.clone().exec(prologue, func(*llEnv) string { return "none" })
		if err != nil {
			return nil, err
		}
		res.outer = strings.ReplaceAll(res.outer, ".error ", "some ")
		res.inner, err = env.clone().exec(innerLoop.Body.List, func(e *llEnv) string { return ".ok " + e.cur() })
		if err != nil {
			return nil, err
		}
		return res, nil
	}
	return nil, fmt.Errorf("%s: (*Request).Broker not found", pkg)
}
