package main

// Translation of the add / delete sets of transport.go (*connPool).update (property C12).
//
// Roles are found structurally: the DELETE set is the map ranged over by the loop that calls `delete(<pool>.conns, …)`,
// the ADD set the map ranged over by the loop that assigns `<pool>.conns[…] = …`; the NEW layout is the map ranged over
// (with a value) by the loop that looks the same key up in the other `.Brokers` map.  The two classification loops
// are executed symbolically:
//
//	for id, b2 := range <new>.Brokers { if b1, ok := <old>.Brokers[id]; !ok {A} else if <changed> {B} }   → updateNewEntry
//	for id := range <old>.Brokers     { if _, ok := <new>.Brokers[id]; !ok {C} }                         → updateOldEntry
//
// into (add?, delete?) as functions of `inOld` / `changed` / `inNew`; the order in which the two sets are applied to
// the pool's connection groups is extracted too.

import (
	"fmt"
	"go/ast"
	"go/parser"
	"go/token"
	"path/filepath"
	"sort"
	"strings"
)

type updateSets struct {
	newEntry, oldEntry string
	order              []string
	addFields          []string
}

func extractUpdateSets(repo string) (*updateSets, error) {
	fset := token.NewFileSet()
	f, err := parser.ParseFile(fset, filepath.Join(repo, "transport.go"), nil, 0)
	if err != nil {
		return nil, err
	}
	for _, d := range f.Decls {
		fd, ok := d.(*ast.FuncDecl)
		if !ok || fd.Body == nil || fd.Name.Name != "update" || recvName(fd) != "connPool" {
			continue
		}
		// 1. roles of the two sets and the order in which they are applied
		roleOf := map[string]string{}
		res := &updateSets{}
		ast.Inspect(fd.Body, func(n ast.Node) bool {
			rs, ok := n.(*ast.RangeStmt)
			if !ok {
				return true
			}
			set, ok := rs.X.(*ast.Ident)
			if !ok {
				return true
			}
			role := ""
			ast.Inspect(rs.Body, func(m ast.Node) bool {
				switch x := m.(type) {
				case *ast.CallExpr:
					if exprString(x.Fun) == "delete" && len(x.Args) == 2 && strings.HasSuffix(exprString(x.Args[0]), ".conns") {
						role = "del"
					}
				case *ast.AssignStmt:
					if len(x.Lhs) == 1 {
						if ix, ok := x.Lhs[0].(*ast.IndexExpr); ok && strings.HasSuffix(exprString(ix.X), ".conns") {
							role = "add"
						}
					}
				}
				return true
			})
			if role != "" {
				roleOf[set.Name] = role
				res.order = append(res.order, role)
			}
			return true
		})
		if len(res.order) != 2 {
			return nil, fmt.Errorf("update: the loops applying the add / delete sets were not found")
		}
		// 2. the classification loops
		flags := func(body []ast.Stmt) (add, del bool, err error) {
			for _, st := range body {
				as, ok := st.(*ast.AssignStmt)
				if !ok || len(as.Lhs) != 1 {
					return false, false, fmt.Errorf("update: statement outside the translated subset in a classification branch")
				}
				ix, ok := as.Lhs[0].(*ast.IndexExpr)
				if !ok {
					return false, false, fmt.Errorf("update: assignment outside the translated subset in a classification branch")
				}
				switch roleOf[exprString(ix.X)] {
				case "add":
					add = true
				case "del":
					del = true
				default:
					return false, false, fmt.Errorf("update: assignment to %s in a classification branch", exprString(ix.X))
				}
			}
			return
		}
		pair := func(a, d bool) string { return fmt.Sprintf("(%v, %v)", a, d) }
		var loopErr error
		ast.Inspect(fd.Body, func(n ast.Node) bool {
			rs, ok := n.(*ast.RangeStmt)
			if !ok || !strings.HasSuffix(exprString(rs.X), ".Brokers") || len(rs.Body.List) != 1 {
				return true
			}
			is, ok := rs.Body.List[0].(*ast.IfStmt)
			if !ok || is.Init == nil {
				return true
			}
			init, ok := is.Init.(*ast.AssignStmt)
			if !ok || len(init.Lhs) != 2 || !strings.Contains(exprString(init.Rhs[0]), ".Brokers[") {
				return true
			}
			okName := exprString(init.Lhs[1])
			neg, isNeg := is.Cond.(*ast.UnaryExpr)
			if !isNeg || neg.Op != token.NOT || exprString(neg.X) != okName {
				loopErr = fmt.Errorf("update: lookup test outside the translated subset")
				return false
			}
			a1, d1, err := flags(is.Body.List)
			if err != nil {
				loopErr = err
				return false
			}
			if rs.Value != nil { // loop over the NEW layout: absent from the old one / present and possibly changed
				a2, d2, a3, d3 := false, false, false, false
				switch el := is.Else.(type) {
				case *ast.IfStmt:
					a2, d2, err = flags(el.Body.List)
					if err == nil && el.Else != nil {
						if blk, ok := el.Else.(*ast.BlockStmt); ok {
							a3, d3, err = flags(blk.List)
						} else {
							err = fmt.Errorf("update: else-if chain too long")
						}
					}
				case *ast.BlockStmt:
					err = fmt.Errorf("update: unconditional else in the new-layout loop")
				}
				if err != nil {
					loopErr = err
					return false
				}
				res.newEntry = fmt.Sprintf("if !inOld then %s else if changed then %s else %s", pair(a1, d1), pair(a2, d2), pair(a3, d3))
			} else { // loop over the OLD layout: absent from the new one
				a2, d2 := false, false
				if blk, ok := is.Else.(*ast.BlockStmt); ok {
					a2, d2, err = flags(blk.List)
					if err != nil {
						loopErr = err
						return false
					}
				}
				res.oldEntry = fmt.Sprintf("if !inNew then %s else %s", pair(a1, d1), pair(a2, d2))
			}
			return true
		})
		if loopErr != nil {
			return nil, loopErr
		}
		if res.newEntry == "" || res.oldEntry == "" {
			return nil, fmt.Errorf("update: classification loops not found")
		}
		return res, nil
	}
	return nil, fmt.Errorf("transport.go: (*connPool).update not found")
}

// updateStateWrites reports what (*connPool).update writes to the cached state in its two branches
// (`if <err> != nil { … } else { … }`): whether the error branch returns early when metadata is already known,
// whether it stores the error, and which fields the success branch assigns (with `err=nil` when the error is cleared).
// The state variable is the local initialised from `<pool>.grabState()`; the error is the function's last parameter.
func updateStateWrites(repo string) (keepsKnown, storesErr bool, success []string, err error) {
	fset := token.NewFileSet()
	f, perr := parser.ParseFile(fset, filepath.Join(repo, "transport.go"), nil, 0)
	if perr != nil {
		return false, false, nil, perr
	}
	for _, d := range f.Decls {
		fd, ok := d.(*ast.FuncDecl)
		if !ok || fd.Body == nil || fd.Name.Name != "update" || recvName(fd) != "connPool" {
			continue
		}
		params := fd.Type.Params.List
		errName := params[len(params)-1].Names[0].Name
		stateVar := ""
		var branch *ast.IfStmt
		for _, st := range fd.Body.List {
			switch x := st.(type) {
			case *ast.AssignStmt:
				if len(x.Lhs) == 1 && len(x.Rhs) == 1 && strings.HasSuffix(exprString(x.Rhs[0]), ".grabState(…)") {
					stateVar = exprString(x.Lhs[0])
				}
			case *ast.IfStmt:
				if exprString(x.Cond) == "?" { // BinaryExpr is not rendered by exprString
					if b, ok := x.Cond.(*ast.BinaryExpr); ok && b.Op == token.NEQ && exprString(b.X) == errName && exprString(b.Y) == "nil" && branch == nil {
						branch = x
					}
				}
			}
		}
		if stateVar == "" || branch == nil {
			return false, false, nil, fmt.Errorf("update: state variable / error branch not found")
		}
		writes := func(body []ast.Stmt) (out []string, early bool) {
			for _, st := range body {
				switch x := st.(type) {
				case *ast.IfStmt: // if state.metadata != nil { return }
					if b, ok := x.Cond.(*ast.BinaryExpr); ok && b.Op == token.NEQ && exprString(b.X) == stateVar+".metadata" && exprString(b.Y) == "nil" {
						for _, s2 := range x.Body.List {
							if _, ok := s2.(*ast.ReturnStmt); ok {
								early = true
							}
						}
					}
				case *ast.AssignStmt:
					for i, l := range x.Lhs {
						ls := exprString(l)
						if !strings.HasPrefix(ls, stateVar+".") || i >= len(x.Rhs) {
							continue
						}
						rhs := exprString(x.Rhs[i])
						switch {
						case rhs == "nil":
							rhs = "nil"
						case rhs == errName:
							rhs = "err"
						default:
							rhs = "new"
						}
						out = append(out, strings.TrimPrefix(ls, stateVar+".")+"="+rhs)
					}
				}
			}
			return
		}
		ew, early := writes(branch.Body.List)
		for _, w := range ew {
			if w == "err=err" {
				storesErr = true
			}
		}
		if blk, ok := branch.Else.(*ast.BlockStmt); ok {
			success, _ = writes(blk.List)
		}
		sort.Strings(success)
		return early, storesErr, success, nil
	}
	return false, false, nil, fmt.Errorf("transport.go: (*connPool).update not found")
}
