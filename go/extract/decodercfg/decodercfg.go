package main

// Translator "decodercfg": /repo/protocol/{decode,response,request}.go → lean/KafkaVerif/Gen/DecoderCfg.lean
//
// Extracts ONE fact by syntactic pattern matching (go/ast, nothing is executed): does the reflection decoder
// check every length / count read from the wire against `decoder.remain` (and reject negative values)
// before it allocates?  The model (Model/Codec.lean) is parametrised by this fact (`Cfg.bounded`) and theorem
// C20 `decode_total_bounded` is instantiated at the extracted value, so removing a guard from the source
// breaks the proof obligation on the next run.
//
// Pattern (all must hold for bounded := true):
//  G1 a method `lengthOutOfBounds(n int) bool` of *decoder whose first statement is
//     `if n < 0 || n > d.remain { d.setError(…); return true }`
//  G2 in `(*decoder).read`, `decodeArray`, `decodeCompactArray`: a call of lengthOutOfBounds textually before
//     the first `make(` / `makeArray(` call
//  G3 in `structDecodeFuncOf`: a call of lengthOutOfBounds before the `for` loop over the tagged fields
//  G4 in ReadResponse and ReadRequest: `if size < 0 { … return }` before `d.remain = int(size)`, and a
//     lengthOutOfBounds call before the header tag loop
//  G5 every `int(<uint64 length>)` conversion feeding read/makeArray goes through `toLength`, whose body maps
//     values above math.MaxInt32 to -1

import (
	"fmt"
	"go/ast"
	"go/parser"
	"go/token"
	"os"
	"path/filepath"
	"strings"
)

func init() { extractors["decodercfg"] = extractDecoderCfg }

func funcsOf(f *ast.File) map[string]*ast.FuncDecl {
	out := map[string]*ast.FuncDecl{}
	for _, d := range f.Decls {
		if fd, ok := d.(*ast.FuncDecl); ok && fd.Body != nil {
			out[fd.Name.Name] = fd
		}
	}
	return out
}

// firstCall returns the position of the first call of one of the named functions/methods inside n.
func firstCall(n ast.Node, names ...string) token.Pos {
	best := token.NoPos
	ast.Inspect(n, func(x ast.Node) bool {
		c, ok := x.(*ast.CallExpr)
		if !ok {
			return true
		}
		name := ""
		switch f := c.Fun.(type) {
		case *ast.Ident:
			name = f.Name
		case *ast.SelectorExpr:
			name = f.Sel.Name
		}
		for _, w := range names {
			if name == w && (best == token.NoPos || c.Pos() < best) {
				best = c.Pos()
			}
		}
		return true
	})
	return best
}

func firstFor(n ast.Node) token.Pos {
	best := token.NoPos
	ast.Inspect(n, func(x ast.Node) bool {
		if f, ok := x.(*ast.ForStmt); ok && (best == token.NoPos || f.Pos() < best) {
			best = f.Pos()
		}
		return true
	})
	return best
}

func before(a, b token.Pos) bool { return a != token.NoPos && b != token.NoPos && a < b }

func extractDecoderCfg(repo, root string) error {
	fset := token.NewFileSet()
	parse := func(name string) (*ast.File, string, error) {
		p := filepath.Join(repo, "protocol", name)
		src, err := os.ReadFile(p)
		if err != nil {
			return nil, "", err
		}
		f, err := parser.ParseFile(fset, p, src, 0)
		return f, string(src), err
	}
	dec, decSrc, err := parse("decode.go")
	if err != nil {
		return err
	}
	fs := funcsOf(dec)
	facts := map[string]bool{}
	text := func(n ast.Node) string {
		return strings.Join(strings.Fields(decSrc[fset.Position(n.Pos()).Offset:fset.Position(n.End()).Offset]), " ")
	}
	// G1
	if g, ok := fs["lengthOutOfBounds"]; ok && len(g.Body.List) > 0 {
		if ifs, ok := g.Body.List[0].(*ast.IfStmt); ok {
			cond := text(ifs.Cond)
			facts["G1"] = (cond == "n < 0 || n > d.remain" || cond == "n > d.remain || n < 0") &&
				firstCall(ifs.Body, "setError") != token.NoPos && strings.Contains(text(ifs.Body), "return true")
		}
	}
	// G2
	g2 := true
	for _, name := range []string{"read", "decodeArray", "decodeCompactArray"} {
		fd, ok := fs[name]
		g2 = g2 && ok && before(firstCall(fd, "lengthOutOfBounds"), firstCall(fd, "make", "makeArray", "decodeElems"))
	}
	facts["G2"] = g2
	// G8 arrays are allocated as their elements arrive (decodeElems): the first makeArray is capped by arrayChunk, the loop stops
	// at the first decoder error, growth happens only when the next slot is needed
	if fd, ok := fs["decodeElems"]; ok && fd.Body != nil {
		body := text(fd.Body)
		loop := ""
		ast.Inspect(fd.Body, func(x ast.Node) bool {
			if f, ok := x.(*ast.ForStmt); ok && loop == "" && f.Cond != nil {
				loop = text(f.Cond) + " :: " + text(f.Body)
			}
			return true
		})
		first := ""
		if p := firstCall(fd, "makeArray"); p != token.NoPos {
			ast.Inspect(fd.Body, func(x ast.Node) bool {
				if c, ok := x.(*ast.CallExpr); ok && c.Pos() == p {
					first = text(c)
				}
				return true
			})
		}
		facts["G8"] = strings.Contains(body, "if m > arrayChunk { m = arrayChunk }") && first == "makeArray(elemType, m)" &&
			strings.Contains(loop, "d.err == nil") && strings.Contains(loop, "d.remain > 0") && strings.Contains(loop, "if i == a.length()") &&
			before(firstCall(fd, "makeArray"), firstCall(fd, "growArray"))
		for _, name := range []string{"decodeArray", "decodeCompactArray"} {
			if f2, ok := fs[name]; ok {
				facts["G8"] = facts["G8"] && firstCall(f2, "makeArray") == token.NoPos && firstCall(f2, "decodeElems") != token.NoPos
			}
		}
	}
	// G9 decoder.read allocates the announced length only up to readChunk; longer values go to a buffer that grows with the bytes received
	if fd, ok := fs["read"]; ok && fd.Body != nil {
		body := text(fd.Body)
		guarded := false
		ast.Inspect(fd.Body, func(x ast.Node) bool {
			if is, ok := x.(*ast.IfStmt); ok && text(is.Cond) == "n <= readChunk" && strings.Contains(text(is.Body), "make([]byte, n)") {
				if len(is.Body.List) > 0 {
					if _, ok := is.Body.List[len(is.Body.List)-1].(*ast.ReturnStmt); ok {
						guarded = true
					}
				}
			}
			return true
		})
		facts["G9"] = guarded && strings.Count(body, "make([]byte, n)") == 1 && strings.Contains(body, "make([]byte, readChunk)")
	}
	// G10 the loops over tagged fields stop at the first decoder error (response header, request header, flexible structs)
	{
		g10 := true
		loopStops := func(n ast.Node, src func(ast.Node) string, counter string) bool {
			found := false
			ast.Inspect(n, func(x ast.Node) bool {
				if f, ok := x.(*ast.ForStmt); ok && f.Cond != nil {
					c := src(f.Cond)
					if strings.Contains(c, "< "+counter) {
						found = strings.Contains(c, "d.err == nil")
					}
				}
				return true
			})
			return found
		}
		for _, fn := range [][2]string{{"response.go", "ReadResponse"}, {"request.go", "ReadRequest"}} {
			f, src, err := parse(fn[0])
			if err != nil {
				return err
			}
			fd, ok := funcsOf(f)[fn[1]]
			g10 = g10 && ok && loopStops(fd, func(n ast.Node) string {
				return strings.Join(strings.Fields(src[fset.Position(n.Pos()).Offset:fset.Position(n.End()).Offset]), " ")
			}, "taggedCount")
		}
		if fd, ok := fs["structDecodeFuncOf"]; ok {
			g10 = g10 && loopStops(fd, text, "n")
		} else {
			g10 = false
		}
		facts["G10"] = g10
	}
	// G11 an unknown tagged field is skipped by READING its `size` bytes (`d.read(size)`: bounded by the frame, exactly size bytes from
	// any reader); decoder.discard — whose fallback for readers without a Discard method copies everything that is left — is only
	// ever asked for the whole rest of the frame in decode.go
	if fd, ok := fs["structDecodeFuncOf"]; ok {
		unknownReads := false
		ast.Inspect(fd, func(x ast.Node) bool {
			if is, ok := x.(*ast.IfStmt); ok && text(is.Cond) == "ok" && is.Else != nil {
				if text(is.Else) == "{ d.read(size) }" {
					unknownReads = true
				}
			}
			return true
		})
		onlyAll := true
		ast.Inspect(dec, func(x ast.Node) bool {
			if ce, ok := x.(*ast.CallExpr); ok {
				if sel, ok := ce.Fun.(*ast.SelectorExpr); ok && sel.Sel.Name == "discard" && len(ce.Args) == 1 {
					if text(ce.Args[0]) != "d.remain" {
						onlyAll = false
					}
				}
			}
			return true
		})
		facts["G11"] = unknownReads && onlyAll
	}
	// G3
	if fd, ok := fs["structDecodeFuncOf"]; ok {
		var inner *ast.FuncLit
		ast.Inspect(fd, func(x ast.Node) bool {
			if r, ok := x.(*ast.ReturnStmt); ok && len(r.Results) == 1 {
				if fl, ok := r.Results[0].(*ast.FuncLit); ok {
					inner = fl
				}
			}
			return true
		})
		if inner != nil {
			// the second `for` of the closure is the tagged-field loop; the guard must precede it
			var fors []token.Pos
			ast.Inspect(inner, func(x ast.Node) bool {
				if f, ok := x.(*ast.ForStmt); ok {
					fors = append(fors, f.Pos())
				}
				return true
			})
			facts["G3"] = len(fors) >= 1 && before(firstCall(inner, "lengthOutOfBounds"), fors[len(fors)-1])
		}
	}
	// G4
	g4 := true
	for _, fn := range [][2]string{{"response.go", "ReadResponse"}, {"request.go", "ReadRequest"}} {
		f, src, err := parse(fn[0])
		if err != nil {
			return err
		}
		fd, ok := funcsOf(f)[fn[1]]
		if !ok {
			g4 = false
			continue
		}
		negCheck, assign := token.NoPos, token.NoPos
		ast.Inspect(fd, func(x ast.Node) bool {
			switch s := x.(type) {
			case *ast.IfStmt:
				c := strings.Join(strings.Fields(src[fset.Position(s.Cond.Pos()).Offset:fset.Position(s.Cond.End()).Offset]), " ")
				returns := false
				ast.Inspect(s.Body, func(y ast.Node) bool {
					if _, ok := y.(*ast.ReturnStmt); ok {
						returns = true
					}
					return true
				})
				if c == "size < 0" && returns && negCheck == token.NoPos {
					negCheck = s.Pos()
				}
			case *ast.AssignStmt:
				t := strings.Join(strings.Fields(src[fset.Position(s.Pos()).Offset:fset.Position(s.End()).Offset]), " ")
				if t == "d.remain = int(size)" && assign == token.NoPos {
					assign = s.Pos()
				}
			}
			return true
		})
		g4 = g4 && before(negCheck, assign) && before(firstCall(fd, "lengthOutOfBounds"), firstFor(fd))
	}
	facts["G4"] = g4
	// G5
	if g, ok := fs["toLength"]; ok {
		t := text(g.Body)
		facts["G5"] = strings.Contains(t, "n > math.MaxInt32") && strings.Contains(t, "return -1") &&
			!strings.Contains(decSrc, "d.read(int(n - 1))") && !strings.Contains(decSrc, "makeArray(elemType, int(n-1))") ||
			(strings.Contains(t, "n > math.MaxInt32") && strings.Contains(t, "return -1") && firstCall(fs["decodeCompactArray"], "toLength") != token.NoPos &&
				firstCall(fs["readCompactString"], "toLength") != token.NoPos && firstCall(fs["readCompactBytes"], "toLength") != token.NoPos)
	}
	// G6/G7 the un-framed SASL exchange, protocol/saslauthenticate (*Request).readResp: `if respLen < 0 { … return }` before any
	// use of respLen, and no allocation sized by respLen (no make(..., respLen…)): the buffer grows with the bytes received
	{
		p := filepath.Join(repo, "protocol", "saslauthenticate", "saslauthenticate.go")
		if src, err := os.ReadFile(p); err == nil {
			if f, err := parser.ParseFile(fset, p, src, 0); err == nil {
				if fd := funcsOf(f)["readResp"]; fd != nil && fd.Body != nil {
					txt := func(n ast.Node) string {
						return strings.Join(strings.Fields(string(src[fset.Position(n.Pos()).Offset:fset.Position(n.End()).Offset])), " ")
					}
					lenVar := ""
					neg, grows := false, true
					for _, st := range fd.Body.List {
						if as, ok := st.(*ast.AssignStmt); ok && lenVar == "" && len(as.Lhs) == 1 && strings.Contains(txt(as.Rhs[0]), "binary.BigEndian.Uint32") {
							lenVar = txt(as.Lhs[0])
							continue
						}
						if lenVar == "" {
							continue
						}
						if is, ok := st.(*ast.IfStmt); ok && !neg && is.Init == nil && txt(is.Cond) == lenVar+" < 0" && len(is.Body.List) > 0 {
							if _, ok := is.Body.List[len(is.Body.List)-1].(*ast.ReturnStmt); ok {
								neg = true
								continue
							}
						}
						// any statement before the negative test that mentions the length defeats it
						if !neg && strings.Contains(txt(st), lenVar) {
							neg = false
							break
						}
					}
					ast.Inspect(fd.Body, func(n ast.Node) bool {
						if ce, ok := n.(*ast.CallExpr); ok {
							if id, ok := ce.Fun.(*ast.Ident); ok && id.Name == "make" && lenVar != "" {
								for _, a := range ce.Args[1:] {
									if strings.Contains(txt(a), lenVar) {
										grows = false
									}
								}
							}
						}
						return true
					})
					facts["G6"] = neg
					facts["G7"] = grows && lenVar != ""
				}
			}
		}
	}
	bounded := facts["G1"] && facts["G2"] && facts["G3"] && facts["G4"] && facts["G5"]
	var sb strings.Builder
	sb.WriteString("-- GENERATED by /verif/go/extract (decodercfg) from /repo/protocol/{decode,response,request}.go — do not edit\n")
	sb.WriteString("import KafkaVerif.Model.Codec\nnamespace KV.Gen\n")
	fmt.Fprintf(&sb, "-- guards found: G1 lengthOutOfBounds=%v  G2 read/decodeArray/decodeCompactArray=%v  G3 tagged loop=%v  G4 frame size + header tags=%v  G5 toLength=%v\n",
		facts["G1"], facts["G2"], facts["G3"], facts["G4"], facts["G5"])
	fmt.Fprintf(&sb, "-- SASL raw exchange (saslauthenticate readResp): G6 negative length rejected=%v  G7 no allocation sized by the length=%v\n", facts["G6"], facts["G7"])
	fmt.Fprintf(&sb, "-- G8 arrays allocated as their elements arrive (decodeElems: first makeArray capped by arrayChunk, loop stops at the first error)=%v\n", facts["G8"])
	fmt.Fprintf(&sb, "def decoderCfg : KV.Codec.Cfg := { bounded := %v, growing := %v }\n", bounded, facts["G8"] && facts["G9"])
	fmt.Fprintf(&sb, "/-- G8: a count that is within the ANNOUNCED frame size but beyond what was received does not allocate ahead of the data -/\ndef arraysGrow : Bool := %v\n", facts["G8"])
	fmt.Fprintf(&sb, "/-- G9: decoder.read allocates an announced string / bytes length only up to readChunk; longer values grow with the bytes received -/\ndef readsGrow : Bool := %v\n", facts["G9"])
	fmt.Fprintf(&sb, "/-- G11: an unknown tagged field is skipped with d.read(size); decoder.discard (reader-dependent fallback) is only used for the whole rest of the frame -/\ndef unknownTagsRead : Bool := %v\n", facts["G11"])
	fmt.Fprintf(&sb, "/-- G10: the tagged-field loops (response header, request header, flexible structs) stop at the first decoder error -/\ndef tagLoopsStop : Bool := %v\n", facts["G10"])
	{
		emit := func(prefix, what string, chunk, init, grow string, ok bool) {
			if !ok {
				fmt.Fprintf(&sb, "-- %s: growth loop NOT translated (shape not recognised): a policy that never grows, so the theorems about it fail\n", what)
				chunk, init, grow = "0", "n", "len"
			}
			fmt.Fprintf(&sb, "/-- %s: the constant, the capacity allocated before the data arrives, the capacity allocated when `len` slots are full -/\n", what)
			fmt.Fprintf(&sb, "def %sChunk : Nat := %s\ndef %sInit (n : Nat) : Nat := %s\ndef %sGrow (len n : Nat) : Nat := %s\n", prefix, chunk, prefix, init, prefix, grow)
		}
		c1, i1, g1, ok1 := growthOfDecodeElems(dec, fs["decodeElems"], text)
		emit("array", "protocol/decode.go decodeElems", c1, i1, g1, ok1)
		c2, i2, g2, ok2 := growthOfRead(dec, fs["read"], text)
		emit("read", "protocol/decode.go (*decoder).read", c2, i2, g2, ok2)
	}
	fmt.Fprintf(&sb, "def saslCfg : KV.Codec.SaslCfg := { negChecked := %v, grows := %v }\nend KV.Gen\n", facts["G6"], facts["G7"])
	return os.WriteFile(filepath.Join(root, "lean", "KafkaVerif", "Gen", "DecoderCfg.lean"), []byte(sb.String()), 0o644)
}


// ---------------------------------------------------------------------------------------------------------------------
// The growth loops of decodeElems (arrays) and (*decoder).read (strings / bytes), translated into Lean functions:
//
//	chunk          the constant arrayChunk / readChunk
//	init n         the capacity allocated before any element / byte of the value has been received
//	grow len n     the capacity allocated when `len` slots are full and the announced count is n
//
// The statements are executed symbolically over the variables `len` (a.length() / len(b)) and `n`:
// `m = E`, `m := E`, `if C { m = E }` and the allocation call whose size argument is the result.

type symEnv struct {
	vars   map[string]string // Go variable -> Lean expression (Nat)
	consts map[string]string
	lenOf  []string // source texts that denote the current capacity
}

func (e *symEnv) expr(x ast.Expr, text func(ast.Node) string) (string, bool) {
	t := text(x)
	for _, l := range e.lenOf {
		if t == l {
			return "len", true
		}
	}
	switch v := x.(type) {
	case *ast.ParenExpr:
		return e.expr(v.X, text)
	case *ast.BasicLit:
		if v.Kind == token.INT {
			return v.Value, true
		}
	case *ast.Ident:
		if l, ok := e.vars[v.Name]; ok {
			return l, true
		}
		if l, ok := e.consts[v.Name]; ok {
			return l, true
		}
	case *ast.BinaryExpr:
		a, ok1 := e.expr(v.X, text)
		b, ok2 := e.expr(v.Y, text)
		if ok1 && ok2 {
			switch v.Op {
			case token.MUL:
				return "(" + a + " * " + b + ")", true
			case token.ADD:
				return "(" + a + " + " + b + ")", true
			}
		}
	}
	return "", false
}

func (e *symEnv) cond(x ast.Expr, text func(ast.Node) string) (string, bool) {
	b, ok := x.(*ast.BinaryExpr)
	if !ok {
		return "", false
	}
	l, ok1 := e.expr(b.X, text)
	r, ok2 := e.expr(b.Y, text)
	if !ok1 || !ok2 {
		return "", false
	}
	switch b.Op {
	case token.GTR:
		return "(" + l + " > " + r + ")", true
	case token.LSS:
		return "(" + l + " < " + r + ")", true
	case token.GEQ:
		return "(" + l + " ≥ " + r + ")", true
	case token.LEQ:
		return "(" + l + " ≤ " + r + ")", true
	}
	return "", false
}

// run executes assignments to plain variables and `if C { x = E }`; it stops at the first call of one of `allocs` and returns
// the Lean expression of that call's size argument (argument index argIx).
func (e *symEnv) run(list []ast.Stmt, text func(ast.Node) string, allocs map[string]int) (string, bool) {
	for _, st := range list {
		switch s := st.(type) {
		case *ast.AssignStmt:
			if len(s.Lhs) == 1 && len(s.Rhs) == 1 {
				if ce, ok := s.Rhs[0].(*ast.CallExpr); ok {
					if id, ok := ce.Fun.(*ast.Ident); ok {
						if ix, ok := allocs[id.Name]; ok && ix < len(ce.Args) {
							return e.expr(ce.Args[ix], text)
						}
					}
				}
				if id, ok := s.Lhs[0].(*ast.Ident); ok {
					if v, ok := e.expr(s.Rhs[0], text); ok {
						e.vars[id.Name] = v
						continue
					}
				}
			}
			return "", false
		case *ast.IfStmt:
			if s.Init != nil || s.Else != nil || len(s.Body.List) != 1 {
				return "", false
			}
			as, ok := s.Body.List[0].(*ast.AssignStmt)
			if !ok || len(as.Lhs) != 1 || len(as.Rhs) != 1 {
				return "", false
			}
			id, ok := as.Lhs[0].(*ast.Ident)
			c, ok2 := e.cond(s.Cond, text)
			v, ok3 := e.expr(as.Rhs[0], text)
			if !ok || !ok2 || !ok3 {
				return "", false
			}
			old, had := e.vars[id.Name]
			if !had {
				return "", false
			}
			e.vars[id.Name] = "(if " + c + " then " + v + " else " + old + ")"
		default:
			return "", false
		}
	}
	return "", false
}

// intConst finds `const name = <int>` in the file.
func intConst(f *ast.File, name string) (string, bool) {
	for _, d := range f.Decls {
		gd, ok := d.(*ast.GenDecl)
		if !ok || gd.Tok != token.CONST {
			continue
		}
		for _, sp := range gd.Specs {
			vs := sp.(*ast.ValueSpec)
			for i, n := range vs.Names {
				if n.Name == name && i < len(vs.Values) {
					switch v := vs.Values[i].(type) {
					case *ast.BasicLit:
						return v.Value, true
					case *ast.BinaryExpr: // 64 * 1024
						a, ok1 := v.X.(*ast.BasicLit)
						b, ok2 := v.Y.(*ast.BasicLit)
						if ok1 && ok2 && v.Op == token.MUL {
							return "(" + a.Value + " * " + b.Value + ")", true
						}
					}
				}
			}
		}
	}
	return "", false
}

// growthOfDecodeElems: init = statements before the loop up to `a := makeArray(elemType, m)`; grow = body of `if i == a.length() {…}`.
func growthOfDecodeElems(f *ast.File, fd *ast.FuncDecl, text func(ast.Node) string) (chunk, init, grow string, ok bool) {
	chunk, ok = intConst(f, "arrayChunk")
	if !ok || fd == nil || fd.Body == nil {
		return "", "", "", false
	}
	e := &symEnv{vars: map[string]string{"n": "n"}, consts: map[string]string{"arrayChunk": chunk}}
	init, ok = e.run(fd.Body.List, text, map[string]int{"makeArray": 1})
	if !ok {
		return "", "", "", false
	}
	found := false
	ast.Inspect(fd.Body, func(x ast.Node) bool {
		is, isIf := x.(*ast.IfStmt)
		if !isIf || found || text(is.Cond) != "i == a.length()" {
			return true
		}
		g := &symEnv{vars: map[string]string{"n": "n"}, consts: e.consts, lenOf: []string{"a.length()"}}
		grow, found = g.run(is.Body.List, text, map[string]int{"growArray": 2})
		return true
	})
	return chunk, init, grow, found
}

// growthOfRead: init = `if n <= readChunk { b := make([]byte, n) … }` else `b := make([]byte, readChunk)`; grow = the statements of
// the loop body after the return test up to `g := make([]byte, m)`.
func growthOfRead(f *ast.File, fd *ast.FuncDecl, text func(ast.Node) string) (chunk, init, grow string, ok bool) {
	chunk, ok = intConst(f, "readChunk")
	if !ok || fd == nil || fd.Body == nil {
		return "", "", "", false
	}
	consts := map[string]string{"readChunk": chunk}
	small, large := "", ""
	var loop *ast.ForStmt
	for _, st := range fd.Body.List {
		switch s := st.(type) {
		case *ast.IfStmt:
			if text(s.Cond) == "n <= readChunk" && small == "" {
				e := &symEnv{vars: map[string]string{"n": "n"}, consts: consts}
				small, _ = e.run(s.Body.List, text, map[string]int{"make": 1})
			}
		case *ast.AssignStmt:
			if large == "" {
				e := &symEnv{vars: map[string]string{"n": "n"}, consts: consts}
				large, _ = e.run([]ast.Stmt{s}, text, map[string]int{"make": 1})
			}
		case *ast.ForStmt:
			loop = s
		}
	}
	if small == "" || large == "" || loop == nil {
		return "", "", "", false
	}
	// growth: the statements after the `if err != nil || r == n {…}` test
	var tail []ast.Stmt
	for i, st := range loop.Body.List {
		if is, isIf := st.(*ast.IfStmt); isIf && strings.Contains(text(is.Cond), "r == n") {
			tail = loop.Body.List[i+1:]
		}
	}
	g := &symEnv{vars: map[string]string{"n": "n"}, consts: consts, lenOf: []string{"len(b)"}}
	grow, ok = g.run(tail, text, map[string]int{"make": 1})
	if !ok {
		return "", "", "", false
	}
	return chunk, "(if n ≤ " + chunk + " then " + small + " else " + large + ")", grow, true
}
