package main

// Extractor "poolkeys": for the NewReader / NewWriter methods of the pooled codecs (compress/{gzip,snappy,lz4,zstd}):
//   owned     — the sync.Pool the object comes from is a field of the Codec VALUE (receiver) rather than a package variable
//   bakes     — on the "pool was empty" path the new object is constructed from options of the receiver
//               (gzip.NewWriterLevel(w, c.level()), zstd.WithEncoderLevel(c.zstdLevel()))
//   reapplies — after Get, on every path, fields of the object are assigned from the receiver's options
//               (snappy: x.framed = c.Framing == Framed; switch c.Compression { … x.encode = … })
// → lean/KafkaVerif/Gen/CodecPools.lean.  Props/C16.lean requires: bakes → (owned ∨ reapplies), i.e. the pool key
// includes every option a pooled object keeps (Model/Pool.lean `CfgPool`).  Names of locals do not matter: the
// receiver and the pooled variable are found from the declaration and from the Get call.

import (
	"bytes"
	"fmt"
	"go/ast"
	"go/parser"
	"go/printer"
	"go/token"
	"os"
	"path/filepath"
	"sort"
	"strings"
)

func init() { extractors["poolkeys"] = extractPoolKeys }

func text(fset *token.FileSet, n ast.Node) string {
	var b bytes.Buffer
	printer.Fprint(&b, fset, n)
	return b.String()
}

func usesIdent(n ast.Node, name string) bool {
	found := false
	ast.Inspect(n, func(m ast.Node) bool {
		if id, ok := m.(*ast.Ident); ok && id.Name == name {
			found = true
		}
		return !found
	})
	return found
}

// rootIdent returns the leftmost identifier of a selector chain / call / type assertion
func rootIdent(e ast.Expr) string {
	for {
		switch x := e.(type) {
		case *ast.Ident:
			return x.Name
		case *ast.SelectorExpr:
			e = x.X
		case *ast.CallExpr:
			e = x.Fun
		case *ast.TypeAssertExpr:
			e = x.X
		case *ast.ParenExpr:
			e = x.X
		case *ast.StarExpr:
			e = x.X
		default:
			return ""
		}
	}
}

type poolFact struct {
	name                    string
	owned, bakes, reapplies bool
}

// findGet returns the `<pool>.Get()` call of a body, if any
func findGet(body *ast.BlockStmt) *ast.CallExpr {
	var getCall *ast.CallExpr
	ast.Inspect(body, func(n ast.Node) bool {
		if c, ok := n.(*ast.CallExpr); ok {
			if sel, ok := c.Fun.(*ast.SelectorExpr); ok && sel.Sel.Name == "Get" && len(c.Args) == 0 {
				getCall = c
			}
		}
		return true
	})
	return getCall
}

// analyse one function body: `source` is the call the pooled object comes from (the Get call itself, or the call of a
// helper that contains it); `recvLike` are the identifiers that stand for the Codec value
func analyse(fset *token.FileSet, body *ast.BlockStmt, source *ast.CallExpr, recvLike map[string]bool, isGet bool) (fact poolFact) {
	usesRecv := func(n ast.Node) bool {
		for r := range recvLike {
			if usesIdent(n, r) {
				return true
			}
		}
		return false
	}
	objs := map[string]bool{}
	// variables assigned (directly or through a type assertion of such a variable) from the source call
	for changed := true; changed; {
		changed = false
		ast.Inspect(body, func(n ast.Node) bool {
			a, ok := n.(*ast.AssignStmt)
			if !ok || len(a.Rhs) != 1 {
				return true
			}
			from := false
			ast.Inspect(a.Rhs[0], func(m ast.Node) bool {
				if m == ast.Node(source) {
					from = true
				}
				if id, ok := m.(*ast.Ident); ok && objs[id.Name] {
					if _, isTA := a.Rhs[0].(*ast.TypeAssertExpr); isTA {
						from = true
					}
				}
				return true
			})
			if from {
				lhs := text(fset, a.Lhs[0])
				if !objs[lhs] {
					objs[lhs] = true
					changed = true
				}
			}
			return true
		})
	}
	if isGet {
		fact.owned = recvLike[rootIdent(source.Fun)]
	}
	isObj := func(e ast.Expr) bool { return objs[text(fset, e)] }
	// nil-branches on the pooled object: statements inside them are the constructor / reuse paths
	var walk func(stmts []ast.Stmt, conditional bool, switchOnRecv bool)
	walk = func(stmts []ast.Stmt, conditional bool, switchOnRecv bool) {
		for _, st := range stmts {
			switch x := st.(type) {
			case *ast.IfStmt:
				condOnObj := false
				ast.Inspect(x.Cond, func(m ast.Node) bool {
					if e, ok := m.(ast.Expr); ok && isObj(e) {
						condOnObj = true
					}
					return true
				})
				if x.Init != nil {
					walk([]ast.Stmt{x.Init}, conditional, switchOnRecv)
				}
				walk(x.Body.List, conditional || condOnObj, switchOnRecv)
				if x.Else != nil {
					if b, ok := x.Else.(*ast.BlockStmt); ok {
						walk(b.List, conditional || condOnObj, switchOnRecv)
					} else {
						walk([]ast.Stmt{x.Else}, conditional || condOnObj, switchOnRecv)
					}
				}
			case *ast.SwitchStmt:
				onRecv := switchOnRecv || (x.Tag != nil && usesRecv(x.Tag))
				for _, cc := range x.Body.List {
					walk(cc.(*ast.CaseClause).Body, conditional, onRecv)
				}
			case *ast.BlockStmt:
				walk(x.List, conditional, switchOnRecv)
			default:
				if conditional {
					// constructor path: a call with an argument built from the receiver
					ast.Inspect(st, func(m ast.Node) bool {
						if c, ok := m.(*ast.CallExpr); ok && c != source {
							for _, a := range c.Args {
								if usesRecv(a) {
									fact.bakes = true
								}
							}
						}
						return true
					})
				} else if a, ok := st.(*ast.AssignStmt); ok && len(a.Lhs) == 1 {
					if sel, ok := a.Lhs[0].(*ast.SelectorExpr); ok && isObj(sel.X) {
						if switchOnRecv || usesRecv(a.Rhs[0]) {
							fact.reapplies = true
						}
					}
				}
			}
		}
	}
	walk(body.List, false, false)
	return fact
}

func isCodecType(e ast.Expr) bool {
	if s, ok := e.(*ast.StarExpr); ok {
		e = s.X
	}
	id, ok := e.(*ast.Ident)
	return ok && id.Name == "Codec"
}

func extractPoolKeys(repo, root string) error {
	var facts []poolFact
	for _, pkg := range []string{"gzip", "snappy", "lz4", "zstd"} {
		fset := token.NewFileSet()
		pkgs, err := parser.ParseDir(fset, filepath.Join(repo, "compress", pkg), func(fi os.FileInfo) bool { return !strings.HasSuffix(fi.Name(), "_test.go") }, 0)
		if err != nil {
			return err
		}
		decls := map[string]*ast.FuncDecl{} // functions and methods of the package by name
		var ctors []*ast.FuncDecl
		for _, p := range pkgs {
			for _, f := range p.Files {
				for _, d := range f.Decls {
					fd, ok := d.(*ast.FuncDecl)
					if !ok || fd.Body == nil {
						continue
					}
					if fd.Recv != nil && (fd.Name.Name == "NewReader" || fd.Name.Name == "NewWriter") && len(fd.Recv.List[0].Names) == 1 &&
						isCodecType(fd.Recv.List[0].Type) {
						ctors = append(ctors, fd)
						continue
					}
					decls[fd.Name.Name] = fd
				}
			}
		}
		for _, fd := range ctors {
			recv := fd.Recv.List[0].Names[0].Name
			fact := poolFact{name: pkg + "." + fd.Name.Name}
			if getCall := findGet(fd.Body); getCall != nil {
				a := analyse(fset, fd.Body, getCall, map[string]bool{recv: true}, true)
				fact.owned, fact.bakes, fact.reapplies = a.owned, a.bakes, a.reapplies
				facts = append(facts, fact)
				continue
			}
			// the acquisition was moved into a helper of the package: analyse the helper where the Get is, and the
			// caller for what it does with the object afterwards
			var call *ast.CallExpr
			var helper *ast.FuncDecl
			ast.Inspect(fd.Body, func(n ast.Node) bool {
				c, ok := n.(*ast.CallExpr)
				if !ok || helper != nil {
					return true
				}
				name := ""
				switch fn := c.Fun.(type) {
				case *ast.Ident:
					name = fn.Name
				case *ast.SelectorExpr:
					name = fn.Sel.Name
				}
				if h, ok := decls[name]; ok && findGet(h.Body) != nil {
					call, helper = c, h
				}
				return true
			})
			if helper == nil {
				continue
			}
			like := map[string]bool{}
			if helper.Recv != nil && len(helper.Recv.List[0].Names) == 1 && isCodecType(helper.Recv.List[0].Type) {
				like[helper.Recv.List[0].Names[0].Name] = true
			}
			k := 0
			for _, fl := range helper.Type.Params.List {
				for _, nm := range fl.Names {
					if k < len(call.Args) && (isCodecType(fl.Type) || usesIdent(call.Args[k], recv)) {
						like[nm.Name] = true // handed the Codec value, or an option computed from it
					}
					k++
				}
			}
			h := analyse(fset, helper.Body, findGet(helper.Body), like, true)
			c := analyse(fset, fd.Body, call, map[string]bool{recv: true}, false)
			fact.owned, fact.bakes, fact.reapplies = h.owned, h.bakes, h.reapplies || c.reapplies
			facts = append(facts, fact)
		}
	}
	sort.Slice(facts, func(i, j int) bool { return facts[i].name < facts[j].name })
	if len(facts) != 8 {
		return fmt.Errorf("expected NewReader and NewWriter of 4 codecs, found %d", len(facts))
	}
	var out strings.Builder
	out.WriteString("-- GENERATED by /verif/go/extract (poolkeys) from /repo/compress/{gzip,snappy,lz4,zstd}/*.go — do not edit\n")
	out.WriteString("namespace KV.Gen.CodecPools\n")
	out.WriteString("/-- (method, pool owned by the Codec value, new objects bake receiver options, options re-applied after Get) -/\n")
	out.WriteString("def poolFacts : List (String × Bool × Bool × Bool) := [\n")
	for i, f := range facts {
		sep := ","
		if i == len(facts)-1 {
			sep = ""
		}
		fmt.Fprintf(&out, "  (%q, %v, %v, %v)%s\n", f.name, f.owned, f.bakes, f.reapplies, sep)
	}
	out.WriteString("]\nend KV.Gen.CodecPools\n")
	return os.WriteFile(filepath.Join(root, "lean", "KafkaVerif", "Gen", "CodecPools.lean"), []byte(out.String()), 0o644)
}
