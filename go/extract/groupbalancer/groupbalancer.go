package main

// Translator for property C14: re-emits the index arithmetic, the selection / ordering predicates and a few
// structural facts of /repo/groupbalancer.go (and of the leader glue in consumergroup.go) as Lean definitions
// (Gen/GroupBalancerSel.lean).  Props/C14.lean proves that the model's predicates are these generated ones, so
// `lake build` re-checks the model against the source text on every run.  Only parses (go/ast); never executes the
// code under test.
//
// Identifiers are resolved to the OBJECT they denote (go/parser's scope resolution: ast.Ident.Obj), never compared
// by spelling, and every local is replaced by its ROLE (index of the member loop, length of the slice the member loop
// ranges over, element i of the slice being sorted, …) or, for a local with a single definition, by that definition
// (inlined).  Renaming locals, introducing or removing such temporaries, or renaming the helper does not change the
// output; using a different variable than the one a role requires does.
//
// Go `int` expressions over indices and lengths are rendered over `Nat` (all operands are non-negative and
// products of an index and a length do not overflow int64 for real slices — recorded as an assumption).

import (
	"fmt"
	"go/ast"
	"go/parser"
	"go/token"
	"os"
	"path/filepath"
	"strings"
)

func init() { extractors["groupbalancer"] = extractGroupBalancer }

type leanExpr struct {
	text   string
	isBool bool
	vars   []string
}

func mergeVars(a, b []string) []string {
	out := append([]string{}, a...)
	for _, v := range b {
		dup := false
		for _, w := range out {
			if w == v {
				dup = true
			}
		}
		if !dup {
			out = append(out, v)
		}
	}
	return out
}

// resolver maps objects to roles and inlines single-definition locals.
type resolver struct {
	role    map[*ast.Object]string   // the variable itself has a role (an index, a count, …)
	lenRole map[*ast.Object]string   // len(variable) has a role
	elems   map[*ast.Object]string   // variable[k].F is rendered <elems>_<role of k>_<F>
	def     map[*ast.Object]ast.Expr // single `x := e` (never assigned again): inlined
	depth   int
}

func newResolver() *resolver {
	return &resolver{role: map[*ast.Object]string{}, lenRole: map[*ast.Object]string{}, elems: map[*ast.Object]string{}, def: map[*ast.Object]ast.Expr{}}
}

// singleDefs records every local of the function that is defined once with := and never assigned again.
func (r *resolver) singleDefs(fd *ast.FuncDecl) {
	count := map[*ast.Object]int{}
	defs := map[*ast.Object]ast.Expr{}
	ast.Inspect(fd.Body, func(n ast.Node) bool {
		switch s := n.(type) {
		case *ast.AssignStmt:
			for i, l := range s.Lhs {
				if id, ok := l.(*ast.Ident); ok && id.Obj != nil {
					count[id.Obj]++
					if s.Tok == token.DEFINE && len(s.Lhs) == len(s.Rhs) {
						defs[id.Obj] = s.Rhs[i]
					}
				}
			}
		case *ast.IncDecStmt:
			if id, ok := s.X.(*ast.Ident); ok && id.Obj != nil {
				count[id.Obj] += 2
			}
		case *ast.RangeStmt:
			for _, e := range []ast.Expr{s.Key, s.Value} {
				if id, ok := e.(*ast.Ident); ok && id.Obj != nil {
					count[id.Obj] += 2 // assigned on every iteration: never inlined
				}
			}
		}
		return true
	})
	for o, c := range count {
		if e, ok := defs[o]; ok && c == 1 {
			r.def[o] = e
		}
	}
}

func objOf(e ast.Expr) *ast.Object {
	if id, ok := e.(*ast.Ident); ok {
		return id.Obj
	}
	return nil
}

func (r *resolver) toLean(e ast.Expr) (leanExpr, error) {
	switch x := e.(type) {
	case *ast.ParenExpr:
		in, err := r.toLean(x.X)
		if err != nil {
			return in, err
		}
		return leanExpr{"(" + in.text + ")", in.isBool, in.vars}, nil
	case *ast.BasicLit:
		if x.Kind == token.INT {
			return leanExpr{x.Value, false, nil}, nil
		}
	case *ast.BinaryExpr:
		l, err := r.toLean(x.X)
		if err != nil {
			return l, err
		}
		rr, err := r.toLean(x.Y)
		if err != nil {
			return rr, err
		}
		vars := mergeVars(l.vars, rr.vars)
		switch x.Op {
		case token.ADD, token.MUL, token.QUO, token.REM:
			if l.isBool || rr.isBool {
				return leanExpr{}, fmt.Errorf("arithmetic on a boolean")
			}
			return leanExpr{l.text + " " + x.Op.String() + " " + rr.text, false, vars}, nil
		case token.LSS, token.LEQ, token.GTR, token.GEQ:
			op := map[token.Token]string{token.LSS: "<", token.LEQ: "≤", token.GTR: ">", token.GEQ: "≥"}[x.Op]
			return leanExpr{"decide (" + l.text + " " + op + " " + rr.text + ")", true, vars}, nil
		case token.EQL:
			return leanExpr{"(" + l.text + " == " + rr.text + ")", true, vars}, nil
		case token.NEQ:
			return leanExpr{"(" + l.text + " != " + rr.text + ")", true, vars}, nil
		case token.LAND, token.LOR:
			if !l.isBool || !rr.isBool {
				return leanExpr{}, fmt.Errorf("logical operator on a non-boolean")
			}
			op := "&&"
			if x.Op == token.LOR {
				op = "||"
			}
			return leanExpr{"(" + l.text + " " + op + " " + rr.text + ")", true, vars}, nil
		}
		return leanExpr{}, fmt.Errorf("untranslated operator %s", x.Op)
	case *ast.Ident:
		if x.Obj == nil {
			return leanExpr{}, fmt.Errorf("identifier %s does not denote a local", x.Name)
		}
		if role, ok := r.role[x.Obj]; ok {
			return leanExpr{role, false, []string{role}}, nil
		}
		if d, ok := r.def[x.Obj]; ok && r.depth < 16 {
			r.depth++
			in, err := r.toLean(d)
			r.depth--
			if err != nil {
				return in, err
			}
			return leanExpr{"(" + in.text + ")", in.isBool, in.vars}, nil
		}
		return leanExpr{}, fmt.Errorf("local %s has no role and no single definition", x.Name)
	case *ast.CallExpr:
		if id, ok := x.Fun.(*ast.Ident); ok && id.Name == "len" && id.Obj == nil && len(x.Args) == 1 {
			if o := objOf(x.Args[0]); o != nil {
				if role, ok := r.lenRole[o]; ok {
					return leanExpr{role, false, []string{role}}, nil
				}
			}
			return leanExpr{}, fmt.Errorf("len of something without a role")
		}
	case *ast.SelectorExpr: // S[k].F
		if ix, ok := x.X.(*ast.IndexExpr); ok {
			so, ko := objOf(ix.X), objOf(ix.Index)
			if so != nil && ko != nil {
				base, ok1 := r.elems[so]
				k, ok2 := r.role[ko]
				if !ok1 {
					base = "foreign" // an element of some OTHER slice than the one the role requires
				}
				if ok2 {
					n := base + "_" + k + "_" + x.Sel.Name
					return leanExpr{n, false, []string{n}}, nil
				}
			}
		}
	}
	return leanExpr{}, fmt.Errorf("untranslated expression %T", e)
}

func funcNamed(f *ast.File, recv, name string) *ast.FuncDecl {
	for _, d := range f.Decls {
		fd, ok := d.(*ast.FuncDecl)
		if !ok || fd.Body == nil || fd.Name.Name != name {
			continue
		}
		r := ""
		if fd.Recv != nil && len(fd.Recv.List) == 1 {
			switch t := fd.Recv.List[0].Type.(type) {
			case *ast.Ident:
				r = t.Name
			case *ast.StarExpr:
				if id, ok := t.X.(*ast.Ident); ok {
					r = id.Name
				}
			}
		}
		if r == recv {
			return fd
		}
	}
	return nil
}

func paramObjs(fd *ast.FuncDecl) []*ast.Object {
	var out []*ast.Object
	for _, f := range fd.Type.Params.List {
		for _, n := range f.Names {
			out = append(out, n.Obj)
		}
	}
	return out
}

// directRanges returns the range statements that are direct children of the block.
func directRanges(b *ast.BlockStmt) []*ast.RangeStmt {
	var out []*ast.RangeStmt
	for _, s := range b.List {
		if r, ok := s.(*ast.RangeStmt); ok {
			out = append(out, r)
		}
	}
	return out
}

func hasEarlyExit(n ast.Node) bool {
	found := false
	ast.Inspect(n, func(x ast.Node) bool {
		switch x.(type) {
		case *ast.BranchStmt, *ast.ReturnStmt:
			found = true
		case *ast.FuncLit:
			return false
		}
		return true
	})
	return found
}

func calls(e ast.Expr, fn string) bool {
	c, ok := e.(*ast.CallExpr)
	if !ok {
		return false
	}
	id, ok := c.Fun.(*ast.Ident)
	return ok && id.Name == fn
}

// selectionCond analyses `AssignGroups` of Range / RoundRobin: for topic, SUB := range byTopic { PARTS := findPartitions(…);
// for MI, _ := range SUB { for PI, PV := range PARTS { if COND { append } } } } and returns COND over the roles
// memberIndex, partitionIndex, memberCount (= len(SUB)), partitionCount (= len(PARTS)), partitionValue (= PV).
func selectionCond(fd *ast.FuncDecl) (leanExpr, bool, error) {
	outer := directRanges(fd.Body)
	if len(outer) != 1 {
		return leanExpr{}, false, fmt.Errorf("%s: expected exactly one top-level range loop", fd.Name.Name)
	}
	l1 := outer[0]
	if o := objOf(l1.X); o == nil || o.Decl == nil {
		return leanExpr{}, false, fmt.Errorf("%s: the outer loop does not range over a local", fd.Name.Name)
	} else if a, ok := o.Decl.(*ast.AssignStmt); !ok || len(a.Rhs) != 1 || !calls(a.Rhs[0], "findMembersByTopic") {
		return leanExpr{}, false, fmt.Errorf("%s: the outer loop does not range over findMembersByTopic(…)", fd.Name.Name)
	}
	sub := objOf(l1.Value)
	var l2 *ast.RangeStmt
	for _, r := range directRanges(l1.Body) {
		if sub != nil && objOf(r.X) == sub {
			l2 = r
		}
	}
	if l2 == nil {
		return leanExpr{}, false, fmt.Errorf("%s: no loop over the members of the topic (the value of the outer loop)", fd.Name.Name)
	}
	inner := directRanges(l2.Body)
	if len(inner) != 1 {
		return leanExpr{}, false, fmt.Errorf("%s: expected one partition loop inside the member loop", fd.Name.Name)
	}
	l3 := inner[0]
	parts := objOf(l3.X)
	if parts == nil {
		return leanExpr{}, false, fmt.Errorf("%s: the partition loop does not range over a local", fd.Name.Name)
	}
	if a, ok := parts.Decl.(*ast.AssignStmt); !ok || len(a.Rhs) != 1 || !calls(a.Rhs[0], "findPartitions") {
		return leanExpr{}, false, fmt.Errorf("%s: the partition loop does not range over findPartitions(…)", fd.Name.Name)
	}
	if len(l3.Body.List) != 1 {
		return leanExpr{}, false, fmt.Errorf("%s: the partition loop body is not a single if", fd.Name.Name)
	}
	ifs, ok := l3.Body.List[0].(*ast.IfStmt)
	if !ok || ifs.Init != nil || ifs.Else != nil {
		return leanExpr{}, false, fmt.Errorf("%s: the partition loop body is not a plain if", fd.Name.Name)
	}
	r := newResolver()
	r.singleDefs(fd)
	if o := objOf(l2.Key); o != nil {
		r.role[o] = "memberIndex"
	}
	if o := objOf(l3.Key); o != nil {
		r.role[o] = "partitionIndex"
	}
	if o := objOf(l3.Value); o != nil {
		r.role[o] = "partitionValue"
	}
	r.lenRole[sub] = "memberCount"
	r.lenRole[parts] = "partitionCount"
	c, err := r.toLean(ifs.Cond)
	if err != nil {
		return c, false, fmt.Errorf("%s: %v", fd.Name.Name, err)
	}
	// the guarded statement appends the partition VALUE of this iteration
	appendsValue := false
	if len(ifs.Body.List) == 1 {
		if a, ok := ifs.Body.List[0].(*ast.AssignStmt); ok && len(a.Rhs) == 1 {
			if call, ok := a.Rhs[0].(*ast.CallExpr); ok && calls(call, "append") && len(call.Args) == 2 && objOf(call.Args[1]) == objOf(l3.Value) && objOf(l3.Value) != nil {
				appendsValue = true
			}
		}
	}
	// no break / continue / return anywhere in the loops, and nothing but the member loop consumes the topic
	plain := appendsValue && !hasEarlyExit(l1.Body)
	return c, plain, nil
}

func emitDef(sb *strings.Builder, name string, params []string, e leanExpr, doc string) {
	ps := append([]string{}, params...)
	for _, v := range e.vars { // anything beyond the expected roles becomes an extra parameter (and breaks the theorem)
		known := false
		for _, p := range ps {
			if p == v {
				known = true
			}
		}
		if !known {
			ps = append(ps, v)
		}
	}
	ty := "Nat"
	if e.isBool {
		ty = "Bool"
	}
	fmt.Fprintf(sb, "/-- %s -/\ndef %s (%s : Nat) : %s := %s\n", doc, name, strings.Join(ps, " "), ty, e.text)
}

func quoteJoin(xs []string) string {
	q := make([]string, len(xs))
	for i, x := range xs {
		q[i] = "\"" + x + "\""
	}
	return strings.Join(q, ", ")
}

func extractGroupBalancer(repo, root string) error {
	fset := token.NewFileSet()
	f, err := parser.ParseFile(fset, filepath.Join(repo, "groupbalancer.go"), nil, 0)
	if err != nil {
		return err
	}
	var sb strings.Builder
	sb.WriteString("-- GENERATED by /verif/go/extract (groupbalancer) from /repo/groupbalancer.go, consumergroup.go — do not edit\n")
	sb.WriteString("namespace KV.Gen.GroupBalancer\n")
	rg := funcNamed(f, "RangeGroupBalancer", "AssignGroups")
	rr := funcNamed(f, "RoundRobinGroupBalancer", "AssignGroups")
	fm := funcNamed(f, "", "findMembersByTopic")
	at := funcNamed(f, "RackAffinityGroupBalancer", "assignTopic")
	ra := funcNamed(f, "RackAffinityGroupBalancer", "AssignGroups")
	if rg == nil || rr == nil || fm == nil || at == nil || ra == nil {
		return fmt.Errorf("a balancer function is missing from groupbalancer.go")
	}
	selParams := []string{"memberIndex", "partitionIndex", "memberCount", "partitionCount"}
	var plainLoops []string
	for _, b := range []struct {
		fd        *ast.FuncDecl
		name, doc string
	}{{rg, "rangeCond", "RangeGroupBalancer.AssignGroups"}, {rr, "rrCond", "RoundRobinGroupBalancer.AssignGroups"}} {
		c, plain, err := selectionCond(b.fd)
		if err != nil {
			return err
		}
		emitDef(&sb, b.name, selParams, c, b.doc+": the condition under which member `memberIndex` of the topic's sorted member list is given the listed partition number `partitionIndex` (locals inlined)")
		if plain {
			plainLoops = append(plainLoops, b.doc)
		}
	}
	fmt.Fprintf(&sb, "/-- functions of the shape `for topic, SUB := range findMembersByTopic(…) { PARTS := findPartitions(…); for i := range SUB { for j, p := range PARTS { if COND { … = append(…, p) } } } }` without break / continue / return -/\ndef plainSelectionLoops : List String := [%s]\n", quoteJoin(plainLoops))

	// ---- findMembersByTopic: sort.Slice(S, func(i, j) bool { return S[i].F < S[j].F }) for every value S of the returned map
	less, sortFacts, err := sortComparator(fm)
	if err != nil {
		return err
	}
	emitDef(&sb, "sortLess", []string{"elem_i_ID", "elem_j_ID"}, less, "findMembersByTopic: the comparator given to sort.Slice; elem_i / elem_j are elements i / j of the very slice being sorted (an element of any other slice is rendered `foreign_…`)")
	fmt.Fprintf(&sb, "/-- the sorted slice is the value variable of a loop over the map the function returns -/\ndef sortsEveryMapValue : Bool := %v\n", sortFacts)

	// ---- assignTopic arithmetic
	if err := rackArith(&sb, at); err != nil {
		return err
	}

	// ---- structural facts
	helper := prefixSearchHelper(f)
	var guardSites []string
	for _, site := range []struct {
		fd   *ast.FuncDecl
		name string
	}{{fm, "findMembersByTopic"}, {ra, "RackAffinityGroupBalancer.AssignGroups"}} {
		if helper != "" && hasTopicGuard(site.fd, helper) {
			guardSites = append(guardSites, site.name)
		}
	}
	fmt.Fprintf(&sb, "/-- functions whose only loop over a member's topic list is `for i, t := range m.Topics { if H(m.Topics, i) { continue }; … = append(…) }` where H(topics, i) is the helper that searches topics[:i] for topics[i] -/\ndef topicGuardSites : List String := [%s]\n", quoteJoin(guardSites))
	fmt.Fprintf(&sb, "/-- there is exactly one such helper `func H(topics []string, i int) bool { for _, t := range topics[:i] { if t == topics[i] { return true } }; return false }` -/\ndef topicListedBeforeIsPrefixSearch : Bool := %v\n", helper != "")
	cgf, err := parser.ParseFile(fset, filepath.Join(repo, "consumergroup.go"), nil, 0)
	if err != nil {
		return err
	}
	fmt.Fprintf(&sb, "/-- makeSyncGroupRequestV0: the map handed to groupAssignment{Topics: …} is made by the first statement of the body of the loop over the assignments parameter (a fresh map per member) and is defined nowhere else -/\ndef topics32FreshPerMember : Bool := %v\n", freshPerMember(funcNamed(cgf, "ConsumerGroup", "makeSyncGroupRequestV0")))
	// reader.go extractTopics / consumergroup.go makeAssignments: shapes the glue model relies on
	rdf, err := parser.ParseFile(fset, filepath.Join(repo, "reader.go"), nil, 0)
	if err != nil {
		return err
	}
	fmt.Fprintf(&sb, "/-- extractTopics: `for _, m := range members { for _, t := range m.Topics { if _, seen := VISITED[t]; seen { continue }; RESULT = append(RESULT, t); VISITED[t] = … } }; sort.Strings(RESULT); return RESULT` -/\ndef extractTopicsIsFirstSeenThenSorted : Bool := %v\n", extractTopicsShape(funcNamed(rdf, "", "extractTopics")))
	fmt.Fprintf(&sb, "/-- makeAssignments: the outer loop ranges over the group's OWN configured topics (`cg.config.Topics`) and looks the received assignment up by that topic; the inner loop appends one entry per received partition -/\ndef makeAssignmentsRangesOverOwnTopics : Bool := %v\n", makeAssignmentsShape(funcNamed(cgf, "ConsumerGroup", "makeAssignments")))
	fmt.Fprintf(&sb, "/-- assignTopicPartitions: MEMBERS := makeMemberProtocolMetadata(<param>.Members); TOPICS := extractTopics(MEMBERS); PARTS := <conn>.readPartitions(TOPICS...); … AssignGroups(MEMBERS, PARTS) — the same objects all the way -/\ndef assignTopicPartitionsDataflow : Bool := %v\n", assignDataflow(funcNamed(cgf, "ConsumerGroup", "assignTopicPartitions")))
	fmt.Fprintf(&sb, "/-- nextGeneration: (M, G, A) := joinGroup(conn, …); R := syncGroup(conn, M, G, A); O := fetchOffsets(conn, R); Generation{Assignments: makeAssignments(R, O)} — the SyncGroup carries the ids and the assignments of THIS JoinGroup, the generation holds what THIS SyncGroup returned -/\ndef nextGenerationDataflow : Bool := %v\n", nextGenerationDataflow(funcNamed(cgf, "ConsumerGroup", "nextGeneration")))
	// conn.go: the functions that turn a Metadata answer into partitions keep the other topics when one is unknown
	cnf, err := parser.ParseFile(fset, filepath.Join(repo, "conn.go"), nil, 0)
	if err != nil {
		return err
	}
	var keep []string
	nReaders := 0
	for _, d := range cnf.Decls {
		fd, ok := d.(*ast.FuncDecl)
		if !ok || fd.Body == nil || fd.Recv == nil || !turnsTopicMetadataIntoPartitions(fd) {
			continue
		}
		nReaders++
		if unknownTopicContinues(fd) {
			keep = append(keep, "v")
		}
	}
	fmt.Fprintf(&sb, "/-- conn.go: number of methods of the shape `for _, t := range topicMetadata { if <topic error concerns the connection> { … return nil, err }; for _, p := range t.Partitions { partitions = append(…) } }`, and how many of them start the error branch with `if <…> { err = …; continue }` (an unknown topic among several does not hide the others) -/\ndef topicMetadataReaders : Nat × Nat := (%d, %d)\n", nReaders, len(keep))
	sb.WriteString("end KV.Gen.GroupBalancer\n")
	out := filepath.Join(root, "lean", "KafkaVerif", "Gen", "GroupBalancerSel.lean")
	return os.WriteFile(out, []byte(sb.String()), 0o644)
}

// sortComparator finds the single sort.Slice call of the function.
func sortComparator(fd *ast.FuncDecl) (leanExpr, bool, error) {
	var call *ast.CallExpr
	var loop *ast.RangeStmt
	n := 0
	var walk func(nd ast.Node, enclosing *ast.RangeStmt)
	walk = func(nd ast.Node, enclosing *ast.RangeStmt) {
		ast.Inspect(nd, func(x ast.Node) bool {
			switch s := x.(type) {
			case *ast.RangeStmt:
				walk(s.Body, s)
				return false
			case *ast.CallExpr:
				if sel, ok := s.Fun.(*ast.SelectorExpr); ok && sel.Sel.Name == "Slice" {
					if p, ok := sel.X.(*ast.Ident); ok && p.Name == "sort" && p.Obj == nil {
						n++
						call, loop = s, enclosing
					}
				}
			}
			return true
		})
	}
	walk(fd.Body, nil)
	if n != 1 || len(call.Args) != 2 {
		return leanExpr{}, false, fmt.Errorf("findMembersByTopic: expected exactly one sort.Slice(slice, less)")
	}
	sorted := objOf(call.Args[0])
	fl, ok := call.Args[1].(*ast.FuncLit)
	if sorted == nil || !ok {
		return leanExpr{}, false, fmt.Errorf("findMembersByTopic: sort.Slice is not called on a local with a function literal")
	}
	var ps []*ast.Object
	for _, fld := range fl.Type.Params.List {
		for _, nm := range fld.Names {
			ps = append(ps, nm.Obj)
		}
	}
	if len(ps) != 2 || len(fl.Body.List) != 1 {
		return leanExpr{}, false, fmt.Errorf("findMembersByTopic: comparator is not `func(i, j int) bool { return … }`")
	}
	ret, ok := fl.Body.List[0].(*ast.ReturnStmt)
	if !ok || len(ret.Results) != 1 {
		return leanExpr{}, false, fmt.Errorf("findMembersByTopic: comparator body is not a single return")
	}
	r := newResolver()
	r.role[ps[0]], r.role[ps[1]] = "i", "j"
	r.elems[sorted] = "elem"
	c, err := r.toLean(ret.Results[0])
	if err != nil {
		return c, false, fmt.Errorf("findMembersByTopic comparator: %v", err)
	}
	// the sorted slice is the value of a loop over the returned map
	everyValue := false
	if loop != nil && objOf(loop.Value) == sorted {
		if m := objOf(loop.X); m != nil {
			ast.Inspect(fd.Body, func(x ast.Node) bool {
				if rs, ok := x.(*ast.ReturnStmt); ok && len(rs.Results) == 1 && objOf(rs.Results[0]) == m {
					everyValue = true
				}
				return true
			})
		}
	}
	return c, everyValue, nil
}

// rackArith extracts the integer arithmetic of assignTopic(members, partitions) over the roles nMembers, nPartitions
// (lengths of the two parameters), nZoneParts / nZoneConsumers (lengths of the zone loop's value and of the consumers
// looked up under the zone loop's key), and the locals target / remainder / ppm / leftover recognised by their definitions.
func rackArith(sb *strings.Builder, at *ast.FuncDecl) error {
	ps := paramObjs(at)
	if len(ps) != 2 {
		return fmt.Errorf("assignTopic: expected (members, partitions)")
	}
	r := newResolver()
	r.lenRole[ps[0]] = "nMembers"
	r.lenRole[ps[1]] = "nPartitions"
	// top-level `x := len(partitions) / len(members)` and `% `
	var target, remainder *ast.Object
	for _, s := range at.Body.List {
		a, ok := s.(*ast.AssignStmt)
		if !ok || a.Tok != token.DEFINE || len(a.Lhs) != 1 || len(a.Rhs) != 1 {
			continue
		}
		b, ok := a.Rhs[0].(*ast.BinaryExpr)
		if !ok {
			continue
		}
		e, err := r.toLean(b)
		if err != nil {
			continue
		}
		switch {
		case b.Op == token.QUO && target == nil:
			target = objOf(a.Lhs[0])
			emitDef(sb, "rackTarget", []string{"nPartitions", "nMembers"}, e, "assignTopic: the per-member target")
		case b.Op == token.REM && remainder == nil:
			remainder = objOf(a.Lhs[0])
			emitDef(sb, "rackRemainder", []string{"nPartitions", "nMembers"}, e, "assignTopic: the remainder")
		}
	}
	if target == nil || remainder == nil {
		return fmt.Errorf("assignTopic: target / remainder definitions not found")
	}
	r.role[target], r.role[remainder] = "target", "remainder"
	// the zone loop: the first top-level range with a key whose body defines the consumers by indexing with that key
	var zone *ast.RangeStmt
	var consumers *ast.Object
	for _, l := range directRanges(at.Body) {
		k := objOf(l.Key)
		if k == nil || objOf(l.Value) == nil {
			continue
		}
		for _, s := range l.Body.List {
			if a, ok := s.(*ast.AssignStmt); ok && a.Tok == token.DEFINE && len(a.Lhs) == 1 && len(a.Rhs) == 1 {
				if ix, ok := a.Rhs[0].(*ast.IndexExpr); ok && objOf(ix.Index) == k {
					zone, consumers = l, objOf(a.Lhs[0])
				}
			}
		}
		if zone != nil {
			break
		}
	}
	if zone == nil || consumers == nil {
		return fmt.Errorf("assignTopic: zone loop not found")
	}
	r.lenRole[objOf(zone.Value)] = "nZoneParts"
	r.lenRole[consumers] = "nZoneConsumers"
	var ppm, leftover *ast.Object
	var caps []string
	for _, s := range zone.Body.List {
		switch x := s.(type) {
		case *ast.AssignStmt:
			if x.Tok != token.DEFINE || len(x.Lhs) != 1 || len(x.Rhs) != 1 {
				continue
			}
			e, err := r.toLean(x.Rhs[0])
			if err != nil {
				continue
			}
			if b, ok := x.Rhs[0].(*ast.BinaryExpr); ok && b.Op == token.QUO && ppm == nil {
				ppm = objOf(x.Lhs[0])
				r.role[ppm] = "ppm"
				emitDef(sb, "rackPartsPerMember", []string{"nZoneParts", "nZoneConsumers"}, e, "assignTopic zone loop: partitions per consumer of the zone before the cap")
			} else if e.text == "nZoneParts" && leftover == nil && ppm != nil {
				leftover = objOf(x.Lhs[0])
				r.role[leftover] = "leftover"
			}
		}
	}
	if ppm == nil || leftover == nil {
		return fmt.Errorf("assignTopic: ppm / leftover definitions not found")
	}
	// every `if A > B { A = B }` and `if COND { … }` of the zone loop body, in source order, over the roles
	var visit func(list []ast.Stmt, guard string)
	visit = func(list []ast.Stmt, guard string) {
		for _, s := range list {
			if a, ok := s.(*ast.AssignStmt); ok && a.Tok == token.SUB_ASSIGN && len(a.Lhs) == 1 && len(a.Rhs) == 1 {
				l, e1 := r.toLean(a.Lhs[0])
				rh, e2 := r.toLean(a.Rhs[0])
				if e1 == nil && e2 == nil {
					caps = append(caps, guard+l.text+" -= "+rh.text)
				}
				continue
			}
			ifs, ok := s.(*ast.IfStmt)
			if !ok || ifs.Init != nil {
				continue
			}
			c, err := r.toLean(ifs.Cond)
			if err != nil {
				continue
			}
			if len(ifs.Body.List) == 1 {
				if a, ok := ifs.Body.List[0].(*ast.AssignStmt); ok && a.Tok == token.ASSIGN && len(a.Lhs) == 1 && len(a.Rhs) == 1 {
					l, e1 := r.toLean(a.Lhs[0])
					rh, e2 := r.toLean(a.Rhs[0])
					if e1 == nil && e2 == nil {
						caps = append(caps, guard+"if "+c.text+" then "+l.text+" := "+rh.text)
						continue
					}
				}
			}
			if ifs.Else == nil {
				visit(ifs.Body.List, guard+"under "+c.text+": ")
			}
		}
	}
	visit(zone.Body.List, "")
	fmt.Fprintf(sb, "/-- assignTopic zone loop: the caps and the remainder accounting, in source order, over the roles (nZoneParts = len of the zone's partitions, nZoneConsumers = len of the zone's consumers, ppm, leftover, target, remainder) -/\ndef rackCaps : List String := [%s]\n", quoteJoin(caps))
	return nil
}

// prefixSearchHelper returns the name of the unique package-level function of the shape
// func H(topics []string, i int) bool { for _, t := range topics[:i] { if t == topics[i] { return true } }; return false }.
func prefixSearchHelper(f *ast.File) string {
	name, n := "", 0
	for _, d := range f.Decls {
		if fd, ok := d.(*ast.FuncDecl); ok && fd.Recv == nil && fd.Body != nil && isPrefixSearch(fd) {
			name = fd.Name.Name
			n++
		}
	}
	if n != 1 {
		return ""
	}
	return name
}

func isPrefixSearch(fd *ast.FuncDecl) bool {
	ps := paramObjs(fd)
	if len(ps) != 2 || len(fd.Body.List) != 2 {
		return false
	}
	rs, ok := fd.Body.List[0].(*ast.RangeStmt)
	ret, ok2 := fd.Body.List[1].(*ast.ReturnStmt)
	if !ok || !ok2 || len(ret.Results) != 1 || len(rs.Body.List) != 1 {
		return false
	}
	if id, _ := ret.Results[0].(*ast.Ident); id == nil || id.Name != "false" || id.Obj != nil {
		return false
	}
	sl, ok := rs.X.(*ast.SliceExpr)
	val := objOf(rs.Value)
	if !ok || val == nil || sl.Low != nil || sl.Max != nil || objOf(sl.X) != ps[0] || objOf(sl.High) != ps[1] {
		return false
	}
	ifs, ok := rs.Body.List[0].(*ast.IfStmt)
	if !ok || ifs.Init != nil || ifs.Else != nil || len(ifs.Body.List) != 1 {
		return false
	}
	r2, ok := ifs.Body.List[0].(*ast.ReturnStmt)
	if !ok || len(r2.Results) != 1 {
		return false
	}
	if id, _ := r2.Results[0].(*ast.Ident); id == nil || id.Name != "true" || id.Obj != nil {
		return false
	}
	b, ok := ifs.Cond.(*ast.BinaryExpr)
	if !ok || b.Op != token.EQL {
		return false
	}
	isElem := func(e ast.Expr) bool {
		ix, ok := e.(*ast.IndexExpr)
		return ok && objOf(ix.X) == ps[0] && objOf(ix.Index) == ps[1]
	}
	return (objOf(b.X) == val && isElem(b.Y)) || (objOf(b.Y) == val && isElem(b.X))
}

// hasTopicGuard: the function has exactly one `for i, t := range X.Topics` loop, whose body is
// `if helper(X.Topics, i) { continue }` followed by one append assignment.
func hasTopicGuard(fd *ast.FuncDecl, helper string) bool {
	n, ok := 0, false
	ast.Inspect(fd.Body, func(nd ast.Node) bool {
		rs, isRange := nd.(*ast.RangeStmt)
		if !isRange {
			return true
		}
		sel, isSel := rs.X.(*ast.SelectorExpr)
		if !isSel || sel.Sel.Name != "Topics" {
			return true
		}
		n++
		key := objOf(rs.Key)
		if key == nil || len(rs.Body.List) != 2 {
			return true
		}
		ifs, isIf := rs.Body.List[0].(*ast.IfStmt)
		if !isIf || ifs.Init != nil || ifs.Else != nil || len(ifs.Body.List) != 1 {
			return true
		}
		br, isBr := ifs.Body.List[0].(*ast.BranchStmt)
		call, isCall := ifs.Cond.(*ast.CallExpr)
		if !isBr || br.Tok != token.CONTINUE || !isCall || len(call.Args) != 2 || !calls(call, helper) {
			return true
		}
		a0, isSel0 := call.Args[0].(*ast.SelectorExpr)
		if !isSel0 || a0.Sel.Name != "Topics" || objOf(a0.X) == nil || objOf(a0.X) != objOf(sel.X) || objOf(call.Args[1]) != key {
			return true
		}
		if as, isAs := rs.Body.List[1].(*ast.AssignStmt); isAs && len(as.Rhs) == 1 && calls(as.Rhs[0], "append") {
			ok = true
		}
		return true
	})
	return n == 1 && ok
}

// freshPerMember: in makeSyncGroupRequestV0 the map given to the composite literal's Topics field is defined exactly
// once, by `:= make(…)` as the first statement of the body of the loop over the assignments PARAMETER.
func freshPerMember(fd *ast.FuncDecl) bool {
	if fd == nil {
		return false
	}
	params := map[*ast.Object]bool{}
	for _, o := range paramObjs(fd) {
		params[o] = true
	}
	// the map used as Topics: …
	var topics *ast.Object
	nLit := 0
	ast.Inspect(fd.Body, func(nd ast.Node) bool {
		if kv, ok := nd.(*ast.KeyValueExpr); ok {
			if k, ok := kv.Key.(*ast.Ident); ok && k.Name == "Topics" {
				nLit++
				topics = objOf(kv.Value)
			}
		}
		return true
	})
	if nLit != 1 || topics == nil {
		return false
	}
	defs, inLoopFirst := 0, false
	ast.Inspect(fd.Body, func(nd ast.Node) bool {
		switch x := nd.(type) {
		case *ast.AssignStmt:
			for _, l := range x.Lhs {
				if objOf(l) == topics {
					defs++
				}
			}
		case *ast.RangeStmt:
			if params[objOf(x.X)] && len(x.Body.List) > 0 {
				if a, ok := x.Body.List[0].(*ast.AssignStmt); ok && a.Tok == token.DEFINE && len(a.Lhs) == 1 && len(a.Rhs) == 1 &&
					objOf(a.Lhs[0]) == topics && calls(a.Rhs[0], "make") {
					inLoopFirst = true
				}
			}
		}
		return true
	})
	return defs == 1 && inLoopFirst
}

// turnsTopicMetadataIntoPartitions: the method's body is one range loop over a parameter followed by a return; the loop
// body is an if (whose last statement returns two values) followed by a range loop that appends.
func turnsTopicMetadataIntoPartitions(fd *ast.FuncDecl) bool {
	if len(fd.Body.List) != 2 {
		return false
	}
	rs, ok := fd.Body.List[0].(*ast.RangeStmt)
	if _, isRet := fd.Body.List[1].(*ast.ReturnStmt); !ok || !isRet || len(rs.Body.List) != 2 {
		return false
	}
	isParam := false
	for _, o := range paramObjs(fd) {
		if o == objOf(rs.X) && o != nil {
			isParam = true
		}
	}
	ifs, ok := rs.Body.List[0].(*ast.IfStmt)
	inner, ok2 := rs.Body.List[1].(*ast.RangeStmt)
	if !isParam || !ok || !ok2 || len(ifs.Body.List) == 0 {
		return false
	}
	ret, ok := ifs.Body.List[len(ifs.Body.List)-1].(*ast.ReturnStmt)
	if !ok || len(ret.Results) != 2 {
		return false
	}
	if sel, ok := inner.X.(*ast.SelectorExpr); !ok || objOf(sel.X) != objOf(rs.Value) || objOf(rs.Value) == nil {
		return false
	}
	appends := false
	ast.Inspect(inner.Body, func(n ast.Node) bool {
		if c, ok := n.(*ast.CallExpr); ok && calls(c, "append") {
			appends = true
		}
		return true
	})
	return appends
}

// unknownTopicContinues: the error branch starts with `if … { <named result> = …; continue }`.
func unknownTopicContinues(fd *ast.FuncDecl) bool {
	rs := fd.Body.List[0].(*ast.RangeStmt)
	ifs := rs.Body.List[0].(*ast.IfStmt)
	if len(ifs.Body.List) < 2 {
		return false
	}
	in, ok := ifs.Body.List[0].(*ast.IfStmt)
	if !ok || in.Else != nil || len(in.Body.List) != 2 {
		return false
	}
	as, ok1 := in.Body.List[0].(*ast.AssignStmt)
	br, ok2 := in.Body.List[1].(*ast.BranchStmt)
	if !ok1 || !ok2 || br.Tok != token.CONTINUE || as.Tok != token.ASSIGN || len(as.Lhs) != 1 {
		return false
	}
	// the assigned variable is a named result of the function
	if fd.Type.Results == nil {
		return false
	}
	for _, f := range fd.Type.Results.List {
		for _, n := range f.Names {
			if n.Obj != nil && n.Obj == objOf(as.Lhs[0]) {
				return true
			}
		}
	}
	return false
}

func extractTopicsShape(fd *ast.FuncDecl) bool {
	if fd == nil {
		return false
	}
	ps := paramObjs(fd)
	outer := directRanges(fd.Body)
	if len(ps) != 1 || len(outer) != 1 || objOf(outer[0].X) != ps[0] {
		return false
	}
	inner := directRanges(outer[0].Body)
	if len(inner) != 1 || len(inner[0].Body.List) != 3 {
		return false
	}
	sel, ok := inner[0].X.(*ast.SelectorExpr)
	if !ok || sel.Sel.Name != "Topics" || objOf(sel.X) != objOf(outer[0].Value) {
		return false
	}
	topic := objOf(inner[0].Value)
	// 1: if _, seen := visited[topic]; seen { continue }
	ifs, ok := inner[0].Body.List[0].(*ast.IfStmt)
	if !ok || ifs.Init == nil || ifs.Else != nil || len(ifs.Body.List) != 1 {
		return false
	}
	br, ok := ifs.Body.List[0].(*ast.BranchStmt)
	init, ok2 := ifs.Init.(*ast.AssignStmt)
	if !ok || !ok2 || br.Tok != token.CONTINUE || len(init.Lhs) != 2 || len(init.Rhs) != 1 || objOf(ifs.Cond) == nil || objOf(ifs.Cond) != objOf(init.Lhs[1]) {
		return false
	}
	ix, ok := init.Rhs[0].(*ast.IndexExpr)
	if !ok || objOf(ix.Index) != topic || topic == nil {
		return false
	}
	visited := objOf(ix.X)
	// 2: result = append(result, topic)
	as, ok := inner[0].Body.List[1].(*ast.AssignStmt)
	if !ok || len(as.Lhs) != 1 || len(as.Rhs) != 1 || !calls(as.Rhs[0], "append") {
		return false
	}
	call := as.Rhs[0].(*ast.CallExpr)
	result := objOf(as.Lhs[0])
	if result == nil || len(call.Args) != 2 || objOf(call.Args[0]) != result || objOf(call.Args[1]) != topic {
		return false
	}
	// 3: visited[topic] = …
	as3, ok := inner[0].Body.List[2].(*ast.AssignStmt)
	if !ok || len(as3.Lhs) != 1 {
		return false
	}
	ix3, ok := as3.Lhs[0].(*ast.IndexExpr)
	if !ok || objOf(ix3.X) != visited || visited == nil || objOf(ix3.Index) != topic {
		return false
	}
	// afterwards: sort.Strings(result) and return result
	sorted, returned := false, false
	for _, st := range fd.Body.List {
		switch x := st.(type) {
		case *ast.ExprStmt:
			if c, ok := x.X.(*ast.CallExpr); ok {
				if se, ok := c.Fun.(*ast.SelectorExpr); ok && se.Sel.Name == "Strings" && len(c.Args) == 1 && objOf(c.Args[0]) == result {
					sorted = true
				}
			}
		case *ast.ReturnStmt:
			if len(x.Results) == 1 && objOf(x.Results[0]) == result {
				returned = true
			}
		}
	}
	return sorted && returned
}

func makeAssignmentsShape(fd *ast.FuncDecl) bool {
	if fd == nil || fd.Recv == nil || len(fd.Recv.List) != 1 || len(fd.Recv.List[0].Names) != 1 {
		return false
	}
	recv := fd.Recv.List[0].Names[0].Obj
	ps := paramObjs(fd)
	outer := directRanges(fd.Body)
	if len(ps) != 2 || len(outer) != 1 {
		return false
	}
	// range over <recv>.config.Topics
	s1, ok := outer[0].X.(*ast.SelectorExpr)
	if !ok || s1.Sel.Name != "Topics" {
		return false
	}
	s2, ok := s1.X.(*ast.SelectorExpr)
	if !ok || objOf(s2.X) != recv || recv == nil {
		return false
	}
	topic := objOf(outer[0].Value)
	// some statement defines X := <first parameter>[topic], and the only inner loop ranges over X and appends
	var looked *ast.Object
	for _, st := range outer[0].Body.List {
		if a, ok := st.(*ast.AssignStmt); ok && a.Tok == token.DEFINE && len(a.Lhs) == 1 && len(a.Rhs) == 1 {
			if ix, ok := a.Rhs[0].(*ast.IndexExpr); ok && objOf(ix.X) == ps[0] && objOf(ix.Index) == topic && topic != nil {
				looked = objOf(a.Lhs[0])
			}
		}
	}
	inner := directRanges(outer[0].Body)
	if looked == nil || len(inner) != 1 || objOf(inner[0].X) != looked {
		return false
	}
	appends := false
	ast.Inspect(inner[0].Body, func(n ast.Node) bool {
		if c, ok := n.(*ast.CallExpr); ok && calls(c, "append") {
			appends = true
		}
		return true
	})
	return appends && !hasEarlyExit(outer[0].Body)
}

// callTo returns the call expression if e is `<anything>.name(args…)` or `name(args…)`.
func callTo(e ast.Expr, name string) *ast.CallExpr {
	c, ok := e.(*ast.CallExpr)
	if !ok {
		return nil
	}
	switch f := c.Fun.(type) {
	case *ast.Ident:
		if f.Name == name {
			return c
		}
	case *ast.SelectorExpr:
		if f.Sel.Name == name {
			return c
		}
	}
	return nil
}

// assignedFrom finds the statement `lhs… := / = <call to name>` in the body (any depth) and returns the objects on
// its left-hand side and the call; nil if there is not exactly one.
func assignedFrom(body *ast.BlockStmt, name string) ([]*ast.Object, *ast.CallExpr) {
	var objs []*ast.Object
	var call *ast.CallExpr
	n := 0
	ast.Inspect(body, func(nd ast.Node) bool {
		if a, ok := nd.(*ast.AssignStmt); ok && len(a.Rhs) == 1 {
			if c := callTo(a.Rhs[0], name); c != nil {
				n++
				call = c
				objs = nil
				for _, l := range a.Lhs {
					objs = append(objs, objOf(l))
				}
			}
		}
		return true
	})
	if n != 1 {
		return nil, nil
	}
	return objs, call
}

func assignDataflow(fd *ast.FuncDecl) bool {
	if fd == nil {
		return false
	}
	params := paramObjs(fd)
	mem, c1 := assignedFrom(fd.Body, "makeMemberProtocolMetadata")
	if c1 == nil || len(mem) < 1 || mem[0] == nil || len(c1.Args) != 1 {
		return false
	}
	// argument: <a parameter>.Members
	sel, ok := c1.Args[0].(*ast.SelectorExpr)
	if !ok || sel.Sel.Name != "Members" {
		return false
	}
	isParam := false
	for _, p := range params {
		if p != nil && p == objOf(sel.X) {
			isParam = true
		}
	}
	top, c2 := assignedFrom(fd.Body, "extractTopics")
	if !isParam || c2 == nil || len(top) != 1 || top[0] == nil || len(c2.Args) != 1 || objOf(c2.Args[0]) != mem[0] {
		return false
	}
	prt, c3 := assignedFrom(fd.Body, "readPartitions")
	if c3 == nil || len(prt) < 1 || prt[0] == nil || len(c3.Args) != 1 || !c3.Ellipsis.IsValid() || objOf(c3.Args[0]) != top[0] {
		return false
	}
	ok = false
	n := 0
	ast.Inspect(fd.Body, func(nd ast.Node) bool {
		if c, isCall := nd.(*ast.CallExpr); isCall {
			if cc := callTo(c, "AssignGroups"); cc != nil {
				n++
				ok = len(cc.Args) == 2 && objOf(cc.Args[0]) == mem[0] && objOf(cc.Args[1]) == prt[0]
			}
		}
		return true
	})
	return ok && n == 1
}

func nextGenerationDataflow(fd *ast.FuncDecl) bool {
	if fd == nil {
		return false
	}
	j, cj := assignedFrom(fd.Body, "joinGroup")
	if cj == nil || len(j) != 4 || j[0] == nil || j[1] == nil || j[2] == nil {
		return false
	}
	r, cs := assignedFrom(fd.Body, "syncGroup")
	if cs == nil || len(r) != 2 || r[0] == nil || len(cs.Args) != 4 ||
		objOf(cs.Args[1]) != j[0] || objOf(cs.Args[2]) != j[1] || objOf(cs.Args[3]) != j[2] {
		return false
	}
	o, cf := assignedFrom(fd.Body, "fetchOffsets")
	if cf == nil || len(o) != 2 || o[0] == nil || len(cf.Args) != 2 || objOf(cf.Args[1]) != r[0] {
		return false
	}
	ok, n := false, 0
	ast.Inspect(fd.Body, func(nd ast.Node) bool {
		if kv, isKV := nd.(*ast.KeyValueExpr); isKV {
			if k, _ := kv.Key.(*ast.Ident); k != nil && k.Name == "Assignments" {
				if c := callTo(kv.Value, "makeAssignments"); c != nil {
					n++
					ok = len(c.Args) == 2 && objOf(c.Args[0]) == r[0] && objOf(c.Args[1]) == o[0]
				}
			}
		}
		return true
	})
	return ok && n == 1
}
