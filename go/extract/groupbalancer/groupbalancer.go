package main

// Translator for property C14: re-emits the index arithmetic and the selection / ordering predicates of
// /repo/groupbalancer.go as Lean definitions (Gen/GroupBalancerSel.lean).  Props/C14.lean proves that the
// model's predicates are these generated ones, so `lake build` re-checks the model against the source text on
// every run.  Only parses (go/ast); never executes the code under test.
//
// Go `int` expressions over indices and lengths are rendered over `Nat` (all operands are non-negative and
// products of an index and a length do not overflow int64 for real slices — recorded as an assumption).

import (
	"fmt"
	"go/ast"
	"go/parser"
	"go/token"
	"os"
	"path/filepath"
	"strings"
)

func init() { extractors["groupbalancer"] = extractGroupBalancer }

type leanExpr struct {
	text   string
	isBool bool
	vars   []string
}

func mergeVars(a, b []string) []string {
	out := append([]string{}, a...)
	for _, v := range b {
		dup := false
		for _, w := range out {
			if w == v {
				dup = true
			}
		}
		if !dup {
			out = append(out, v)
		}
	}
	return out
}

// atomName renders identifiers, len(x), x[i].F as a Lean variable name.
func atomName(e ast.Expr) (string, bool) {
	switch x := e.(type) {
	case *ast.Ident:
		return x.Name, true
	case *ast.CallExpr:
		if id, ok := x.Fun.(*ast.Ident); ok && id.Name == "len" && len(x.Args) == 1 {
			if n, ok := atomName(x.Args[0]); ok {
				return "len_" + n, true
			}
		}
	case *ast.SelectorExpr:
		if n, ok := atomName(x.X); ok {
			return n + "_" + x.Sel.Name, true
		}
	case *ast.IndexExpr:
		n, ok1 := atomName(x.X)
		i, ok2 := atomName(x.Index)
		if ok1 && ok2 {
			return n + "_" + i, true
		}
	}
	return "", false
}

func toLean(e ast.Expr) (leanExpr, error) {
	switch x := e.(type) {
	case *ast.ParenExpr:
		in, err := toLean(x.X)
		if err != nil {
			return in, err
		}
		return leanExpr{"(" + in.text + ")", in.isBool, in.vars}, nil
	case *ast.BasicLit:
		if x.Kind == token.INT {
			return leanExpr{x.Value, false, nil}, nil
		}
	case *ast.BinaryExpr:
		l, err := toLean(x.X)
		if err != nil {
			return l, err
		}
		r, err := toLean(x.Y)
		if err != nil {
			return r, err
		}
		vars := mergeVars(l.vars, r.vars)
		switch x.Op {
		case token.ADD, token.MUL, token.QUO, token.REM:
			if l.isBool || r.isBool {
				return leanExpr{}, fmt.Errorf("arithmetic on a boolean")
			}
			return leanExpr{l.text + " " + x.Op.String() + " " + r.text, false, vars}, nil
		case token.LSS, token.LEQ, token.GTR, token.GEQ:
			op := map[token.Token]string{token.LSS: "<", token.LEQ: "≤", token.GTR: ">", token.GEQ: "≥"}[x.Op]
			return leanExpr{"decide (" + l.text + " " + op + " " + r.text + ")", true, vars}, nil
		case token.EQL:
			return leanExpr{"(" + l.text + " == " + r.text + ")", true, vars}, nil
		case token.NEQ:
			return leanExpr{"(" + l.text + " != " + r.text + ")", true, vars}, nil
		case token.LAND, token.LOR:
			if !l.isBool || !r.isBool {
				return leanExpr{}, fmt.Errorf("logical operator on a non-boolean")
			}
			op := "&&"
			if x.Op == token.LOR {
				op = "||"
			}
			return leanExpr{"(" + l.text + " " + op + " " + r.text + ")", true, vars}, nil
		}
		return leanExpr{}, fmt.Errorf("untranslated operator %s", x.Op)
	}
	if n, ok := atomName(e); ok {
		return leanExpr{n, false, []string{n}}, nil
	}
	return leanExpr{}, fmt.Errorf("untranslated expression %T", e)
}

func funcNamed(f *ast.File, recv, name string) *ast.FuncDecl {
	for _, d := range f.Decls {
		fd, ok := d.(*ast.FuncDecl)
		if !ok || fd.Body == nil || fd.Name.Name != name {
			continue
		}
		r := ""
		if fd.Recv != nil && len(fd.Recv.List) == 1 {
			switch t := fd.Recv.List[0].Type.(type) {
			case *ast.Ident:
				r = t.Name
			case *ast.StarExpr:
				if id, ok := t.X.(*ast.Ident); ok {
					r = id.Name
				}
			}
		}
		if r == recv {
			return fd
		}
	}
	return nil
}

// firstDefine returns the right-hand side of the first `name := expr` in the function.
func firstDefine(fd *ast.FuncDecl, name string) ast.Expr {
	var res ast.Expr
	ast.Inspect(fd.Body, func(n ast.Node) bool {
		if res != nil {
			return false
		}
		if a, ok := n.(*ast.AssignStmt); ok && a.Tok == token.DEFINE && len(a.Lhs) == 1 && len(a.Rhs) == 1 {
			if id, ok := a.Lhs[0].(*ast.Ident); ok && id.Name == name {
				res = a.Rhs[0]
			}
		}
		return true
	})
	return res
}

func mentions(e ast.Expr, name string) bool {
	found := false
	ast.Inspect(e, func(n ast.Node) bool {
		if id, ok := n.(*ast.Ident); ok && id.Name == name {
			found = true
		}
		return true
	})
	return found
}

// ifConds returns the conditions of all if statements of the function that mention `name`.
func ifConds(fd *ast.FuncDecl, name string) []ast.Expr {
	var res []ast.Expr
	ast.Inspect(fd.Body, func(n ast.Node) bool {
		if s, ok := n.(*ast.IfStmt); ok && s.Init == nil && mentions(s.Cond, name) {
			res = append(res, s.Cond)
		}
		return true
	})
	return res
}

func extractGroupBalancer(repo, root string) error {
	fset := token.NewFileSet()
	f, err := parser.ParseFile(fset, filepath.Join(repo, "groupbalancer.go"), nil, 0)
	if err != nil {
		return err
	}
	var sb strings.Builder
	sb.WriteString("-- GENERATED by /verif/go/extract (groupbalancer) from /repo/groupbalancer.go — do not edit\n")
	sb.WriteString("namespace KV.Gen.GroupBalancer\n")
	emit := func(name string, e ast.Expr, what string) error {
		if e == nil {
			return fmt.Errorf("%s: not found in groupbalancer.go", what)
		}
		le, err := toLean(e)
		if err != nil {
			return fmt.Errorf("%s: %v", what, err)
		}
		ty := "Nat"
		if le.isBool {
			ty = "Bool"
		}
		args := ""
		if len(le.vars) > 0 {
			args = " (" + strings.Join(le.vars, " ") + " : Nat)"
		}
		fmt.Fprintf(&sb, "/-- %s -/\ndef %s%s : %s := %s\n", what, name, args, ty, le.text)
		return nil
	}
	one := func(es []ast.Expr) ast.Expr {
		if len(es) == 1 {
			return es[0]
		}
		return nil
	}
	rg := funcNamed(f, "RangeGroupBalancer", "AssignGroups")
	rr := funcNamed(f, "RoundRobinGroupBalancer", "AssignGroups")
	fm := funcNamed(f, "", "findMembersByTopic")
	at := funcNamed(f, "RackAffinityGroupBalancer", "assignTopic")
	if rg == nil || rr == nil || fm == nil || at == nil {
		return fmt.Errorf("a balancer function is missing from groupbalancer.go")
	}
	if err := emit("rangeMin", firstDefine(rg, "minIndex"), "RangeGroupBalancer.AssignGroups: minIndex :="); err != nil {
		return err
	}
	if err := emit("rangeMax", firstDefine(rg, "maxIndex"), "RangeGroupBalancer.AssignGroups: maxIndex :="); err != nil {
		return err
	}
	if err := emit("rangeCond", one(ifConds(rg, "partitionIndex")), "RangeGroupBalancer.AssignGroups: the only `if` on partitionIndex"); err != nil {
		return err
	}
	if err := emit("rrCond", one(ifConds(rr, "partitionIndex")), "RoundRobinGroupBalancer.AssignGroups: the only `if` on partitionIndex"); err != nil {
		return err
	}
	// the comparator passed to sort.Slice
	var less ast.Expr
	nLits := 0
	ast.Inspect(fm.Body, func(n ast.Node) bool {
		if fl, ok := n.(*ast.FuncLit); ok {
			nLits++
			if len(fl.Body.List) == 1 {
				if r, ok := fl.Body.List[0].(*ast.ReturnStmt); ok && len(r.Results) == 1 {
					less = r.Results[0]
				}
			}
		}
		return true
	})
	if nLits != 1 {
		less = nil
	}
	if err := emit("sortLess", less, "findMembersByTopic: the comparator given to sort.Slice"); err != nil {
		return err
	}
	if err := emit("rackTarget", firstDefine(at, "targetPerMember"), "assignTopic: targetPerMember :="); err != nil {
		return err
	}
	if err := emit("rackRemainder", firstDefine(at, "remainder"), "assignTopic: remainder :="); err != nil {
		return err
	}
	if err := emit("rackPartsPerMember", firstDefine(at, "partsPerMember"), "assignTopic: partsPerMember :="); err != nil {
		return err
	}
	// the caps inside the zone loop, in source order
	caps := map[string]string{}
	ast.Inspect(at.Body, func(n ast.Node) bool {
		if s, ok := n.(*ast.IfStmt); ok && s.Init == nil && len(s.Body.List) == 1 {
			if a, ok := s.Body.List[0].(*ast.AssignStmt); ok && a.Tok == token.ASSIGN && len(a.Lhs) == 1 && len(a.Rhs) == 1 {
				l, ok1 := atomName(a.Lhs[0])
				r, ok2 := atomName(a.Rhs[0])
				if c, err := toLean(s.Cond); err == nil && ok1 && ok2 {
					caps[l+"<-"+r] = c.text + " -- vars: " + strings.Join(c.vars, " ")
					name := "cap_" + l + "_" + r
					fmt.Fprintf(&sb, "/-- assignTopic: `if … { %s = %s }` -/\ndef %s (%s : Nat) : Bool := %s\n", l, r, name, strings.Join(c.vars, " "), c.text)
				}
			}
		}
		return true
	})
	for _, want := range []string{"partsPerMember<-targetPerMember", "leftover<-remainder", "leftover<-len_consumers"} {
		if _, ok := caps[want]; !ok {
			return fmt.Errorf("assignTopic: cap %s not found", want)
		}
	}
	// structural facts -----------------------------------------------------------------------------------------
	// (a) the loops that enter a member under its topics skip a topic the member already listed
	var guardSites []string
	for _, site := range []struct {
		fd   *ast.FuncDecl
		name string
	}{{fm, "findMembersByTopic"}, {funcNamed(f, "RackAffinityGroupBalancer", "AssignGroups"), "RackAffinityGroupBalancer.AssignGroups"}} {
		if site.fd != nil && hasTopicGuard(site.fd) {
			guardSites = append(guardSites, site.name)
		}
	}
	fmt.Fprintf(&sb, "/-- functions whose `for i, t := range m.Topics` loop starts with `if topicListedBefore(m.Topics, i) { continue }` and then appends the member -/\ndef topicGuardSites : List String := [%s]\n", quoteJoin(guardSites))
	fmt.Fprintf(&sb, "/-- topicListedBefore(topics, i) is `for _, t := range topics[:i] { if t == topics[i] { return true } }; return false` -/\ndef topicListedBeforeIsPrefixSearch : Bool := %v\n", isPrefixSearch(funcNamed(f, "", "topicListedBefore")))
	// (b) consumergroup.go makeSyncGroupRequestV0: the per-member map is allocated inside the loop over the members
	cgf, err := parser.ParseFile(fset, filepath.Join(repo, "consumergroup.go"), nil, 0)
	if err != nil {
		return err
	}
	fmt.Fprintf(&sb, "/-- makeSyncGroupRequestV0: `topics32 := make(map[string][]int32)` is the first statement of the body of `for memberID, topics := range memberAssignments` (a fresh map per member) and is defined nowhere else -/\ndef topics32FreshPerMember : Bool := %v\n", freshPerMember(funcNamed(cgf, "ConsumerGroup", "makeSyncGroupRequestV0")))
	sb.WriteString("end KV.Gen.GroupBalancer\n")
	out := filepath.Join(root, "lean", "KafkaVerif", "Gen", "GroupBalancerSel.lean")
	return os.WriteFile(out, []byte(sb.String()), 0o644)
}

func quoteJoin(xs []string) string {
	q := make([]string, len(xs))
	for i, x := range xs {
		q[i] = "\"" + x + "\""
	}
	return strings.Join(q, ", ")
}

// hasTopicGuard: the function has exactly one `for i, t := range X.Topics` loop, whose body is
// `if topicListedBefore(X.Topics, i) { continue }` followed by one append assignment.
func hasTopicGuard(fd *ast.FuncDecl) bool {
	n, ok := 0, false
	ast.Inspect(fd.Body, func(nd ast.Node) bool {
		rs, isRange := nd.(*ast.RangeStmt)
		if !isRange {
			return true
		}
		sel, isSel := rs.X.(*ast.SelectorExpr)
		if !isSel || sel.Sel.Name != "Topics" {
			return true
		}
		n++
		key, _ := rs.Key.(*ast.Ident)
		if key == nil || key.Name == "_" || len(rs.Body.List) != 2 {
			return true
		}
		ifs, isIf := rs.Body.List[0].(*ast.IfStmt)
		if !isIf || ifs.Init != nil || ifs.Else != nil || len(ifs.Body.List) != 1 {
			return true
		}
		br, isBr := ifs.Body.List[0].(*ast.BranchStmt)
		call, isCall := ifs.Cond.(*ast.CallExpr)
		if !isBr || br.Tok != token.CONTINUE || !isCall || len(call.Args) != 2 {
			return true
		}
		fn, _ := call.Fun.(*ast.Ident)
		a0, ok0 := atomName(call.Args[0])
		x0, okx := atomName(rs.X)
		a1, _ := call.Args[1].(*ast.Ident)
		if fn == nil || fn.Name != "topicListedBefore" || !ok0 || !okx || a0 != x0 || a1 == nil || a1.Name != key.Name {
			return true
		}
		as, isAs := rs.Body.List[1].(*ast.AssignStmt)
		if isAs && len(as.Rhs) == 1 {
			if c, isC := as.Rhs[0].(*ast.CallExpr); isC {
				if id, _ := c.Fun.(*ast.Ident); id != nil && id.Name == "append" {
					ok = true
				}
			}
		}
		return true
	})
	return n == 1 && ok
}

func isPrefixSearch(fd *ast.FuncDecl) bool {
	if fd == nil || len(fd.Body.List) != 2 || fd.Type.Params == nil || len(fd.Type.Params.List) != 2 {
		return false
	}
	ts, i := fd.Type.Params.List[0].Names[0].Name, fd.Type.Params.List[1].Names[0].Name
	rs, ok := fd.Body.List[0].(*ast.RangeStmt)
	ret, ok2 := fd.Body.List[1].(*ast.ReturnStmt)
	if !ok || !ok2 || len(ret.Results) != 1 || len(rs.Body.List) != 1 {
		return false
	}
	if id, _ := ret.Results[0].(*ast.Ident); id == nil || id.Name != "false" {
		return false
	}
	sl, ok := rs.X.(*ast.SliceExpr)
	val, _ := rs.Value.(*ast.Ident)
	if !ok || val == nil || sl.Low != nil || sl.Max != nil {
		return false
	}
	if x, _ := sl.X.(*ast.Ident); x == nil || x.Name != ts {
		return false
	}
	if h, _ := sl.High.(*ast.Ident); h == nil || h.Name != i {
		return false
	}
	ifs, ok := rs.Body.List[0].(*ast.IfStmt)
	if !ok || ifs.Init != nil || ifs.Else != nil || len(ifs.Body.List) != 1 {
		return false
	}
	r2, ok := ifs.Body.List[0].(*ast.ReturnStmt)
	if !ok || len(r2.Results) != 1 {
		return false
	}
	if id, _ := r2.Results[0].(*ast.Ident); id == nil || id.Name != "true" {
		return false
	}
	c, err := toLean(ifs.Cond)
	return err == nil && c.text == "("+val.Name+" == "+ts+"_"+i+")"
}

// freshPerMember: in makeSyncGroupRequestV0 the only definition of topics32 is the first statement of the body of the
// range over memberAssignments.
func freshPerMember(fd *ast.FuncDecl) bool {
	if fd == nil {
		return false
	}
	defs, inLoopFirst := 0, false
	ast.Inspect(fd.Body, func(nd ast.Node) bool {
		switch x := nd.(type) {
		case *ast.AssignStmt:
			for _, l := range x.Lhs {
				if id, _ := l.(*ast.Ident); id != nil && id.Name == "topics32" {
					defs++
				}
			}
		case *ast.ValueSpec:
			for _, nm := range x.Names {
				if nm.Name == "topics32" {
					defs++
				}
			}
		case *ast.RangeStmt:
			if id, _ := x.X.(*ast.Ident); id != nil && id.Name == "memberAssignments" && len(x.Body.List) > 0 {
				if a, ok := x.Body.List[0].(*ast.AssignStmt); ok && a.Tok == token.DEFINE && len(a.Lhs) == 1 && len(a.Rhs) == 1 {
					l, _ := a.Lhs[0].(*ast.Ident)
					c, _ := a.Rhs[0].(*ast.CallExpr)
					if l != nil && l.Name == "topics32" && c != nil {
						if mk, _ := c.Fun.(*ast.Ident); mk != nil && mk.Name == "make" {
							inLoopFirst = true
						}
					}
				}
			}
		}
		return true
	})
	return defs == 1 && inLoopFirst
}
