package main

// Normalisation of the functions the decoder extractor reads, so that behaviour-preserving "extract" refactorings do
// not change any fact:
//
//	N1  a call to a helper whose body is `return <expr>` is replaced by that expression
//	N2  `x := e` immediately followed by the only statement that uses x (once) is folded into that statement
//	N3  a call statement to a helper without results and without return statements is replaced by the helper's body
//
// A *helper* is a function of the package whose name the model does not know (known_funcs.txt: the function names of the
// package when the model was written): code that a refactoring moved out of a function the model is about.  Functions
// the model knows are never touched, so the shapes the extractor looks for stay what they are.
// Receiver and parameters are substituted by the call's operands (the operands of such calls in the code base are
// side-effect free; a wrong guess here can only make facts differ, i.e. raise an obligation, never hide a change).

import (
	"bytes"
	_ "embed"
	"go/ast"
	"go/parser"
	"go/printer"
	"go/token"
	"path/filepath"
	"reflect"
	"strings"
)

//go:embed known_funcs.txt
var decKnownText string

type decNormaliser struct {
	fset    *token.FileSet
	helpers map[string]*ast.FuncDecl
	all     map[string][]*ast.FuncDecl // every function / method of the package, by name
}

func newDecNormaliser(fset *token.FileSet, repo string) *decNormaliser {
	return newDecNormaliserAliased(fset, repo, nil)
}

func newDecNormaliserAliased(fset *token.FileSet, repo string, alias map[string]string) *decNormaliser {
	known := map[string]bool{}
	for _, n := range strings.Fields(decKnownText) {
		known[n] = true
	}
	nz := &decNormaliser{fset: fset, helpers: map[string]*ast.FuncDecl{}, all: map[string][]*ast.FuncDecl{}}
	files, _ := filepath.Glob(filepath.Join(repo, "*.go"))
	for _, f := range files {
		if strings.HasSuffix(f, "_test.go") {
			continue
		}
		af, err := parser.ParseFile(fset, f, nil, 0)
		if err != nil {
			continue
		}
		decApplyAliases(af, alias)
		for _, d := range af.Decls {
			if fd, ok := d.(*ast.FuncDecl); ok && fd.Body != nil {
				nz.all[fd.Name.Name] = append(nz.all[fd.Name.Name], fd)
				if !known[fd.Name.Name] {
					nz.helpers[fd.Name.Name] = fd
				}
			}
		}
	}
	return nz
}

var (
	decExprType = reflect.TypeOf((*ast.Expr)(nil)).Elem()
	decObjType  = reflect.TypeOf((*ast.Object)(nil))
	decScpType  = reflect.TypeOf((*ast.Scope)(nil))
)

// decRewriteExprs applies f bottom-up to every ast.Expr-typed slot below v.
func decRewriteExprs(v reflect.Value, f func(ast.Expr) ast.Expr) {
	switch v.Kind() {
	case reflect.Ptr:
		if v.IsNil() || v.Type() == decObjType || v.Type() == decScpType {
			return
		}
		decRewriteExprs(v.Elem(), f)
	case reflect.Interface:
		if v.IsNil() {
			return
		}
		if v.Type() == decExprType && v.CanSet() {
			decRewriteExprs(v.Elem(), f)
			v.Set(reflect.ValueOf(f(v.Interface().(ast.Expr))))
			return
		}
		decRewriteExprs(v.Elem(), f)
	case reflect.Struct:
		for i := 0; i < v.NumField(); i++ {
			decRewriteExprs(v.Field(i), f)
		}
	case reflect.Slice:
		for i := 0; i < v.Len(); i++ {
			decRewriteExprs(v.Index(i), f)
		}
	}
}

var decPosType = reflect.TypeOf(token.NoPos)

// decClearPos forgets the source positions below v: a fragment that was parsed from a string must not carry line
// information into the function it is spliced into (the printer would break lines at the seams).
func decClearPos(v reflect.Value) {
	switch v.Kind() {
	case reflect.Ptr:
		if v.IsNil() || v.Type() == decObjType || v.Type() == decScpType {
			return
		}
		decClearPos(v.Elem())
	case reflect.Interface:
		if !v.IsNil() {
			decClearPos(v.Elem())
		}
	case reflect.Struct:
		for i := 0; i < v.NumField(); i++ {
			decClearPos(v.Field(i))
		}
	case reflect.Slice:
		for i := 0; i < v.Len(); i++ {
			decClearPos(v.Index(i))
		}
	default:
		if v.Type() == decPosType && v.CanSet() {
			v.SetInt(0)
		}
	}
}

func (nz *decNormaliser) print(n ast.Node) string {
	var buf bytes.Buffer
	if err := printer.Fprint(&buf, nz.fset, n); err != nil {
		return ""
	}
	return buf.String()
}

// cloneExpr / cloneStmts: fresh copies through the printer and the parser.
func (nz *decNormaliser) cloneExpr(e ast.Expr) ast.Expr {
	c, err := parser.ParseExprFrom(nz.fset, "", nz.print(e), 0)
	if err != nil {
		return nil
	}
	decClearPos(reflect.ValueOf(c))
	return c
}

func (nz *decNormaliser) cloneStmts(l []ast.Stmt) []ast.Stmt {
	src := "package p\nfunc _() {\n" + nz.print(&ast.BlockStmt{List: l}) + "\n}\n"
	f, err := parser.ParseFile(nz.fset, "", src, 0)
	if err != nil || len(f.Decls) != 1 {
		return nil
	}
	body := f.Decls[0].(*ast.FuncDecl).Body
	if len(body.List) != 1 {
		return nil
	}
	blk, ok := body.List[0].(*ast.BlockStmt)
	if !ok {
		return nil
	}
	decClearPos(reflect.ValueOf(blk))
	return blk.List
}

// binding maps the helper's receiver and parameter names to the operands of the call (nil: not inlinable).
func (nz *decNormaliser) binding(h *ast.FuncDecl, call *ast.CallExpr) map[string]ast.Expr {
	m := map[string]ast.Expr{}
	if h.Recv != nil {
		sel, ok := call.Fun.(*ast.SelectorExpr)
		if !ok {
			return nil
		}
		if r := decRecvIdent(h); r != "" {
			m[r] = sel.X
		}
	} else if _, ok := call.Fun.(*ast.Ident); !ok {
		return nil
	}
	var params []string
	if h.Type.Params != nil {
		for _, f := range h.Type.Params.List {
			if _, variadic := f.Type.(*ast.Ellipsis); variadic {
				return nil
			}
			if len(f.Names) == 0 {
				params = append(params, "_")
			}
			for _, n := range f.Names {
				params = append(params, n.Name)
			}
		}
	}
	if len(params) != len(call.Args) {
		return nil
	}
	for i, p := range params {
		if p != "_" {
			m[p] = call.Args[i]
		}
	}
	return m
}

func (nz *decNormaliser) helperOf(call *ast.CallExpr) *ast.FuncDecl {
	switch f := call.Fun.(type) {
	case *ast.Ident:
		if h := nz.helpers[f.Name]; h != nil && h.Recv == nil {
			return h
		}
	case *ast.SelectorExpr:
		if h := nz.helpers[f.Sel.Name]; h != nil && h.Recv != nil {
			return h
		}
	}
	return nil
}

// subst replaces the bound names in a cloned fragment.
func (nz *decNormaliser) subst(root interface{}, m map[string]ast.Expr) {
	decRewriteExprs(reflect.ValueOf(root), func(e ast.Expr) ast.Expr {
		if id, ok := e.(*ast.Ident); ok {
			if arg, ok := m[id.Name]; ok {
				if c := nz.cloneExpr(arg); c != nil {
					if decPrimary(c) {
						return c
					}
					return &ast.ParenExpr{X: c}
				}
			}
		}
		return e
	})
}

func decPrimary(e ast.Expr) bool {
	switch e.(type) {
	case *ast.Ident, *ast.SelectorExpr, *ast.CallExpr, *ast.BasicLit, *ast.IndexExpr, *ast.ParenExpr:
		return true
	}
	return false
}

// inlineExprs: N1.
func (nz *decNormaliser) inlineExprs(root interface{}) bool {
	changed := false
	decRewriteExprs(reflect.ValueOf(root), func(e ast.Expr) ast.Expr {
		call, ok := e.(*ast.CallExpr)
		if !ok {
			return e
		}
		h := nz.helperOf(call)
		if h == nil || len(h.Body.List) != 1 {
			return e
		}
		ret, ok := h.Body.List[0].(*ast.ReturnStmt)
		if !ok || len(ret.Results) != 1 {
			return e
		}
		m := nz.binding(h, call)
		if m == nil {
			return e
		}
		c := nz.cloneExpr(ret.Results[0])
		if c == nil {
			return e
		}
		holder := &ast.ParenExpr{X: c}
		nz.subst(holder, m)
		changed = true
		return holder
	})
	return changed
}

// stripParens removes the parentheses N1 leaves where they are redundant: around a whole condition, right-hand side,
// argument, result, and around primary expressions.
func decStripParens(root interface{}) {
	unparen := func(e ast.Expr) ast.Expr {
		for {
			p, ok := e.(*ast.ParenExpr)
			if !ok {
				return e
			}
			e = p.X
		}
	}
	decRewriteExprs(reflect.ValueOf(root), func(e ast.Expr) ast.Expr {
		if p, ok := e.(*ast.ParenExpr); ok {
			if decPrimary(p.X) {
				return p.X
			}
		}
		return e
	})
	ast.Inspect(root.(ast.Node), func(n ast.Node) bool {
		switch x := n.(type) {
		case *ast.IfStmt:
			x.Cond = unparen(x.Cond)
		case *ast.ForStmt:
			if x.Cond != nil {
				x.Cond = unparen(x.Cond)
			}
		case *ast.AssignStmt:
			for i := range x.Rhs {
				x.Rhs[i] = unparen(x.Rhs[i])
			}
		case *ast.ReturnStmt:
			for i := range x.Results {
				x.Results[i] = unparen(x.Results[i])
			}
		case *ast.CallExpr:
			for i := range x.Args {
				x.Args[i] = unparen(x.Args[i])
			}
		case *ast.CaseClause:
			for i := range x.List {
				x.List[i] = unparen(x.List[i])
			}
		case *ast.SwitchStmt:
			if x.Tag != nil {
				x.Tag = unparen(x.Tag)
			}
		}
		return true
	})
}

func decHasReturn(l []ast.Stmt) bool {
	found := false
	for _, s := range l {
		decInspect(s, func(n ast.Node) {
			if _, ok := n.(*ast.ReturnStmt); ok {
				found = true
			}
		})
	}
	return found
}

// decUses counts the occurrences of the variable name (not as a selector's field or a composite literal's key).
func decUses(n ast.Node, name string) int {
	skip := map[*ast.Ident]bool{}
	cnt := 0
	ast.Inspect(n, func(m ast.Node) bool {
		switch x := m.(type) {
		case *ast.SelectorExpr:
			skip[x.Sel] = true
		case *ast.KeyValueExpr:
			if id, ok := x.Key.(*ast.Ident); ok {
				skip[id] = true
			}
		case *ast.Ident:
			if !skip[x] && x.Name == name {
				cnt++
			}
		}
		return true
	})
	return cnt
}

// rewriteLists applies f to every statement list below fd's body.
func decRewriteLists(body *ast.BlockStmt, f func([]ast.Stmt) []ast.Stmt) {
	ast.Inspect(body, func(n ast.Node) bool {
		switch x := n.(type) {
		case *ast.BlockStmt:
			x.List = f(x.List)
		case *ast.CaseClause:
			x.Body = f(x.Body)
		case *ast.CommClause:
			x.Body = f(x.Body)
		}
		return true
	})
}

// inlineStmts: N3.
func (nz *decNormaliser) inlineStmts(body *ast.BlockStmt) bool {
	changed := false
	decRewriteLists(body, func(l []ast.Stmt) []ast.Stmt {
		var out []ast.Stmt
		for _, s := range l {
			if es, ok := s.(*ast.ExprStmt); ok {
				if call, ok := es.X.(*ast.CallExpr); ok {
					if h := nz.helperOf(call); h != nil && (h.Type.Results == nil || len(h.Type.Results.List) == 0) && !decHasReturn(h.Body.List) {
						if m := nz.binding(h, call); m != nil {
							if c := nz.cloneStmts(h.Body.List); c != nil {
								holder := &ast.BlockStmt{List: c}
								nz.subst(holder, m)
								out = append(out, holder.List...)
								changed = true
								continue
							}
						}
					}
				}
			}
			out = append(out, s)
		}
		return out
	})
	return changed
}

// foldLocals: N2.
func (nz *decNormaliser) foldLocals(body *ast.BlockStmt) bool {
	changed := false
	decRewriteLists(body, func(l []ast.Stmt) []ast.Stmt {
		for i := 0; i+1 < len(l); i++ {
			as, ok := l[i].(*ast.AssignStmt)
			if !ok || as.Tok != token.DEFINE || len(as.Lhs) != 1 || len(as.Rhs) != 1 {
				continue
			}
			id, ok := as.Lhs[0].(*ast.Ident)
			if !ok || id.Name == "_" {
				continue
			}
			if _, isLit := as.Rhs[0].(*ast.FuncLit); isLit {
				continue
			}
			later := 0
			for _, s := range l[i+2:] {
				later += decUses(s, id.Name)
			}
			if later != 0 {
				continue
			}
			// N5: `x := e; if c(x) { … }` is written `if x := e; c(x) { … }` (or, when x occurs once, in c only, c(e))
			if is, ok := l[i+1].(*ast.IfStmt); ok && is.Init == nil {
				total := decUses(is, id.Name)
				if total == 0 {
					continue
				}
				if total == 1 && decUses(is.Cond, id.Name) == 1 {
					holder := &ast.ParenExpr{X: is.Cond}
					nz.subst(holder, map[string]ast.Expr{id.Name: as.Rhs[0]})
					is.Cond = holder.X
				} else {
					is.Init = as
				}
				l = append(l[:i:i], l[i+1:]...)
				changed = true
				i--
				continue
			}
			// the next statement must be a simple statement using the name exactly once, nothing later may use it
			switch l[i+1].(type) {
			case *ast.AssignStmt, *ast.ExprStmt, *ast.ReturnStmt, *ast.IncDecStmt:
			default:
				continue
			}
			if decUses(l[i+1], id.Name) != 1 {
				continue
			}
			if nas, ok := l[i+1].(*ast.AssignStmt); ok {
				assigned := false
				for _, lhs := range nas.Lhs {
					if x, ok := lhs.(*ast.Ident); ok && x.Name == id.Name {
						assigned = true
					}
				}
				if assigned {
					continue
				}
			}
			nz.subst(l[i+1], map[string]ast.Expr{id.Name: as.Rhs[0]})
			l = append(l[:i:i], l[i+1:]...)
			changed = true
			i--
		}
		return l
	})
	return changed
}

// relabelBreaks turns the unlabelled `break`s of an if-arm (they leave the enclosing loop) into `break loop`, so that
// they keep that meaning inside a switch clause.
func decRelabelBreaks(n ast.Node) {
	ast.Inspect(n, func(m ast.Node) bool {
		switch x := m.(type) {
		case *ast.ForStmt, *ast.RangeStmt, *ast.SwitchStmt, *ast.TypeSwitchStmt, *ast.SelectStmt, *ast.FuncLit:
			return false
		case *ast.BranchStmt:
			if x.Tok == token.BREAK && x.Label == nil {
				x.Label = ast.NewIdent("loop")
			}
		}
		return true
	})
}

// canonIf: N7 / N8.  An if / else-if chain (no init statements) with at least two conditions is written as a tagless
// switch; a tagless switch with one case and a default as if / else; `if a != b {X} else {Y}` and `if !c {X} else {Y}`
// as `if a == b {Y} else {X}` / `if c {Y} else {X}`.
func (nz *decNormaliser) canonIf(body *ast.BlockStmt, chains, swaps bool) {
	var conv func(s ast.Stmt) ast.Stmt
	conv = func(s ast.Stmt) ast.Stmt {
		switch x := s.(type) {
		case *ast.IfStmt:
			type arm struct {
				cond ast.Expr
				body *ast.BlockStmt
			}
			var arms []arm
			var els *ast.BlockStmt
			ok := true
			cur := x
			for {
				if cur.Init != nil {
					ok = false
					break
				}
				arms = append(arms, arm{cur.Cond, cur.Body})
				if cur.Else == nil {
					break
				}
				if next, isIf := cur.Else.(*ast.IfStmt); isIf {
					cur = next
					continue
				}
				els, _ = cur.Else.(*ast.BlockStmt)
				break
			}
			if !ok {
				return s
			}
			if len(arms) >= 2 && chains {
				sw := &ast.SwitchStmt{Body: &ast.BlockStmt{}}
				for _, a := range arms {
					decRelabelBreaks(a.body)
					sw.Body.List = append(sw.Body.List, &ast.CaseClause{List: []ast.Expr{a.cond}, Body: a.body.List})
				}
				if els != nil {
					decRelabelBreaks(els)
					sw.Body.List = append(sw.Body.List, &ast.CaseClause{Body: els.List})
				}
				return sw
			}
			if els != nil && swaps && len(arms) == 1 {
				if b, isBin := x.Cond.(*ast.BinaryExpr); isBin && b.Op == token.NEQ {
					return &ast.IfStmt{Cond: &ast.BinaryExpr{X: b.X, Op: token.EQL, Y: b.Y}, Body: els, Else: x.Body}
				}
				if u, isNot := x.Cond.(*ast.UnaryExpr); isNot && u.Op == token.NOT {
					c := u.X
					if p, isPar := c.(*ast.ParenExpr); isPar {
						c = p.X
					}
					return &ast.IfStmt{Cond: c, Body: els, Else: x.Body}
				}
			}
		case *ast.SwitchStmt:
			if chains && x.Tag == nil && x.Init == nil && len(x.Body.List) == 2 {
				c0, _ := x.Body.List[0].(*ast.CaseClause)
				c1, _ := x.Body.List[1].(*ast.CaseClause)
				if c0 != nil && c1 != nil && len(c0.List) == 1 && c1.List == nil {
					return conv(&ast.IfStmt{Cond: c0.List[0], Body: &ast.BlockStmt{List: c0.Body}, Else: &ast.BlockStmt{List: c1.Body}})
				}
			}
		}
		return s
	}
	decRewriteLists(body, func(l []ast.Stmt) []ast.Stmt {
		for i, s := range l {
			l[i] = conv(s)
		}
		return l
	})
}

// decTerminates: the statement list always leaves (return, continue, break, goto, panic).
func decTerminates(l []ast.Stmt) bool {
	if len(l) == 0 {
		return false
	}
	switch x := l[len(l)-1].(type) {
	case *ast.ReturnStmt:
		return true
	case *ast.BranchStmt:
		return x.Tok != token.FALLTHROUGH
	case *ast.ExprStmt:
		if c, ok := x.X.(*ast.CallExpr); ok {
			if id, ok := c.Fun.(*ast.Ident); ok && id.Name == "panic" {
				return true
			}
		}
	}
	return false
}

// dropElse: N9.  `if c { …; return } else { B }` is written `if c { …; return }; B` (guard clause form).
func (nz *decNormaliser) dropElse(body *ast.BlockStmt) bool {
	changed := false
	decRewriteLists(body, func(l []ast.Stmt) []ast.Stmt {
		var out []ast.Stmt
		for _, s := range l {
			if is, ok := s.(*ast.IfStmt); ok && is.Else != nil && decTerminates(is.Body.List) {
				els := is.Else
				is.Else = nil
				out = append(out, is)
				if blk, ok := els.(*ast.BlockStmt); ok {
					out = append(out, blk.List...)
				} else {
					out = append(out, els)
				}
				changed = true
				continue
			}
			out = append(out, s)
		}
		return out
	})
	return changed
}

// normalise rewrites fd in place.
func (nz *decNormaliser) normalise(fd *ast.FuncDecl) {
	if fd == nil || fd.Body == nil {
		return
	}
	for round := 0; round < 4; round++ {
		c1 := nz.inlineStmts(fd.Body)
		c2 := nz.inlineExprs(fd.Body)
		c3 := nz.foldLocals(fd.Body)
		if !c1 && !c2 && !c3 {
			break
		}
	}
	nz.canonIf(fd.Body, true, false)
	for i := 0; i < 4 && nz.dropElse(fd.Body); i++ {
	}
	nz.canonIf(fd.Body, false, true)
	// N10: nothing follows a statement that always leaves
	decRewriteLists(fd.Body, func(l []ast.Stmt) []ast.Stmt {
		for i := range l {
			if decTerminates(l[:i+1]) {
				if _, isLabeled := l[i].(*ast.LabeledStmt); !isLabeled {
					return l[:i+1]
				}
			}
		}
		return l
	})
	decStripParens(fd.Body)
}
