package main

// Renamed functions.  The extractor finds the functions it reads by name, and the normaliser decides by name which
// functions are helpers.  A behaviour-preserving rename of an unexported function or method would defeat both.
// known_fingerprints.txt records, for every function of the package when the model was written, a fingerprint of its
// body that does not depend on names of locals, receivers or package functions.  When a known name is gone and exactly
// one function the model does not know has that fingerprint, the function was renamed: every occurrence of the new
// name is read as the old one.
//
//	go run ./extract/decoder decoderfp <repo> <verifroot>     regenerates known_fingerprints.txt (when the model is revisited)

import (
	_ "embed"
	"fmt"
	"go/ast"
	"go/parser"
	"go/token"
	"hash/fnv"
	"os"
	"path/filepath"
	"reflect"
	"sort"
	"strings"
)

//go:embed known_fingerprints.txt
var decFingerprintText string

// known_fields.txt: "<struct type (path for nested anonymous structs)> <index> <field name>" for every struct of the
// package when the model was written.  A field whose name the model does not know, standing where a known name stood
// (same struct, same position, the old name gone from that struct), is that field renamed.
//
//go:embed known_fields.txt
var decFieldsText string

type decField struct {
	typ  string
	idx  int
	name string
}

func decStructFields(repo string) []decField {
	fset := token.NewFileSet()
	var out []decField
	var walk func(path string, st *ast.StructType)
	walk = func(path string, st *ast.StructType) {
		i := 0
		for _, f := range st.Fields.List {
			names := f.Names
			if len(names) == 0 {
				i++ // embedded
				continue
			}
			for _, n := range names {
				out = append(out, decField{path, i, n.Name})
				if inner, ok := f.Type.(*ast.StructType); ok {
					walk(path+"."+n.Name, inner)
				}
				i++
			}
		}
	}
	files, _ := filepath.Glob(filepath.Join(repo, "*.go"))
	sort.Strings(files)
	for _, f := range files {
		if strings.HasSuffix(f, "_test.go") {
			continue
		}
		af, err := parser.ParseFile(fset, f, nil, 0)
		if err != nil {
			continue
		}
		for _, dcl := range af.Decls {
			gd, ok := dcl.(*ast.GenDecl)
			if !ok || gd.Tok != token.TYPE {
				continue
			}
			for _, sp := range gd.Specs {
				ts := sp.(*ast.TypeSpec)
				if st, ok := ts.Type.(*ast.StructType); ok {
					walk(ts.Name.Name, st)
				}
			}
		}
	}
	return out
}

// decTypeAliases: new struct type name → old one: a known struct type is gone and exactly one struct type the model
// does not know declares the same fields in the same order.
func decTypeAliases(now []decField) map[string]string {
	list := func(fs []decField) map[string]string {
		m := map[string][]string{}
		for _, f := range fs {
			if !strings.Contains(f.typ, ".") {
				m[f.typ] = append(m[f.typ], fmt.Sprintf("%d:%s", f.idx, f.name))
			}
		}
		out := map[string]string{}
		for t, l := range m {
			out[t] = strings.Join(l, ",")
		}
		return out
	}
	var old []decField
	for _, line := range strings.Split(decFieldsText, "\n") {
		p := strings.Split(line, "\t")
		if len(p) == 3 {
			var idx int
			fmt.Sscanf(p[1], "%d", &idx)
			old = append(old, decField{p[0], idx, p[2]})
		}
	}
	oldL, nowL := list(old), list(now)
	out := map[string]string{}
	for ot, sig := range oldL {
		if _, still := nowL[ot]; still {
			continue
		}
		var cands []string
		for nt, nsig := range nowL {
			if _, known := oldL[nt]; !known && nsig == sig {
				cands = append(cands, nt)
			}
		}
		if len(cands) == 1 {
			out[cands[0]] = ot
		}
	}
	return out
}

// decFieldAliases: new field name → old field name (and new struct type name → old one).
func decFieldAliases(repo string) map[string]string {
	now := decStructFields(repo)
	types := decTypeAliases(now)
	for i := range now {
		head, rest := now[i].typ, ""
		if k := strings.Index(head, "."); k >= 0 {
			head, rest = head[:k], head[k:]
		}
		if o, ok := types[head]; ok {
			now[i].typ = o + rest
		}
	}
	type key struct {
		typ string
		idx int
	}
	cur := map[key]string{}
	names := map[string]int{}    // how many structs declare the name now
	inType := map[string]bool{} // "typ\x00name" exists now
	for _, f := range now {
		cur[key{f.typ, f.idx}] = f.name
		names[f.name]++
		inType[f.typ+"\x00"+f.name] = true
	}
	knownNames := map[string]bool{}
	var old []decField
	for _, line := range strings.Split(decFieldsText, "\n") {
		p := strings.Split(line, "\t")
		if len(p) != 3 {
			continue
		}
		var idx int
		fmt.Sscanf(p[1], "%d", &idx)
		old = append(old, decField{p[0], idx, p[2]})
		knownNames[p[2]] = true
	}
	out := map[string]string{}
	for _, o := range old {
		n, ok := cur[key{o.typ, o.idx}]
		if !ok || n == o.name || knownNames[n] || inType[o.typ+"\x00"+o.name] || names[n] != 1 {
			continue
		}
		// nested anonymous structs are addressed through their field: a renamed parent changes the path of its children;
		// only the field itself is aliased here, which restores the path for the next run of the table lookup
		out[n] = o.name
	}
	for n, o := range types {
		out[n] = o
	}
	return out
}

func init() { extractors["decoderfp"] = writeFingerprints }

// decFingerprint hashes the body of fd: receiver `$r`, locals `$1…`, every call to a function or method declared in the
// package written `$f`.
func decFingerprint(fset *token.FileSet, pkgNames map[string]bool, fd *ast.FuncDecl) string {
	d := &decExtractor{fset: fset}
	d.enter(fd)
	// work on a copy: the tree is shared with the extractor
	src := "package p\nfunc _() " + func() string {
		nz := &decNormaliser{fset: fset}
		return nz.print(fd.Body)
	}() + "\n"
	f, err := parser.ParseFile(fset, "", src, 0)
	if err != nil || len(f.Decls) != 1 {
		return "?"
	}
	body := f.Decls[0].(*ast.FuncDecl).Body
	ast.Inspect(body, func(n ast.Node) bool {
		call, ok := n.(*ast.CallExpr)
		if !ok {
			return true
		}
		switch fn := call.Fun.(type) {
		case *ast.Ident:
			if pkgNames[fn.Name] && !d.locals[fn.Name] {
				call.Fun = ast.NewIdent("$f")
			}
		case *ast.SelectorExpr:
			if pkgNames[fn.Sel.Name] {
				call.Fun = &ast.SelectorExpr{X: fn.X, Sel: ast.NewIdent("$f")}
			}
		}
		return true
	})
	decClearPos(reflect.ValueOf(body))
	h := fnv.New64a()
	h.Write([]byte(d.render(body)))
	return fmt.Sprintf("%016x", h.Sum64())
}

type decDeclInfo struct {
	fd   *ast.FuncDecl
	recv string
}

func decPackageFuncs(fset *token.FileSet, repo string) (map[string][]decDeclInfo, map[string]bool) {
	all := map[string][]decDeclInfo{}
	names := map[string]bool{}
	files, _ := filepath.Glob(filepath.Join(repo, "*.go"))
	for _, f := range files {
		if strings.HasSuffix(f, "_test.go") {
			continue
		}
		af, err := parser.ParseFile(fset, f, nil, 0)
		if err != nil {
			continue
		}
		for _, dcl := range af.Decls {
			if fd, ok := dcl.(*ast.FuncDecl); ok && fd.Body != nil {
				all[fd.Name.Name] = append(all[fd.Name.Name], decDeclInfo{fd, decRecvType(fd)})
				names[fd.Name.Name] = true
			}
		}
	}
	return all, names
}

func writeFingerprints(repo, root string) error {
	fset := token.NewFileSet()
	all, names := decPackageFuncs(fset, repo)
	var lines []string
	for name, ds := range all {
		for _, di := range ds {
			lines = append(lines, name+"\t"+di.recv+"\t"+decFingerprint(fset, names, di.fd))
		}
	}
	sort.Strings(lines)
	var fl []string
	for _, f := range decStructFields(repo) {
		fl = append(fl, fmt.Sprintf("%s\t%d\t%s", f.typ, f.idx, f.name))
	}
	if err := os.WriteFile(filepath.Join(root, "go/extract/decoder/known_fields.txt"), []byte(strings.Join(fl, "\n")+"\n"), 0o644); err != nil {
		return err
	}
	return os.WriteFile(filepath.Join(root, "go/extract/decoder/known_fingerprints.txt"), []byte(strings.Join(lines, "\n")+"\n"), 0o644)
}

// decAliases: new name → old name, for the functions of the package that were renamed since the model was written.
func decAliases(repo string) map[string]string {
	fset := token.NewFileSet()
	all, names := decPackageFuncs(fset, repo)
	known := map[string]bool{}
	for _, n := range strings.Fields(decKnownText) {
		known[n] = true
	}
	// fingerprints of the functions the model does not know
	type cand struct{ name, recv string }
	unknown := map[string][]cand{}
	pkgNames := map[string]bool{}
	for n := range names {
		pkgNames[n] = true
	}
	for n := range known {
		pkgNames[n] = true // calls to a function that has been renamed away are no longer package calls: keep `$f` stable
	}
	for name, ds := range all {
		if known[name] {
			continue
		}
		for _, di := range ds {
			fp := decFingerprint(fset, pkgNames, di.fd)
			unknown[fp] = append(unknown[fp], cand{name, di.recv})
		}
	}
	out := decFieldAliases(repo)
	for _, line := range strings.Split(decFingerprintText, "\n") {
		p := strings.Split(line, "\t")
		if len(p) != 3 {
			continue
		}
		old, recv, fp := p[0], p[1], p[2]
		gone := true
		for _, di := range all[old] {
			if di.recv == recv {
				gone = false
			}
		}
		if !gone {
			continue
		}
		var match []cand
		for _, c := range unknown[fp] {
			if c.recv == recv {
				match = append(match, c)
			}
		}
		if len(match) == 1 {
			if prev, dup := out[match[0].name]; !dup || prev == old {
				out[match[0].name] = old
			}
		}
	}
	return out
}

// decApplyAliases rewrites every identifier (and selector) that carries a new name.
func decApplyAliases(n ast.Node, alias map[string]string) {
	if len(alias) == 0 || n == nil {
		return
	}
	ast.Inspect(n, func(m ast.Node) bool {
		if id, ok := m.(*ast.Ident); ok {
			if old, ok := alias[id.Name]; ok {
				id.Name = old
			}
		}
		return true
	})
}
