package main

// Renamed functions.  The extractor finds the functions it reads by name, and the normaliser decides by name which
// functions are helpers.  A behaviour-preserving rename of an unexported function or method would defeat both.
// known_fingerprints.txt records, for every function of the package when the model was written, a fingerprint of its
// body that does not depend on names of locals, receivers or package functions.  When a known name is gone and exactly
// one function the model does not know has that fingerprint, the function was renamed: every occurrence of the new
// name is read as the old one.
//
//	go run ./extract/decoder decoderfp <repo> <verifroot>     regenerates known_fingerprints.txt (when the model is revisited)

import (
	_ "embed"
	"fmt"
	"go/ast"
	"go/parser"
	"go/token"
	"hash/fnv"
	"os"
	"path/filepath"
	"reflect"
	"sort"
	"strings"
)

//go:embed known_fingerprints.txt
var decFingerprintText string

func init() { extractors["decoderfp"] = writeFingerprints }

// decFingerprint hashes the body of fd: receiver `$r`, locals `$1…`, every call to a function or method declared in the
// package written `$f`.
func decFingerprint(fset *token.FileSet, pkgNames map[string]bool, fd *ast.FuncDecl) string {
	d := &decExtractor{fset: fset}
	d.enter(fd)
	// work on a copy: the tree is shared with the extractor
	src := "package p\nfunc _() " + func() string {
		nz := &decNormaliser{fset: fset}
		return nz.print(fd.Body)
	}() + "\n"
	f, err := parser.ParseFile(fset, "", src, 0)
	if err != nil || len(f.Decls) != 1 {
		return "?"
	}
	body := f.Decls[0].(*ast.FuncDecl).Body
	ast.Inspect(body, func(n ast.Node) bool {
		call, ok := n.(*ast.CallExpr)
		if !ok {
			return true
		}
		switch fn := call.Fun.(type) {
		case *ast.Ident:
			if pkgNames[fn.Name] && !d.locals[fn.Name] {
				call.Fun = ast.NewIdent("$f")
			}
		case *ast.SelectorExpr:
			if pkgNames[fn.Sel.Name] {
				call.Fun = &ast.SelectorExpr{X: fn.X, Sel: ast.NewIdent("$f")}
			}
		}
		return true
	})
	decClearPos(reflect.ValueOf(body))
	h := fnv.New64a()
	h.Write([]byte(d.render(body)))
	return fmt.Sprintf("%016x", h.Sum64())
}

type decDeclInfo struct {
	fd   *ast.FuncDecl
	recv string
}

func decPackageFuncs(fset *token.FileSet, repo string) (map[string][]decDeclInfo, map[string]bool) {
	all := map[string][]decDeclInfo{}
	names := map[string]bool{}
	files, _ := filepath.Glob(filepath.Join(repo, "*.go"))
	for _, f := range files {
		if strings.HasSuffix(f, "_test.go") {
			continue
		}
		af, err := parser.ParseFile(fset, f, nil, 0)
		if err != nil {
			continue
		}
		for _, dcl := range af.Decls {
			if fd, ok := dcl.(*ast.FuncDecl); ok && fd.Body != nil {
				all[fd.Name.Name] = append(all[fd.Name.Name], decDeclInfo{fd, decRecvType(fd)})
				names[fd.Name.Name] = true
			}
		}
	}
	return all, names
}

func writeFingerprints(repo, root string) error {
	fset := token.NewFileSet()
	all, names := decPackageFuncs(fset, repo)
	var lines []string
	for name, ds := range all {
		for _, di := range ds {
			lines = append(lines, name+"\t"+di.recv+"\t"+decFingerprint(fset, names, di.fd))
		}
	}
	sort.Strings(lines)
	return os.WriteFile(filepath.Join(root, "go/extract/decoder/known_fingerprints.txt"), []byte(strings.Join(lines, "\n")+"\n"), 0o644)
}

// decAliases: new name → old name, for the functions of the package that were renamed since the model was written.
func decAliases(repo string) map[string]string {
	fset := token.NewFileSet()
	all, names := decPackageFuncs(fset, repo)
	known := map[string]bool{}
	for _, n := range strings.Fields(decKnownText) {
		known[n] = true
	}
	// fingerprints of the functions the model does not know
	type cand struct{ name, recv string }
	unknown := map[string][]cand{}
	pkgNames := map[string]bool{}
	for n := range names {
		pkgNames[n] = true
	}
	for n := range known {
		pkgNames[n] = true // calls to a function that has been renamed away are no longer package calls: keep `$f` stable
	}
	for name, ds := range all {
		if known[name] {
			continue
		}
		for _, di := range ds {
			fp := decFingerprint(fset, pkgNames, di.fd)
			unknown[fp] = append(unknown[fp], cand{name, di.recv})
		}
	}
	out := map[string]string{}
	for _, line := range strings.Split(decFingerprintText, "\n") {
		p := strings.Split(line, "\t")
		if len(p) != 3 {
			continue
		}
		old, recv, fp := p[0], p[1], p[2]
		gone := true
		for _, di := range all[old] {
			if di.recv == recv {
				gone = false
			}
		}
		if !gone {
			continue
		}
		var match []cand
		for _, c := range unknown[fp] {
			if c.recv == recv {
				match = append(match, c)
			}
		}
		if len(match) == 1 {
			if prev, dup := out[match[0].name]; !dup || prev == old {
				out[match[0].name] = old
			}
		}
	}
	return out
}

// decApplyAliases rewrites every identifier (and selector) that carries a new name.
func decApplyAliases(n ast.Node, alias map[string]string) {
	if len(alias) == 0 || n == nil {
		return
	}
	ast.Inspect(n, func(m ast.Node) bool {
		if id, ok := m.(*ast.Ident); ok {
			if old, ok := alias[id.Name]; ok {
				id.Name = old
			}
		}
		return true
	})
}
