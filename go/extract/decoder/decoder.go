package main

import (
	"bytes"
	"fmt"
	"go/ast"
	"go/parser"
	"go/printer"
	"go/token"
	"os"
	"path/filepath"
	"strconv"
	"strings"
)

func init() { extractors["decoder"] = extractDecoder }

// decNotShaped is emitted for the Int-valued facts when the statement exists but is not `x = <base> [+ <literal>]`
// (or does not exist at all: 0 is a meaningful value for these fields).
const decNotShaped = -999

// decFacts are the syntactic facts of the fetch decoder that the Lean model of C02 relies on.
type decFacts struct {
	hdr                  [3]int64 // bytes consumed by readHeader on the path of magic 0, 1, 2
	v2PayloadOffset      int64
	v2BatchRemainOffset  int64
	v1LengthRemain       int64
	skipEmptyLoop        bool
	batchEndOnEmpty      bool
	batchEndOnLast       bool
	batchEndApplied      bool
	jumpGuard            string
	skipBelow            string
	nextOffsetPlus       int64
	readerNextOffsetPlus int64
	emptyWhenHwmEqOffset bool
	closeStoresOffset    bool
	oorSeeksConn         bool
}

// decExtractor carries the file set that the renderer needs.
type decExtractor struct{ fset *token.FileSet }

// render prints a node with go/printer and normalises the white space (the files are parsed without comments).
func (d *decExtractor) render(n ast.Node) string {
	if n == nil {
		return ""
	}
	var buf bytes.Buffer
	if err := printer.Fprint(&buf, d.fset, n); err != nil {
		return "?"
	}
	return strings.Join(strings.Fields(buf.String()), " ")
}

// decFunc finds the declaration of the function `name` with receiver type `recv` ("" for a plain function).
func decFunc(f *ast.File, recv, name string) *ast.FuncDecl {
	for _, decl := range f.Decls {
		fd, ok := decl.(*ast.FuncDecl)
		if !ok || fd.Body == nil || fd.Name.Name != name {
			continue
		}
		r := ""
		if fd.Recv != nil && len(fd.Recv.List) == 1 {
			t := fd.Recv.List[0].Type
			if s, ok := t.(*ast.StarExpr); ok {
				t = s.X
			}
			if id, ok := t.(*ast.Ident); ok {
				r = id.Name
			}
		}
		if r == recv {
			return fd
		}
	}
	return nil
}

// decInspect walks a node without entering function literals.
func decInspect(n ast.Node, f func(ast.Node)) {
	if n == nil {
		return
	}
	ast.Inspect(n, func(m ast.Node) bool {
		if m == nil {
			return false
		}
		if _, ok := m.(*ast.FuncLit); ok {
			return false
		}
		f(m)
		return true
	})
}

// decIntLit evaluates an integer literal.
func decIntLit(e ast.Expr) (int64, bool) {
	for {
		p, ok := e.(*ast.ParenExpr)
		if !ok {
			break
		}
		e = p.X
	}
	lit, ok := e.(*ast.BasicLit)
	if !ok || lit.Kind != token.INT {
		return 0, false
	}
	v, err := strconv.ParseInt(lit.Value, 0, 64)
	if err != nil {
		return 0, false
	}
	return v, true
}

// readWidths sums the widths of the calls <recv>.readInt8/16/32/64(...) found in the statements.
func (d *decExtractor) readWidths(recv string, stmts []ast.Stmt) int64 {
	widths := map[string]int64{"readInt8": 1, "readInt16": 2, "readInt32": 4, "readInt64": 8}
	var sum int64
	for _, s := range stmts {
		decInspect(s, func(n ast.Node) {
			call, ok := n.(*ast.CallExpr)
			if !ok {
				return
			}
			sel, ok := call.Fun.(*ast.SelectorExpr)
			if !ok {
				return
			}
			if id, ok := sel.X.(*ast.Ident); ok && id.Name == recv {
				sum += widths[sel.Sel.Name]
			}
		})
	}
	return sum
}

// assignsTo returns the plain assignments (`=` or `:=`) of the statement list whose only left-hand side renders as
// lhs; with deep it also looks into nested statements.
func (d *decExtractor) assignsTo(stmts []ast.Stmt, lhs string, deep bool) []*ast.AssignStmt {
	var out []*ast.AssignStmt
	match := func(n ast.Node) {
		as, ok := n.(*ast.AssignStmt)
		if ok && (as.Tok == token.ASSIGN || as.Tok == token.DEFINE) && len(as.Lhs) == 1 && len(as.Rhs) == 1 && d.render(as.Lhs[0]) == lhs {
			out = append(out, as)
		}
	}
	for _, s := range stmts {
		if deep {
			decInspect(s, match)
		} else {
			match(s)
		}
	}
	return out
}

// decCaseOfInt finds the clause of a switch that lists the integer literal v.
func decCaseOfInt(sw *ast.SwitchStmt, v int64) *ast.CaseClause {
	for _, s := range sw.Body.List {
		cc, ok := s.(*ast.CaseClause)
		if !ok {
			continue
		}
		for _, e := range cc.List {
			if k, ok := decIntLit(e); ok && k == v {
				return cc
			}
		}
	}
	return nil
}

// caseOfCond finds the clause of a switch whose only expression renders as cond.
func (d *decExtractor) caseOfCond(sw *ast.SwitchStmt, cond string) *ast.CaseClause {
	for _, s := range sw.Body.List {
		if cc, ok := s.(*ast.CaseClause); ok && len(cc.List) == 1 && d.render(cc.List[0]) == cond {
			return cc
		}
	}
	return nil
}

// plainIf reports whether s is `if <cond> { <single statement> }` (no init, no else) with the given renderings.
func (d *decExtractor) plainIf(s ast.Stmt, cond, body string) bool {
	is, ok := s.(*ast.IfStmt)
	return ok && is.Init == nil && is.Else == nil && d.render(is.Cond) == cond &&
		len(is.Body.List) == 1 && d.render(is.Body.List[0]) == body
}

// containsCall reports whether the node contains (outside function literals) a call whose callee renders as fun.
func (d *decExtractor) containsCall(n ast.Node, fun string) (found *ast.CallExpr) {
	decInspect(n, func(m ast.Node) {
		if call, ok := m.(*ast.CallExpr); ok && found == nil && d.render(call.Fun) == fun {
			found = call
		}
	})
	return
}

// plusLit analyses `<base>`, `<base> + k`, `k + <base>`, `<base> - k`.
func (d *decExtractor) plusLit(e ast.Expr, base string) int64 {
	if d.render(e) == base {
		return 0
	}
	b, ok := e.(*ast.BinaryExpr)
	if !ok {
		return decNotShaped
	}
	switch {
	case b.Op == token.ADD && d.render(b.X) == base:
		if k, ok := decIntLit(b.Y); ok {
			return k
		}
	case b.Op == token.ADD && d.render(b.Y) == base:
		if k, ok := decIntLit(b.X); ok {
			return k
		}
	case b.Op == token.SUB && d.render(b.X) == base:
		if k, ok := decIntLit(b.Y); ok {
			return -k
		}
	}
	return decNotShaped
}

// extractDecoder re-reads the statements of the fetch decoder that the Lean model of C02 is built on and writes
// them to Gen/DecoderFacts.lean; a theorem compares them with what the model assumes, so editing one of these places
// breaks `lake build` until the model is revisited.
//
//	message_reader.go (*messageSetReader).readHeader     bytes read per magic, lengthRemain, batchEnd of empty batches
//	message_reader.go (*messageSetReader).readMessage    loop skipping empty v2 batches
//	message_reader.go (*messageSetReader).readMessageV2  batchRemain, batchEnd after the last record
//	batch.go          (*Batch).readMessage, ReadMessage, close
//	reader.go         (*reader).run (OffsetOutOfRange), (*reader).read
//	conn.go           (*Conn).ReadBatchWith              empty message set when highWaterMark == offset
func extractDecoder(repo, root string) error {
	d := &decExtractor{fset: token.NewFileSet()}
	parse := func(name string) (*ast.File, error) {
		return parser.ParseFile(d.fset, filepath.Join(repo, name), nil, 0)
	}
	need := func(f *ast.File, file, recv, name string) (*ast.FuncDecl, error) {
		if fd := decFunc(f, recv, name); fd != nil {
			return fd, nil
		}
		return nil, fmt.Errorf("untranslated: %s: func (%s) %s not found", file, recv, name)
	}
	facts := decFacts{jumpGuard: "?", skipBelow: "?", nextOffsetPlus: decNotShaped, readerNextOffsetPlus: decNotShaped}

	// ---- message_reader.go
	mf, err := parse("message_reader.go")
	if err != nil {
		return err
	}
	readHeader, err := need(mf, "message_reader.go", "messageSetReader", "readHeader")
	if err != nil {
		return err
	}
	msrReadMessage, err := need(mf, "message_reader.go", "messageSetReader", "readMessage")
	if err != nil {
		return err
	}
	readMessageV2, err := need(mf, "message_reader.go", "messageSetReader", "readMessageV2")
	if err != nil {
		return err
	}
	d.header(readHeader, &facts)
	d.skipLoop(msrReadMessage, &facts)
	d.messageV2(readMessageV2, &facts)

	// ---- batch.go
	bf, err := parse("batch.go")
	if err != nil {
		return err
	}
	batchReadMessage, err := need(bf, "batch.go", "Batch", "readMessage")
	if err != nil {
		return err
	}
	batchReadMessageExported, err := need(bf, "batch.go", "Batch", "ReadMessage")
	if err != nil {
		return err
	}
	batchClose, err := need(bf, "batch.go", "Batch", "close")
	if err != nil {
		return err
	}
	d.batchRead(batchReadMessage, &facts)
	d.batchSkip(batchReadMessageExported, &facts)
	decInspect(batchClose.Body, func(n ast.Node) {
		if as, ok := n.(*ast.AssignStmt); ok && d.render(as) == "conn.offset = batch.offset" {
			facts.closeStoresOffset = true
		}
	})

	// ---- reader.go
	rf, err := parse("reader.go")
	if err != nil {
		return err
	}
	run, err := need(rf, "reader.go", "reader", "run")
	if err != nil {
		return err
	}
	read, err := need(rf, "reader.go", "reader", "read")
	if err != nil {
		return err
	}
	d.readerRun(run, &facts)
	d.readerRead(read, &facts)

	// ---- conn.go
	cf, err := parse("conn.go")
	if err != nil {
		return err
	}
	readBatchWith, err := need(cf, "conn.go", "Conn", "ReadBatchWith")
	if err != nil {
		return err
	}
	decInspect(readBatchWith.Body, func(n ast.Node) {
		is, ok := n.(*ast.IfStmt)
		// the branch installs the empty reader; since the fix for C11-D32 it also skips the message set the response
		// may carry (`if remain > 0 { _, err = discardN(&c.rbuf, remain, remain) }`): further statements are accepted
		// as long as they only discard bytes
		if !ok || is.Init != nil || d.render(is.Cond) != "highWaterMark == offset" || len(is.Body.List) < 1 ||
			d.render(is.Body.List[0]) != "msgs = &messageSetReader{empty: true}" {
			return
		}
		for _, extra := range is.Body.List[1:] {
			if d.containsCall(extra, "discardN") == nil {
				return
			}
		}
		if blk, ok := is.Else.(*ast.BlockStmt); ok && d.containsCall(blk, "newMessageSetReader") != nil {
			facts.emptyWhenHwmEqOffset = true
		}
	})

	return os.WriteFile(filepath.Join(root, "lean/KafkaVerif/Gen/DecoderFacts.lean"), []byte(facts.lean()), 0o644)
}

// plainIfElse is plainIf for an if statement that may have an else branch.
func (d *decExtractor) plainIfElse(is *ast.IfStmt, cond, body string) bool {
	return is.Init == nil && d.render(is.Cond) == cond && len(is.Body.List) == 1 && d.render(is.Body.List[0]) == body
}

// decRecvIdent is the name of the receiver variable of a method ("" if anonymous).
func decRecvIdent(fd *ast.FuncDecl) string {
	if fd.Recv != nil && len(fd.Recv.List) == 1 && len(fd.Recv.List[0].Names) == 1 {
		return fd.Recv.List[0].Names[0].Name
	}
	return ""
}

// header: (*messageSetReader).readHeader.
func (d *decExtractor) header(fd *ast.FuncDecl, facts *decFacts) {
	recv := decRecvIdent(fd)
	var sw *ast.SwitchStmt
	at := -1
	for i, s := range fd.Body.List {
		if x, ok := s.(*ast.SwitchStmt); ok && x.Init == nil && d.render(x.Tag) == "r.header.magic" {
			sw, at = x, i
			break
		}
	}
	if sw == nil {
		return
	}
	common := d.readWidths(recv, fd.Body.List[:at])
	var clauses [3]*ast.CaseClause
	for magic := range clauses {
		if cc := decCaseOfInt(sw, int64(magic)); cc != nil {
			clauses[magic] = cc
			facts.hdr[magic] = common + d.readWidths(recv, cc.Body)
		}
	}

	// r.lengthRemain = <literal> in case 0 and case 1
	v1 := func(cc *ast.CaseClause) (int64, bool) {
		if cc == nil {
			return 0, false
		}
		as := d.assignsTo(cc.Body, "r.lengthRemain", true)
		if len(as) != 1 || as[0].Tok != token.ASSIGN {
			return 0, false
		}
		return decIntLit(as[0].Rhs[0])
	}
	if a, ok := v1(clauses[0]); ok {
		if b, ok := v1(clauses[1]); ok && a == b && a >= 0 {
			facts.v1LengthRemain = a
		}
	}

	cc := clauses[2]
	if cc == nil {
		return
	}
	// r.lengthRemain = int(r.header.length) - <literal>
	if as := d.assignsTo(cc.Body, "r.lengthRemain", true); len(as) == 1 && as[0].Tok == token.ASSIGN {
		if b, ok := as[0].Rhs[0].(*ast.BinaryExpr); ok && b.Op == token.SUB && d.render(b.X) == "int(r.header.length)" {
			if k, ok := decIntLit(b.Y); ok && k >= 0 {
				facts.v2PayloadOffset = k
			}
		}
	}
	// r.count = ...; later: if r.count == 0 { r.batchEnd = first + int64(lastOffsetDelta) + 1 }
	countAt := -1
	for i, s := range cc.Body {
		if len(d.assignsTo([]ast.Stmt{s}, "r.count", true)) > 0 {
			countAt = i
		}
	}
	if countAt >= 0 {
		for _, s := range cc.Body[countAt+1:] {
			if d.plainIf(s, "r.count == 0", "r.batchEnd = r.header.firstOffset + int64(r.header.v2.lastOffsetDelta) + 1") {
				facts.batchEndOnEmpty = true
			}
		}
	}
}

// skipLoop: (*messageSetReader).readMessage.
func (d *decExtractor) skipLoop(fd *ast.FuncDecl, facts *decFacts) {
	list := fd.Body.List
	for i, s := range list {
		loop, ok := s.(*ast.ForStmt)
		if !ok || loop.Init != nil || loop.Cond != nil || loop.Post != nil {
			continue
		}
		// the dispatch on the magic byte comes after the loop
		dispatched := false
		for _, t := range list[i+1:] {
			if sw, ok := t.(*ast.SwitchStmt); ok && d.render(sw.Tag) == "r.header.magic" {
				dispatched = true
			}
		}
		headerAt, breakAt := -1, -1
		for j, t := range loop.Body.List {
			switch x := t.(type) {
			case *ast.IfStmt:
				if x.Init != nil && headerAt < 0 && d.containsCall(x.Init, "r.readHeader") != nil {
					headerAt = j
				}
				if breakAt < 0 && x.Init == nil && x.Else == nil && d.render(x.Cond) == "r.header.magic != 2 || r.count != 0" && len(x.Body.List) == 1 {
					if br, ok := x.Body.List[0].(*ast.BranchStmt); ok && br.Tok == token.BREAK && br.Label == nil {
						breakAt = j
					}
				}
			case *ast.AssignStmt:
				if headerAt < 0 && d.containsCall(x, "r.readHeader") != nil {
					headerAt = j
				}
			}
		}
		if dispatched && headerAt >= 0 && breakAt > headerAt {
			facts.skipEmptyLoop = true
		}
	}
}

// messageV2: (*messageSetReader).readMessageV2.
func (d *decExtractor) messageV2(fd *ast.FuncDecl, facts *decFacts) {
	// batchRemain := int(r.header.length - <literal>)
	if as := d.assignsTo(fd.Body.List, "batchRemain", true); len(as) == 1 {
		if call, ok := as[0].Rhs[0].(*ast.CallExpr); ok && d.render(call.Fun) == "int" && len(call.Args) == 1 {
			if b, ok := call.Args[0].(*ast.BinaryExpr); ok && b.Op == token.SUB && d.render(b.X) == "r.header.length" {
				if k, ok := decIntLit(b.Y); ok && k >= 0 {
					facts.v2BatchRemainOffset = k
				}
			}
		}
	}
	// lastOffset = ...; if r.count == 1 { r.batchEnd = lastOffset + 1 }; r.markRead()
	list := fd.Body.List
	lastAt := -1
	for i, s := range list {
		if d.render(s) == "lastOffset = r.header.firstOffset + int64(r.header.v2.lastOffsetDelta)" {
			lastAt = i
		}
	}
	if lastAt < 0 {
		return
	}
	for i := lastAt + 1; i < len(list); i++ {
		if d.containsCall(list[i], "r.markRead") != nil {
			return // the record is accounted for: too late to look at r.count == 1
		}
		if d.plainIf(list[i], "r.count == 1", "r.batchEnd = lastOffset + 1") {
			for _, t := range list[i+1:] {
				if es, ok := t.(*ast.ExprStmt); ok && d.render(es.X) == "r.markRead()" {
					facts.batchEndOnLast = true
				}
			}
			return
		}
	}
}

// batchRead: (*Batch).readMessage.
func (d *decExtractor) batchRead(fd *ast.FuncDecl, facts *decFacts) {
	list := fd.Body.List

	// switch { case err == nil: batch.offset = offset + k ... }
	switchAt := -1
	for i, s := range list {
		if sw, ok := s.(*ast.SwitchStmt); ok && sw.Tag == nil && sw.Init == nil {
			switchAt = i
			if cc := d.caseOfCond(sw, "err == nil"); cc != nil {
				if as := d.assignsTo(cc.Body, "batch.offset", true); len(as) == 1 && as[0].Tok == token.ASSIGN && len(d.assignsTo(cc.Body, "batch.offset", false)) == 1 {
					facts.nextOffsetPlus = d.plusLit(as[0].Rhs[0], "offset")
				}
			}
		}
	}

	// after the switch, before the final return: if end := batch.msgs.batchEnd; end > batch.offset { batch.offset = end }
	if switchAt >= 0 {
		for _, s := range list[switchAt+1:] {
			if _, ok := s.(*ast.ReturnStmt); ok {
				break
			}
			is, ok := s.(*ast.IfStmt)
			if ok && is.Else == nil && d.render(is.Init) == "end := batch.msgs.batchEnd" && d.render(is.Cond) == "end > batch.offset" &&
				len(is.Body.List) == 1 && d.render(is.Body.List[0]) == "batch.offset = end" {
				facts.batchEndApplied = true
			}
		}
	}

	// if <guard> { batch.offset = batch.lastOffset + 1 }
	var guards []string
	decInspect(fd.Body, func(n ast.Node) {
		is, ok := n.(*ast.IfStmt)
		if !ok {
			return
		}
		for _, s := range is.Body.List {
			if d.render(s) == "batch.offset = batch.lastOffset + 1" {
				g := d.render(is.Cond)
				if is.Init != nil {
					g = d.render(is.Init) + "; " + g
				}
				guards = append(guards, g)
			}
		}
	})
	if len(guards) > 0 {
		facts.jumpGuard = strings.Join(guards, " | ")
	}
}

// batchSkip: (*Batch).ReadMessage.
func (d *decExtractor) batchSkip(fd *ast.FuncDecl, facts *decFacts) {
	var conds []string
	decInspect(fd.Body, func(n ast.Node) {
		loop, ok := n.(*ast.ForStmt)
		if !ok || d.containsCall(loop.Body, "batch.readMessage") == nil {
			return
		}
		c := d.render(loop.Cond)
		if loop.Init != nil || loop.Post != nil {
			c = d.render(loop.Init) + "; " + c + "; " + d.render(loop.Post)
		}
		conds = append(conds, c)
	})
	if len(conds) > 0 {
		facts.skipBelow = strings.Join(conds, " | ")
	}
}

// readerRun: (*reader).run, case errors.Is(err, OffsetOutOfRange) / case offset < first.
func (d *decExtractor) readerRun(fd *ast.FuncDecl, facts *decFacts) {
	decInspect(fd.Body, func(n ast.Node) {
		outer, ok := n.(*ast.CaseClause)
		if !ok || len(outer.List) != 1 || d.render(outer.List[0]) != "errors.Is(err, OffsetOutOfRange)" {
			return
		}
		for _, s := range outer.Body {
			sw, ok := s.(*ast.SwitchStmt)
			if !ok || sw.Tag != nil {
				continue
			}
			cc := d.caseOfCond(sw, "offset < first")
			if cc == nil {
				continue
			}
			moved := false
			for _, t := range cc.Body {
				switch x := t.(type) {
				case *ast.BranchStmt, *ast.ReturnStmt:
					return // what follows is not executed
				case *ast.AssignStmt:
					if r := d.render(x); r == "offset, errcount = first, 0" || r == "offset = first" {
						moved = true
						continue
					}
				}
				if call := d.containsCall(t, "conn.Seek"); call != nil && moved && len(call.Args) == 2 && d.render(call.Args[0]) == "offset" {
					facts.oorSeeksConn = true
				}
			}
		}
	})
}

// readerRead: (*reader).read, `offset = msg.Offset + k` in the loop, after batch.ReadMessage().
func (d *decExtractor) readerRead(fd *ast.FuncDecl, facts *decFacts) {
	all := d.assignsTo(fd.Body.List, "offset", true)
	if len(all) != 1 || all[0].Tok != token.ASSIGN {
		return
	}
	for _, s := range fd.Body.List {
		loop, ok := s.(*ast.ForStmt)
		if !ok {
			continue
		}
		fetched := false
		for _, t := range loop.Body.List {
			if d.containsCall(t, "batch.ReadMessage") != nil {
				fetched = true
			}
			if t == ast.Stmt(all[0]) && fetched {
				facts.readerNextOffsetPlus = d.plusLit(all[0].Rhs[0], "msg.Offset")
			}
		}
	}
}

func decLeanInt(v int64) string {
	if v < 0 {
		return fmt.Sprintf("(%d)", v)
	}
	return strconv.FormatInt(v, 10)
}

func decLeanString(s string) string {
	var b strings.Builder
	b.WriteByte('"')
	for _, r := range s {
		switch r {
		case '\\':
			b.WriteString(`\\`)
		case '"':
			b.WriteString(`\"`)
		case '\n':
			b.WriteString(`\n`)
		case '\t':
			b.WriteString(`\t`)
		case '\r':
			b.WriteString(`\r`)
		default:
			b.WriteRune(r)
		}
	}
	b.WriteByte('"')
	return b.String()
}

// lean renders the facts as Gen/DecoderFacts.lean.
func (f *decFacts) lean() string {
	var b strings.Builder
	b.WriteString("/- GENERATED by go/extract/decoder.go from message_reader.go, batch.go, reader.go of the repository under test — do not edit.\n")
	b.WriteString("Regenerated on every run of ./check C02. -/\n")
	b.WriteString("namespace KV.Gen\n\n")
	b.WriteString("structure DecoderFacts where\n")
	for _, fld := range []string{
		"hdrV0 : Nat", "hdrV1 : Nat", "hdrV2 : Nat", "v2PayloadOffset : Nat", "v2BatchRemainOffset : Nat", "v1LengthRemain : Nat",
		"skipEmptyLoop : Bool", "batchEndOnEmpty : Bool", "batchEndOnLast : Bool", "batchEndApplied : Bool",
		"jumpGuard : String", "skipBelow : String", "nextOffsetPlus : Int", "readerNextOffsetPlus : Int",
		"emptyWhenHwmEqOffset : Bool", "closeStoresOffset : Bool", "oorSeeksConn : Bool",
	} {
		b.WriteString("  " + fld + "\n")
	}
	b.WriteString("  deriving DecidableEq, Repr\n\n")
	b.WriteString("def decoderFacts : DecoderFacts :=\n")
	vals := []string{
		"hdrV0 := " + decLeanInt(f.hdr[0]),
		"hdrV1 := " + decLeanInt(f.hdr[1]),
		"hdrV2 := " + decLeanInt(f.hdr[2]),
		"v2PayloadOffset := " + decLeanInt(f.v2PayloadOffset),
		"v2BatchRemainOffset := " + decLeanInt(f.v2BatchRemainOffset),
		"v1LengthRemain := " + decLeanInt(f.v1LengthRemain),
		"skipEmptyLoop := " + strconv.FormatBool(f.skipEmptyLoop),
		"batchEndOnEmpty := " + strconv.FormatBool(f.batchEndOnEmpty),
		"batchEndOnLast := " + strconv.FormatBool(f.batchEndOnLast),
		"batchEndApplied := " + strconv.FormatBool(f.batchEndApplied),
		"jumpGuard := " + decLeanString(f.jumpGuard),
		"skipBelow := " + decLeanString(f.skipBelow),
		"nextOffsetPlus := " + decLeanInt(f.nextOffsetPlus),
		"readerNextOffsetPlus := " + decLeanInt(f.readerNextOffsetPlus),
		"emptyWhenHwmEqOffset := " + strconv.FormatBool(f.emptyWhenHwmEqOffset),
		"closeStoresOffset := " + strconv.FormatBool(f.closeStoresOffset),
		"oorSeeksConn := " + strconv.FormatBool(f.oorSeeksConn),
	}
	b.WriteString("  { " + strings.Join(vals, ",\n    ") + " }\n\n")
	b.WriteString("end KV.Gen\n")
	return b.String()
}
