package main

import (
	"bytes"
	"fmt"
	"go/ast"
	"go/parser"
	"go/printer"
	"go/token"
	"os"
	"path/filepath"
	"reflect"
	"sort"
	"strconv"
	"strings"
)

func init() { extractors["decoder"] = extractDecoder }

// decNotShaped is emitted for the Int-valued facts when the statement exists but is not `x = <base> [+ <literal>]`
// (or does not exist at all: 0 is a meaningful value for these fields).
const decNotShaped = -999

// decFacts are the syntactic facts of the fetch decoder that the Lean model of C02 relies on.
type decFacts struct {
	hdr                  [3]int64 // bytes consumed by readHeader on the path of magic 0, 1, 2
	v2PayloadOffset      int64
	v2BatchRemainOffset  int64
	v1LengthRemain       int64
	skipEmptyLoop        bool
	batchEndOnEmpty      bool
	batchEndOnLast       bool
	batchEndApplied      bool
	jumpGuard            string
	skipBelow            string
	nextOffsetPlus       int64
	readerNextOffsetPlus int64
	emptyWhenHwmEqOffset bool
	closeStoresOffset    bool
	oorSeeksConn         bool
	firstOffsetConst     int64  // const FirstOffset
	lastOffsetConst      int64  // const LastOffset
	initResolve          string // the switch of (*reader).initialize that resolves / clamps the offset
	initSeeksResolved    bool   // … followed by conn.Seek(<that offset>, SeekAbsolute)
	runResetsAttempt     bool   // (*reader).run: `attempt = 0` and `offset = start` after a successful initialize
	controlBatchMask     int64  // message_reader.go readHeader: the attributes bit whose test makes a v2 batch a control batch (`count = 0`)
	runConnDirect        string // (*reader).run: the Conn methods called directly on the connection (not through r.read / r.readOffsets, which arm a deadline first)
	runErrcountInc       bool   // … `errcount++` is the last statement of readLoop's body
	loopBranches         string // per error class of readLoop's switch: what the clause does (canonical words)
	decoderText          string // (*messageSetReader).readMessage and everything it reaches in message_reader.go / read.go / discard.go (closure)
}

// decExtractor carries the file set that the renderer needs and the names declared in the function being read.
type decExtractor struct {
	fset   *token.FileSet
	recv   string          // receiver variable of the current function
	locals map[string]bool // parameters, results and local variables of the current function
	nz     *decNormaliser  // helpers introduced by refactorings (normalise.go)
}

// enter records the receiver and the local names of fd: every rendering until the next enter is alpha-normalised
// with respect to them, so that renaming a receiver, parameter or local variable does not change any fact.
func (d *decExtractor) enter(fd *ast.FuncDecl) {
	d.recv = decRecvIdent(fd)
	d.locals = map[string]bool{}
	add := func(fl *ast.FieldList) {
		if fl == nil {
			return
		}
		for _, f := range fl.List {
			for _, n := range f.Names {
				d.locals[n.Name] = true
			}
		}
	}
	add(fd.Type.Params)
	add(fd.Type.Results)
	ast.Inspect(fd.Body, func(n ast.Node) bool {
		switch x := n.(type) {
		case *ast.AssignStmt:
			if x.Tok == token.DEFINE {
				for _, l := range x.Lhs {
					if id, ok := l.(*ast.Ident); ok {
						d.locals[id.Name] = true
					}
				}
			}
		case *ast.ValueSpec:
			for _, id := range x.Names {
				d.locals[id.Name] = true
			}
		case *ast.RangeStmt:
			if x.Tok == token.DEFINE {
				for _, e := range []ast.Expr{x.Key, x.Value} {
					if id, ok := e.(*ast.Ident); ok {
						d.locals[id.Name] = true
					}
				}
			}
		case *ast.FuncLit:
			add(x.Type.Params)
			add(x.Type.Results)
		}
		return true
	})
	delete(d.locals, "_")
	delete(d.locals, d.recv)
}

// render prints a node with go/printer, white space normalised (the files are parsed without comments), the receiver
// written `$r` and the local names written `$1`, `$2`, … in order of first occurrence inside the node: two fragments
// that differ only in the names of locals render alike.
func (d *decExtractor) render(n ast.Node) string {
	if n == nil {
		return ""
	}
	type saved struct {
		id   *ast.Ident
		name string
	}
	var undo []saved
	num := map[string]string{}
	skip := map[*ast.Ident]bool{}
	ast.Inspect(n, func(m ast.Node) bool {
		switch x := m.(type) {
		case *ast.SelectorExpr:
			skip[x.Sel] = true
		case *ast.KeyValueExpr:
			if id, ok := x.Key.(*ast.Ident); ok {
				skip[id] = true
			}
		case *ast.BranchStmt:
			if x.Label != nil {
				skip[x.Label] = true
			}
		case *ast.LabeledStmt:
			skip[x.Label] = true
		case *ast.Ident:
			if skip[x] {
				return true
			}
			switch {
			case d.recv != "" && x.Name == d.recv:
				undo = append(undo, saved{x, x.Name})
				x.Name = "$r"
			case d.locals[x.Name]:
				c, ok := num[x.Name]
				if !ok {
					c = "$" + strconv.Itoa(len(num)+1)
					num[x.Name] = c
				}
				undo = append(undo, saved{x, x.Name})
				x.Name = c
			}
		}
		return true
	})
	var buf bytes.Buffer
	err := printer.Fprint(&buf, d.fset, n)
	for _, u := range undo {
		u.id.Name = u.name
	}
	if err != nil {
		return "?"
	}
	return strings.Join(strings.Fields(buf.String()), " ")
}

// decLhsName is the source name of the variable a plain assignment statement assigns ("" otherwise).
func decLhsName(s ast.Stmt) string {
	if as, ok := s.(*ast.AssignStmt); ok && len(as.Lhs) == 1 {
		return decName(as.Lhs[0])
	}
	return ""
}

// decAssignedName: for `if c { x.f = <name> + k }` the source name <name> ("" otherwise).
func decAssignedName(s ast.Stmt) string {
	is, ok := s.(*ast.IfStmt)
	if !ok || len(is.Body.List) != 1 {
		return ""
	}
	as, ok := is.Body.List[0].(*ast.AssignStmt)
	if !ok || len(as.Rhs) != 1 {
		return ""
	}
	if b, ok := as.Rhs[0].(*ast.BinaryExpr); ok {
		return decName(b.X)
	}
	return ""
}

// decName is the source name of an identifier expression ("" otherwise).
func decName(e ast.Expr) string {
	if id, ok := e.(*ast.Ident); ok {
		return id.Name
	}
	return ""
}

// decFunc finds the declaration of the function `name` with receiver type `recv` ("" for a plain function).
func decFunc(f *ast.File, recv, name string) *ast.FuncDecl {
	for _, decl := range f.Decls {
		fd, ok := decl.(*ast.FuncDecl)
		if !ok || fd.Body == nil || fd.Name.Name != name {
			continue
		}
		r := ""
		if fd.Recv != nil && len(fd.Recv.List) == 1 {
			t := fd.Recv.List[0].Type
			if s, ok := t.(*ast.StarExpr); ok {
				t = s.X
			}
			if id, ok := t.(*ast.Ident); ok {
				r = id.Name
			}
		}
		if r == recv {
			return fd
		}
	}
	return nil
}

// decInspect walks a node without entering function literals.
func decInspect(n ast.Node, f func(ast.Node)) {
	if n == nil {
		return
	}
	ast.Inspect(n, func(m ast.Node) bool {
		if m == nil {
			return false
		}
		if _, ok := m.(*ast.FuncLit); ok {
			return false
		}
		f(m)
		return true
	})
}

// decIntLit evaluates an integer literal.
// decControlMask: in readHeader, the `if <…>.attributes & M != 0 { … <…>.count = 0 … }` that passes over a control
// batch: the value of M (a literal, or a constant of the file).  decNotShaped when there is no such test.
func decControlMask(f *ast.File, readHeader *ast.FuncDecl) int64 {
	consts := map[string]int64{}
	for _, decl := range f.Decls {
		gd, ok := decl.(*ast.GenDecl)
		if !ok || gd.Tok != token.CONST {
			continue
		}
		for _, sp := range gd.Specs {
			if vs, ok := sp.(*ast.ValueSpec); ok {
				for i, n := range vs.Names {
					if i < len(vs.Values) {
						if k, ok := decIntLit(vs.Values[i]); ok {
							consts[n.Name] = k
						}
					}
				}
			}
		}
	}
	val := func(e ast.Expr) (int64, bool) {
		if k, ok := decIntLit(e); ok {
			return k, true
		}
		if id, ok := e.(*ast.Ident); ok {
			k, ok := consts[id.Name]
			return k, ok
		}
		return 0, false
	}
	mentionsAttributes := func(e ast.Expr) bool {
		found := false
		ast.Inspect(e, func(n ast.Node) bool {
			if sel, ok := n.(*ast.SelectorExpr); ok && sel.Sel.Name == "attributes" {
				found = true
			}
			return true
		})
		return found
	}
	mask := int64(decNotShaped)
	ast.Inspect(readHeader.Body, func(n ast.Node) bool {
		is, ok := n.(*ast.IfStmt)
		if !ok {
			return true
		}
		zeroesCount := false
		for _, st := range is.Body.List {
			if as, ok := st.(*ast.AssignStmt); ok && len(as.Lhs) == 1 && len(as.Rhs) == 1 {
				if sel, ok := as.Lhs[0].(*ast.SelectorExpr); ok && sel.Sel.Name == "count" {
					if k, ok := decIntLit(as.Rhs[0]); ok && k == 0 {
						zeroesCount = true
					}
				}
			}
		}
		if !zeroesCount {
			return true
		}
		ast.Inspect(is.Cond, func(m ast.Node) bool {
			be, ok := m.(*ast.BinaryExpr)
			if !ok || be.Op != token.AND {
				return true
			}
			if mentionsAttributes(be.X) {
				if k, ok := val(be.Y); ok {
					mask = k
				}
			} else if mentionsAttributes(be.Y) {
				if k, ok := val(be.X); ok {
					mask = k
				}
			}
			return true
		})
		return true
	})
	return mask
}

func decIntLit(e ast.Expr) (int64, bool) {
	for {
		p, ok := e.(*ast.ParenExpr)
		if !ok {
			break
		}
		e = p.X
	}
	lit, ok := e.(*ast.BasicLit)
	if !ok || lit.Kind != token.INT {
		return 0, false
	}
	v, err := strconv.ParseInt(lit.Value, 0, 64)
	if err != nil {
		return 0, false
	}
	return v, true
}

// readWidths sums the widths of the calls <recv>.readInt8/16/32/64(...) found in the statements, including those made
// by helper methods (normalise.go) called on <recv>.
func (d *decExtractor) readWidths(recv string, stmts []ast.Stmt) int64 {
	return d.readWidthsDepth(recv, stmts, 3)
}

func (d *decExtractor) readWidthsDepth(recv string, stmts []ast.Stmt, depth int) int64 {
	widths := map[string]int64{"readInt8": 1, "readInt16": 2, "readInt32": 4, "readInt64": 8}
	var sum int64
	for _, s := range stmts {
		decInspect(s, func(n ast.Node) {
			call, ok := n.(*ast.CallExpr)
			if !ok {
				return
			}
			sel, ok := call.Fun.(*ast.SelectorExpr)
			if !ok {
				return
			}
			if id, ok := sel.X.(*ast.Ident); ok && id.Name == recv {
				sum += widths[sel.Sel.Name]
				if d.nz != nil && depth > 0 {
					if h := d.nz.helperOf(call); h != nil {
						sum += d.readWidthsDepth(decRecvIdent(h), h.Body.List, depth-1)
					}
				}
			}
		})
	}
	return sum
}

// assignsTo returns the plain assignments (`=` or `:=`) of the statement list whose only left-hand side renders as
// lhs; with deep it also looks into nested statements.
func (d *decExtractor) assignsTo(stmts []ast.Stmt, lhs string, deep bool) []*ast.AssignStmt {
	var out []*ast.AssignStmt
	match := func(n ast.Node) {
		as, ok := n.(*ast.AssignStmt)
		if ok && (as.Tok == token.ASSIGN || as.Tok == token.DEFINE) && len(as.Lhs) == 1 && len(as.Rhs) == 1 && d.render(as.Lhs[0]) == lhs {
			out = append(out, as)
		}
	}
	for _, s := range stmts {
		if deep {
			decInspect(s, match)
		} else {
			match(s)
		}
	}
	return out
}

// decCaseOfInt finds the clause of a switch that lists the integer literal v.
func decCaseOfInt(sw *ast.SwitchStmt, v int64) *ast.CaseClause {
	for _, s := range sw.Body.List {
		cc, ok := s.(*ast.CaseClause)
		if !ok {
			continue
		}
		for _, e := range cc.List {
			if k, ok := decIntLit(e); ok && k == v {
				return cc
			}
		}
	}
	return nil
}

// caseOfCond finds the clause of a switch whose only expression renders as cond.
func (d *decExtractor) caseOfCond(sw *ast.SwitchStmt, cond string) *ast.CaseClause {
	for _, s := range sw.Body.List {
		if cc, ok := s.(*ast.CaseClause); ok && len(cc.List) == 1 && d.render(cc.List[0]) == cond {
			return cc
		}
	}
	return nil
}

// plainIf reports whether s is `if <cond> { <single statement> }` (no init, no else) with the given renderings.
func (d *decExtractor) plainIf(s ast.Stmt, cond, body string) bool {
	is, ok := s.(*ast.IfStmt)
	return ok && is.Init == nil && is.Else == nil && d.render(is.Cond) == cond &&
		len(is.Body.List) == 1 && d.render(is.Body.List[0]) == body
}

// containsCall reports whether the node contains (outside function literals) a call whose callee renders as fun.
func (d *decExtractor) containsCall(n ast.Node, fun string) (found *ast.CallExpr) {
	decInspect(n, func(m ast.Node) {
		if call, ok := m.(*ast.CallExpr); ok && found == nil && d.render(call.Fun) == fun {
			found = call
		}
	})
	return
}

// plusLit analyses `<base>`, `<base> + k`, `k + <base>`, `<base> - k`.
func (d *decExtractor) plusLit(e ast.Expr, base string) int64 {
	if d.render(e) == base {
		return 0
	}
	b, ok := e.(*ast.BinaryExpr)
	if !ok {
		return decNotShaped
	}
	switch {
	case b.Op == token.ADD && d.render(b.X) == base:
		if k, ok := decIntLit(b.Y); ok {
			return k
		}
	case b.Op == token.ADD && d.render(b.Y) == base:
		if k, ok := decIntLit(b.X); ok {
			return k
		}
	case b.Op == token.SUB && d.render(b.X) == base:
		if k, ok := decIntLit(b.Y); ok {
			return -k
		}
	}
	return decNotShaped
}

// extractDecoder re-reads the statements of the fetch decoder that the Lean model of C02 is built on and writes
// them to Gen/DecoderFacts.lean; a theorem compares them with what the model assumes, so editing one of these places
// breaks `lake build` until the model is revisited.
//
//	message_reader.go (*messageSetReader).readHeader     bytes read per magic, lengthRemain, batchEnd of empty batches
//	message_reader.go (*messageSetReader).readMessage    loop skipping empty v2 batches
//	message_reader.go (*messageSetReader).readMessageV2  batchRemain, batchEnd after the last record
//	batch.go          (*Batch).readMessage, ReadMessage, close
//	reader.go         (*reader).run (OffsetOutOfRange), (*reader).read
//	conn.go           (*Conn).ReadBatchWith              empty message set when highWaterMark == offset
func extractDecoder(repo, root string) error {
	d := &decExtractor{fset: token.NewFileSet()}
	alias := decAliases(repo)
	parse := func(name string) (*ast.File, error) {
		f, err := parser.ParseFile(d.fset, filepath.Join(repo, name), nil, 0)
		if err == nil {
			decApplyAliases(f, alias)
		}
		return f, err
	}
	nz := newDecNormaliserAliased(d.fset, repo, alias)
	d.nz = nz
	need := func(f *ast.File, file, recv, name string) (*ast.FuncDecl, error) {
		if fd := decFunc(f, recv, name); fd != nil {
			nz.normalise(fd)
			return fd, nil
		}
		return nil, fmt.Errorf("untranslated: %s: func (%s) %s not found", file, recv, name)
	}
	facts := decFacts{jumpGuard: "?", skipBelow: "?", nextOffsetPlus: decNotShaped, readerNextOffsetPlus: decNotShaped}

	// ---- message_reader.go
	mf, err := parse("message_reader.go")
	if err != nil {
		return err
	}
	readHeader, err := need(mf, "message_reader.go", "messageSetReader", "readHeader")
	if err != nil {
		return err
	}
	facts.controlBatchMask = decControlMask(mf, readHeader)
	msrReadMessage, err := need(mf, "message_reader.go", "messageSetReader", "readMessage")
	if err != nil {
		return err
	}
	readMessageV2, err := need(mf, "message_reader.go", "messageSetReader", "readMessageV2")
	if err != nil {
		return err
	}
	d.header(readHeader, &facts)
	d.skipLoop(msrReadMessage, &facts)
	d.messageV2(readMessageV2, &facts)
	// ---- batch.go
	bf, err := parse("batch.go")
	if err != nil {
		return err
	}
	batchReadMessage, err := need(bf, "batch.go", "Batch", "readMessage")
	if err != nil {
		return err
	}
	batchReadMessageExported, err := need(bf, "batch.go", "Batch", "ReadMessage")
	if err != nil {
		return err
	}
	batchClose, err := need(bf, "batch.go", "Batch", "close")
	if err != nil {
		return err
	}
	d.batchRead(batchReadMessage, &facts)
	d.batchSkip(batchReadMessageExported, &facts)
	d.enter(batchClose)
	decInspect(batchClose.Body, func(n ast.Node) {
		if as, ok := n.(*ast.AssignStmt); ok && d.render(as) == "$1.offset = $r.offset" {
			facts.closeStoresOffset = true
		}
	})

	// ---- reader.go
	rf, err := parse("reader.go")
	if err != nil {
		return err
	}
	run, err := need(rf, "reader.go", "reader", "run")
	if err != nil {
		return err
	}
	read, err := need(rf, "reader.go", "reader", "read")
	if err != nil {
		return err
	}
	d.readerRun(run, &facts)
	d.readerRead(read, &facts)
	initialize, err := need(rf, "reader.go", "reader", "initialize")
	if err != nil {
		return err
	}
	d.readerLoop(rf, run, initialize, &facts)

	// ---- conn.go
	cf, err := parse("conn.go")
	if err != nil {
		return err
	}
	readBatchWith, err := need(cf, "conn.go", "Conn", "ReadBatchWith")
	if err != nil {
		return err
	}
	d.enter(readBatchWith)
	decInspect(readBatchWith.Body, func(n ast.Node) {
		// the branch may do more (e.g. skip the bytes of the response); what the model relies on is the empty reader
		is, ok := n.(*ast.IfStmt)
		if !ok || is.Init != nil || d.render(is.Cond) != "$1 == $2" {
			return
		}
		has := false
		for _, s := range is.Body.List {
			if d.render(s) == "$1 = &messageSetReader{empty: true}" {
				has = true
			}
		}
		if !has {
			return
		}
		if blk, ok := is.Else.(*ast.BlockStmt); ok && d.containsCall(blk, "newMessageSetReader") != nil {
			facts.emptyWhenHwmEqOffset = true
		}
	})

	// the text the statement-level models follow: everything (*messageSetReader).readMessage reaches in
	// message_reader.go, read.go and discard.go (parsed a second time by the normaliser: rendering rewrites the trees)
	facts.decoderText = "?"
	for _, c := range nz.all["readMessage"] {
		if decRecvType(c) == "messageSetReader" {
			facts.decoderText = d.closure(c, map[string]bool{"message_reader.go": true, "read.go": true, "discard.go": true})
		}
	}

	return os.WriteFile(filepath.Join(root, "lean/KafkaVerif/Gen/DecoderFacts.lean"), []byte(facts.lean()), 0o644)
}

// plainIfElse is plainIf for an if statement that may have an else branch.
func (d *decExtractor) plainIfElse(is *ast.IfStmt, cond, body string) bool {
	return is.Init == nil && d.render(is.Cond) == cond && len(is.Body.List) == 1 && d.render(is.Body.List[0]) == body
}

// decRecvIdent is the name of the receiver variable of a method ("" if anonymous).
func decRecvIdent(fd *ast.FuncDecl) string {
	if fd.Recv != nil && len(fd.Recv.List) == 1 && len(fd.Recv.List[0].Names) == 1 {
		return fd.Recv.List[0].Names[0].Name
	}
	return ""
}

// header: (*messageSetReader).readHeader.
func (d *decExtractor) header(fd *ast.FuncDecl, facts *decFacts) {
	d.enter(fd)
	recv := decRecvIdent(fd)
	var sw *ast.SwitchStmt
	at := -1
	for i, s := range fd.Body.List {
		if x, ok := s.(*ast.SwitchStmt); ok && x.Init == nil && d.render(x.Tag) == "$r.header.magic" {
			sw, at = x, i
			break
		}
	}
	if sw == nil {
		return
	}
	common := d.readWidths(recv, fd.Body.List[:at])
	var clauses [3]*ast.CaseClause
	for magic := range clauses {
		if cc := decCaseOfInt(sw, int64(magic)); cc != nil {
			clauses[magic] = cc
			facts.hdr[magic] = common + d.readWidths(recv, cc.Body)
		}
	}

	// r.lengthRemain = <literal> in case 0 and case 1
	v1 := func(cc *ast.CaseClause) (int64, bool) {
		if cc == nil {
			return 0, false
		}
		as := d.assignsTo(cc.Body, "$r.lengthRemain", true)
		if len(as) != 1 || as[0].Tok != token.ASSIGN {
			return 0, false
		}
		return decIntLit(as[0].Rhs[0])
	}
	if a, ok := v1(clauses[0]); ok {
		if b, ok := v1(clauses[1]); ok && a == b && a >= 0 {
			facts.v1LengthRemain = a
		}
	}

	cc := clauses[2]
	if cc == nil {
		return
	}
	// r.lengthRemain = int(r.header.length) - <literal>
	if as := d.assignsTo(cc.Body, "$r.lengthRemain", true); len(as) == 1 && as[0].Tok == token.ASSIGN {
		if b, ok := as[0].Rhs[0].(*ast.BinaryExpr); ok && b.Op == token.SUB && d.render(b.X) == "int($r.header.length)" {
			if k, ok := decIntLit(b.Y); ok && k >= 0 {
				facts.v2PayloadOffset = k
			}
		}
	}
	// r.count = ...; later: if r.count == 0 { r.batchEnd = first + int64(lastOffsetDelta) + 1 }
	countAt := -1
	for i, s := range cc.Body {
		if len(d.assignsTo([]ast.Stmt{s}, "$r.count", true)) > 0 {
			countAt = i
		}
	}
	if countAt >= 0 {
		for _, s := range cc.Body[countAt+1:] {
			if d.plainIf(s, "$r.count == 0", "$r.batchEnd = $r.header.firstOffset + int64($r.header.v2.lastOffsetDelta) + 1") {
				facts.batchEndOnEmpty = true
			}
		}
	}
}

// skipLoop: (*messageSetReader).readMessage.
func (d *decExtractor) skipLoop(fd *ast.FuncDecl, facts *decFacts) {
	d.enter(fd)
	list := fd.Body.List
	for i, s := range list {
		loop, ok := s.(*ast.ForStmt)
		if !ok || loop.Init != nil || loop.Cond != nil || loop.Post != nil {
			continue
		}
		// the dispatch on the magic byte comes after the loop
		dispatched := false
		for _, t := range list[i+1:] {
			if sw, ok := t.(*ast.SwitchStmt); ok && d.render(sw.Tag) == "$r.header.magic" {
				dispatched = true
			}
		}
		headerAt, breakAt := -1, -1
		for j, t := range loop.Body.List {
			switch x := t.(type) {
			case *ast.IfStmt:
				if x.Init != nil && headerAt < 0 && d.containsCall(x.Init, "$r.readHeader") != nil {
					headerAt = j
				}
				if breakAt < 0 && x.Init == nil && x.Else == nil && d.render(x.Cond) == "$r.header.magic != 2 || $r.count != 0" && len(x.Body.List) == 1 {
					if br, ok := x.Body.List[0].(*ast.BranchStmt); ok && br.Tok == token.BREAK && br.Label == nil {
						breakAt = j
					}
				}
			case *ast.AssignStmt:
				if headerAt < 0 && d.containsCall(x, "$r.readHeader") != nil {
					headerAt = j
				}
			}
		}
		if dispatched && headerAt >= 0 && breakAt > headerAt {
			facts.skipEmptyLoop = true
		}
	}
}

// messageV2: (*messageSetReader).readMessageV2.
func (d *decExtractor) messageV2(fd *ast.FuncDecl, facts *decFacts) {
	d.enter(fd)
	// batchRemain := int(r.header.length - <literal>)
	// (the local may have any name: the definition is recognised by its right-hand side)
	var remains []int64
	decInspect(fd.Body, func(n ast.Node) {
		as, ok := n.(*ast.AssignStmt)
		if !ok || as.Tok != token.DEFINE || len(as.Lhs) != 1 || len(as.Rhs) != 1 {
			return
		}
		if call, ok := as.Rhs[0].(*ast.CallExpr); ok && d.render(call.Fun) == "int" && len(call.Args) == 1 {
			if b, ok := call.Args[0].(*ast.BinaryExpr); ok && b.Op == token.SUB && d.render(b.X) == "$r.header.length" {
				if k, ok := decIntLit(b.Y); ok && k >= 0 {
					remains = append(remains, k)
				}
			}
		}
	})
	if len(remains) == 1 {
		facts.v2BatchRemainOffset = remains[0]
	}
	// lastOffset = ...; if r.count == 1 { r.batchEnd = lastOffset + 1 }; r.markRead()
	list := fd.Body.List
	lastAt := -1
	for i, s := range list {
		if d.render(s) == "$1 = $r.header.firstOffset + int64($r.header.v2.lastOffsetDelta)" {
			lastAt = i
		}
	}
	if lastAt < 0 {
		return
	}
	for i := lastAt + 1; i < len(list); i++ {
		if d.containsCall(list[i], "$r.markRead") != nil {
			return // the record is accounted for: too late to look at r.count == 1
		}
		if d.plainIf(list[i], "$r.count == 1", "$r.batchEnd = $1 + 1") && decAssignedName(list[i]) == decLhsName(list[lastAt]) {
			for _, t := range list[i+1:] {
				if es, ok := t.(*ast.ExprStmt); ok && d.render(es.X) == "$r.markRead()" {
					facts.batchEndOnLast = true
				}
			}
			return
		}
	}
}

// batchRead: (*Batch).readMessage.
func (d *decExtractor) batchRead(fd *ast.FuncDecl, facts *decFacts) {
	d.enter(fd)
	list := fd.Body.List

	// switch { case err == nil: batch.offset = offset + k ... }
	switchAt := -1
	for i, s := range list {
		if sw, ok := s.(*ast.SwitchStmt); ok && sw.Tag == nil && sw.Init == nil {
			switchAt = i
			if cc := d.caseOfCond(sw, "$1 == nil"); cc != nil {
				if as := d.assignsTo(cc.Body, "$r.offset", true); len(as) == 1 && as[0].Tok == token.ASSIGN && len(d.assignsTo(cc.Body, "$r.offset", false)) == 1 {
					facts.nextOffsetPlus = d.plusLit(as[0].Rhs[0], "$1")
				}
			}
		}
	}

	// after the switch, before the final return: if end := batch.msgs.batchEnd; end > batch.offset { batch.offset = end }
	if switchAt >= 0 {
		for _, s := range list[switchAt+1:] {
			if _, ok := s.(*ast.ReturnStmt); ok {
				break
			}
			is, ok := s.(*ast.IfStmt)
			if ok && is.Else == nil && d.render(is) == "if $1 := $r.msgs.batchEnd; $1 > $r.offset { $r.offset = $1 }" {
				facts.batchEndApplied = true
			}
		}
	}

	// if <guard> { batch.offset = batch.lastOffset + 1 }
	var guards []string
	decInspect(fd.Body, func(n ast.Node) {
		is, ok := n.(*ast.IfStmt)
		if !ok {
			return
		}
		for _, s := range is.Body.List {
			if d.render(s) == "$r.offset = $r.lastOffset + 1" {
				g := d.render(is.Cond)
				if is.Init != nil {
					g = d.render(is.Init) + "; " + g
				}
				guards = append(guards, g)
			}
		}
	})
	if len(guards) > 0 {
		facts.jumpGuard = strings.Join(guards, " | ")
	}
}

// batchSkip: (*Batch).ReadMessage.
func (d *decExtractor) batchSkip(fd *ast.FuncDecl, facts *decFacts) {
	d.enter(fd)
	var conds []string
	decInspect(fd.Body, func(n ast.Node) {
		loop, ok := n.(*ast.ForStmt)
		if !ok || d.containsCall(loop.Body, "$r.readMessage") == nil {
			return
		}
		c := d.render(loop.Cond)
		if loop.Init != nil || loop.Post != nil {
			c = d.render(loop.Init) + "; " + c + "; " + d.render(loop.Post)
		}
		conds = append(conds, c)
	})
	if len(conds) > 0 {
		facts.skipBelow = strings.Join(conds, " | ")
	}
}

// readerRun: (*reader).run, case errors.Is(err, OffsetOutOfRange) / case offset < first.
func (d *decExtractor) readerRun(fd *ast.FuncDecl, facts *decFacts) {
	d.enter(fd)
	decInspect(fd.Body, func(n ast.Node) {
		outer, ok := n.(*ast.CaseClause)
		if !ok || len(outer.List) != 1 || d.render(outer.List[0]) != "errors.Is($1, OffsetOutOfRange)" {
			return
		}
		for _, s := range outer.Body {
			sw, ok := s.(*ast.SwitchStmt)
			if !ok || sw.Tag != nil {
				continue
			}
			// the first clause of the shape `<local> < <local>`: position below the first offset
			cc := d.caseOfCond(sw, "$1 < $2")
			if cc == nil {
				continue
			}
			cmp := cc.List[0].(*ast.BinaryExpr)
			offName, firstName := decName(cmp.X), decName(cmp.Y)
			moved := false
			for _, t := range cc.Body {
				switch x := t.(type) {
				case *ast.BranchStmt, *ast.ReturnStmt:
					return // what follows is not executed
				case *ast.AssignStmt:
					if r := d.render(x); (r == "$1, $2 = $3, 0" || r == "$1 = $2") && decName(x.Lhs[0]) == offName && decName(x.Rhs[0]) == firstName {
						moved = true
						continue
					}
				}
				if call := d.containsCall(t, "$1.Seek"); call != nil && moved && len(call.Args) == 2 && decName(call.Args[0]) == offName {
					facts.oorSeeksConn = true
				}
			}
		}
	})
}

// readerRead: (*reader).read, `offset = msg.Offset + k` in the loop, after batch.ReadMessage().
func (d *decExtractor) readerRead(fd *ast.FuncDecl, facts *decFacts) {
	d.enter(fd)
	// the statement `<local> = <msg>.Offset [+ k]` of the loop, after <batch>.ReadMessage(); the local it assigns must
	// not be assigned anywhere else
	for _, s := range fd.Body.List {
		loop, ok := s.(*ast.ForStmt)
		if !ok {
			continue
		}
		fetched := false
		for _, t := range loop.Body.List {
			if d.containsCall(t, "$1.ReadMessage") != nil {
				fetched = true
			}
			as, ok := t.(*ast.AssignStmt)
			if !ok || !fetched || as.Tok != token.ASSIGN || len(as.Lhs) != 1 || len(as.Rhs) != 1 || decName(as.Lhs[0]) == "" {
				continue
			}
			if k := d.plusLit(as.Rhs[0], "$1.Offset"); k != decNotShaped {
				n := 0
				decInspect(fd.Body, func(m ast.Node) {
					if x, ok := m.(*ast.AssignStmt); ok {
						for _, l := range x.Lhs {
							if decName(l) == decName(as.Lhs[0]) && x.Tok == token.ASSIGN {
								n++
							}
						}
					}
				})
				if n == 1 {
					facts.readerNextOffsetPlus = k
				}
			}
		}
	}
}

// readerLoop: the sentinels, the resolution of the start offset in initialize, and the bookkeeping of run's two loops.
func (d *decExtractor) readerLoop(f *ast.File, run, initialize *ast.FuncDecl, facts *decFacts) {
	facts.firstOffsetConst, facts.lastOffsetConst = decNotShaped, decNotShaped
	for _, decl := range f.Decls {
		gd, ok := decl.(*ast.GenDecl)
		if !ok || gd.Tok != token.CONST {
			continue
		}
		for _, sp := range gd.Specs {
			vs, ok := sp.(*ast.ValueSpec)
			if !ok {
				continue
			}
			for i, n := range vs.Names {
				if i >= len(vs.Values) {
					continue
				}
				v := vs.Values[i]
				neg := false
				if u, ok := v.(*ast.UnaryExpr); ok && u.Op == token.SUB {
					neg, v = true, u.X
				}
				k, ok := decIntLit(v)
				if !ok {
					continue
				}
				if neg {
					k = -k
				}
				switch n.Name {
				case "FirstOffset":
					facts.firstOffsetConst = k
				case "LastOffset":
					facts.lastOffsetConst = k
				}
			}
		}
	}

	// initialize: switch { case o == FirstOffset: o = first … }; then conn.Seek(o, SeekAbsolute)
	d.enter(initialize)
	facts.initResolve = "?"
	decInspect(initialize.Body, func(n ast.Node) {
		blk, ok := n.(*ast.BlockStmt)
		if !ok {
			return
		}
		for i, s := range blk.List {
			sw, ok := s.(*ast.SwitchStmt)
			if !ok || sw.Tag != nil || sw.Init != nil || len(sw.Body.List) == 0 {
				continue
			}
			cc, ok := sw.Body.List[0].(*ast.CaseClause)
			if !ok || len(cc.List) != 1 {
				continue
			}
			cmp, ok := cc.List[0].(*ast.BinaryExpr)
			if !ok || decName(cmp.Y) != "FirstOffset" {
				continue
			}
			facts.initResolve = d.render(sw)
			for _, t := range blk.List[i+1:] {
				if call := d.containsCall(t, "$1.Seek"); call != nil && len(call.Args) == 2 &&
					decName(call.Args[0]) == decName(cmp.X) && d.render(call.Args[1]) == "SeekAbsolute" {
					facts.initSeeksResolved = true
				}
			}
		}
	})

	// run: after `conn, start, err := r.initialize(…)` and its error branch: attempt = 0; offset = start
	d.enter(run)
	var outer *ast.ForStmt
	for _, s := range run.Body.List {
		if fs, ok := s.(*ast.ForStmt); ok {
			outer = fs
		}
	}
	if outer == nil {
		return
	}
	startName, offName, attemptName := "", decParamName(run, 1), ""
	if as, ok := outer.Init.(*ast.AssignStmt); ok && len(as.Lhs) == 1 {
		attemptName = decName(as.Lhs[0])
	}
	reset, fromStart := false, false
	var readLoop *ast.ForStmt
	for _, s := range outer.Body.List {
		switch x := s.(type) {
		case *ast.AssignStmt:
			if call := d.containsCall(x, "$r.initialize"); call != nil && len(x.Lhs) == 3 {
				startName = decName(x.Lhs[1])
			}
			if x.Tok == token.ASSIGN && len(x.Lhs) == 1 && len(x.Rhs) == 1 {
				if decName(x.Lhs[0]) == attemptName && attemptName != "" {
					if k, ok := decIntLit(x.Rhs[0]); ok && k == 0 {
						reset = true
					}
				}
				if decName(x.Lhs[0]) == offName && offName != "" && decName(x.Rhs[0]) == startName && startName != "" {
					fromStart = true
				}
			}
		case *ast.LabeledStmt:
			if fs, ok := x.Stmt.(*ast.ForStmt); ok {
				readLoop = fs
			}
		}
	}
	facts.runResetsAttempt = reset && fromStart
	// what run does with the connection itself: everything that waits for the broker goes through r.initialize /
	// r.read / r.readOffsets (deadline armed first); directly it only closes the connection and moves its offset
	// without asking the broker (Seek with SeekDontCheck)
	connName := ""
	for _, s := range outer.Body.List {
		if as, ok := s.(*ast.AssignStmt); ok && len(as.Lhs) == 3 && d.containsCall(as, "$r.initialize") != nil {
			connName = decName(as.Lhs[0])
		}
	}
	if connName != "" {
		seen := map[string]bool{}
		ast.Inspect(outer.Body, func(n ast.Node) bool {
			call, ok := n.(*ast.CallExpr)
			if !ok {
				return true
			}
			sel, ok := call.Fun.(*ast.SelectorExpr)
			if !ok || decName(sel.X) != connName {
				return true
			}
			w := sel.Sel.Name
			if w == "Seek" && len(call.Args) == 2 {
				if strings.Contains(d.render(call.Args[1]), "SeekDontCheck") {
					w += "+DontCheck"
				}
			}
			seen[w] = true
			return true
		})
		var ws []string
		for w := range seen {
			ws = append(ws, w)
		}
		sort.Strings(ws)
		facts.runConnDirect = strings.Join(ws, ",")
	}
	if readLoop == nil || len(readLoop.Body.List) == 0 {
		return
	}
	if inc, ok := readLoop.Body.List[len(readLoop.Body.List)-1].(*ast.IncDecStmt); ok && inc.Tok == token.INC {
		facts.runErrcountInc = true
		errcountName := decName(inc.X)
		// the switch over the error classes: for each clause, in order, the error it names and what it does
		var words []string
		for _, s := range readLoop.Body.List {
			sw, ok := s.(*ast.SwitchStmt)
			if !ok || sw.Tag != nil {
				continue
			}
			for _, c := range sw.Body.List {
				cc := c.(*ast.CaseClause)
				name := "default"
				if len(cc.List) == 1 {
					name = d.render(cc.List[0])
				}
				var acts []string
				for _, t := range cc.Body {
					switch x := t.(type) {
					case *ast.AssignStmt:
						if len(x.Lhs) == 1 && decName(x.Lhs[0]) == errcountName {
							acts = append(acts, "errcount="+d.render(x.Rhs[0]))
						}
					case *ast.BranchStmt:
						w := x.Tok.String()
						if x.Label != nil {
							w += "-loop"
						}
						acts = append(acts, w)
					case *ast.ReturnStmt:
						acts = append(acts, "return")
					case *ast.ExprStmt:
						switch d.render(x.X) {
						case "$1.Close()":
							acts = append(acts, "close")
						case "$r.sendError($1, $2)":
							acts = append(acts, "sendError")
						}
					}
				}
				words = append(words, name+" -> "+strings.Join(acts, ","))
			}
		}
		// the clauses name pairwise different errors (and `== nil`): their order is immaterial, `default` stays last
		var named, deflt []string
		for _, w := range words {
			if strings.HasPrefix(w, "default ->") {
				deflt = append(deflt, w)
			} else {
				named = append(named, w)
			}
		}
		sort.Strings(named)
		facts.loopBranches = strings.Join(append(named, deflt...), " | ")
	}
}

// skeleton renders the body of a function with what the statement-level model does not follow removed:
// `if <recv>.debug { … }` statements, value-less `var` declarations and the error plumbing
// (`if err = f(); err != nil { return }` becomes `must(f())`).  Everything else — loop conditions, the order of the
// calls, assignments, continue / return — is kept, alpha-normalised.
func (d *decExtractor) skeleton(fd *ast.FuncDecl) string { return d.skeletonWith(fd, nil) }

func (d *decExtractor) skeletonWith(fd *ast.FuncDecl, before func(*ast.FuncDecl)) string {
	d.enter(fd)
	var strip func(l []ast.Stmt) []ast.Stmt
	strip = func(l []ast.Stmt) []ast.Stmt {
		var out []ast.Stmt
		for _, s := range l {
			// `var x T` without a value: no behaviour, and where it stands is a matter of taste
			if ds, ok := s.(*ast.DeclStmt); ok {
				if gd, ok := ds.Decl.(*ast.GenDecl); ok && gd.Tok == token.VAR {
					bare := true
					for _, sp := range gd.Specs {
						if vs, ok := sp.(*ast.ValueSpec); !ok || len(vs.Values) != 0 {
							bare = false
						}
					}
					if bare {
						continue
					}
				}
			}
			if is, ok := s.(*ast.IfStmt); ok && is.Else == nil {
				if is.Init == nil && d.render(is.Cond) == "$r.debug" {
					continue
				}
				// if err = f(); err != nil { return }
				if as, ok := is.Init.(*ast.AssignStmt); ok && len(is.Body.List) == 1 && len(as.Rhs) == 1 {
					if ret, ok := is.Body.List[0].(*ast.ReturnStmt); ok && len(ret.Results) == 0 {
						if cond, ok := is.Cond.(*ast.BinaryExpr); ok && cond.Op == token.NEQ && decName(cond.Y) == "nil" &&
							decName(cond.X) != "" && decName(as.Lhs[len(as.Lhs)-1]) == decName(cond.X) {
							call := &ast.CallExpr{Fun: ast.NewIdent("must"), Args: []ast.Expr{as.Rhs[0]}}
							if len(as.Lhs) == 1 {
								out = append(out, &ast.ExprStmt{X: call})
							} else {
								out = append(out, &ast.AssignStmt{Lhs: as.Lhs[:len(as.Lhs)-1], Tok: token.ASSIGN, Rhs: []ast.Expr{call}})
							}
							continue
						}
					}
				}
			}
			out = append(out, s)
		}
		return out
	}
	decRewriteLists(fd.Body, strip)
	// N6: `must(h(args))` where h is a helper unknown to the model whose body, with the same plumbing removed, is
	// straight-line and ends in `return <e>` / `return nil` / `return`: the body takes the place of the call
	// (an extracted run of error-checked calls)
	if d.nz != nil {
		for round := 0; round < 3; round++ {
			changed := false
			decRewriteLists(fd.Body, func(l []ast.Stmt) []ast.Stmt {
				var out []ast.Stmt
				for _, s := range l {
					if es, ok := s.(*ast.ExprStmt); ok {
						if m, ok := es.X.(*ast.CallExpr); ok && decName(m.Fun) == "must" && len(m.Args) == 1 {
							if call, ok := m.Args[0].(*ast.CallExpr); ok {
								if h := d.nz.helperOf(call); h != nil {
									if bind := d.nz.binding(h, call); bind != nil {
										if body := d.nz.cloneStmts(h.Body.List); body != nil {
											holder := &ast.BlockStmt{List: body}
											saveRecv, saveLocals := d.recv, d.locals
											d.enter(h)
											holder.List = strip(holder.List)
											d.recv, d.locals = saveRecv, saveLocals
											n := len(holder.List)
											ok := n > 0
											for i, t := range holder.List {
												switch x := t.(type) {
												case *ast.ReturnStmt:
													if i != n-1 || len(x.Results) > 1 {
														ok = false
													}
												case *ast.ExprStmt, *ast.AssignStmt, *ast.IncDecStmt:
												default:
													ok = false
												}
											}
											if ok {
												if _, isRet := holder.List[n-1].(*ast.ReturnStmt); !isRet {
													ok = false
												}
											}
											if ok {
												d.nz.subst(holder, bind)
												ret := holder.List[n-1].(*ast.ReturnStmt)
												out = append(out, holder.List[:n-1]...)
												if len(ret.Results) == 1 && decName(ret.Results[0]) != "nil" && decName(ret.Results[0]) != decLastResultName(h) {
													out = append(out, &ast.ExprStmt{X: &ast.CallExpr{Fun: ast.NewIdent("must"), Args: []ast.Expr{ret.Results[0]}}})
												}
												changed = true
												continue
											}
										}
									}
								}
							}
						}
					}
					out = append(out, s)
				}
				return out
			})
			if !changed {
				break
			}
		}
	}
	if before != nil {
		before(fd)
	}
	decClearPos(reflect.ValueOf(fd.Body))
	// N11: a run of adjacent plain assignments `x = e` (no calls, different targets, no target read by another member of
	// the run) is written in a fixed order: swapping independent assignments changes nothing
	decRewriteLists(fd.Body, func(l []ast.Stmt) []ast.Stmt {
		plain := func(st ast.Stmt) (lhs, rhs string, ok bool) {
			as, isAs := st.(*ast.AssignStmt)
			if !isAs || as.Tok != token.ASSIGN || len(as.Lhs) != 1 || len(as.Rhs) != 1 {
				return "", "", false
			}
			calls := false
			ast.Inspect(as.Rhs[0], func(n ast.Node) bool {
				if _, c := n.(*ast.CallExpr); c {
					calls = true
				}
				return true
			})
			ast.Inspect(as.Lhs[0], func(n ast.Node) bool {
				switch n.(type) {
				case *ast.CallExpr, *ast.IndexExpr, *ast.StarExpr:
					calls = true
				}
				return true
			})
			if calls {
				return "", "", false
			}
			nzp := &decNormaliser{fset: d.fset}
			return nzp.print(as.Lhs[0]), nzp.print(as.Rhs[0]), true
		}
		for i := 0; i < len(l); {
			j := i
			var lhss, rhss []string
			for j < len(l) {
				lh, rh, ok := plain(l[j])
				if !ok {
					break
				}
				indep := true
				for k := range lhss {
					if lhss[k] == lh || strings.Contains(rh, lhss[k]) || strings.Contains(rhss[k], lh) || strings.Contains(lh, lhss[k]) || strings.Contains(lhss[k], lh) {
						indep = false
					}
				}
				if !indep {
					break
				}
				lhss, rhss = append(lhss, lh), append(rhss, rh)
				j++
			}
			if j-i >= 2 {
				run := l[i:j]
				sort.SliceStable(run, func(a, b int) bool {
					la, _, _ := plain(run[a])
					lb, _, _ := plain(run[b])
					return la < lb
				})
			}
			if j == i {
				j = i + 1
			}
			i = j
		}
		return l
	})
	return d.render(fd.Body)
}

// decLastResultName is the name of the last (error) result of a function ("" if unnamed).
func decLastResultName(fd *ast.FuncDecl) string {
	if fd.Type.Results == nil || len(fd.Type.Results.List) == 0 {
		return ""
	}
	f := fd.Type.Results.List[len(fd.Type.Results.List)-1]
	if len(f.Names) == 0 {
		return ""
	}
	return f.Names[len(f.Names)-1].Name
}

// decRecvType is the receiver type name of a method ("" for a function).
func decRecvType(fd *ast.FuncDecl) string {
	if fd.Recv == nil || len(fd.Recv.List) != 1 {
		return ""
	}
	t := fd.Recv.List[0].Type
	if s, ok := t.(*ast.StarExpr); ok {
		t = s.X
	}
	if id, ok := t.(*ast.Ident); ok {
		return id.Name
	}
	return ""
}

// closure renders a function and, after it, every function of the given files it reaches, each once.  The names of
// those functions are treated like the names of locals: in the text they are `$f1`, `$f2`, … in order of first
// occurrence, so that renaming a function or method (and all its call sites) changes nothing, while a change in any of
// the bodies does.  `log` calls are left alone (debug output).
func (d *decExtractor) closure(root *ast.FuncDecl, files map[string]bool) string {
	nz := d.nz
	id := map[*ast.FuncDecl]int{}
	var order []*ast.FuncDecl
	resolve := func(cur *ast.FuncDecl, call *ast.CallExpr) *ast.FuncDecl {
		var cands []*ast.FuncDecl
		switch f := call.Fun.(type) {
		case *ast.Ident:
			for _, c := range nz.all[f.Name] {
				if c.Recv == nil {
					cands = append(cands, c)
				}
			}
		case *ast.SelectorExpr:
			var meths []*ast.FuncDecl
			for _, c := range nz.all[f.Sel.Name] {
				if c.Recv != nil {
					meths = append(meths, c)
				}
			}
			if x, ok := f.X.(*ast.Ident); ok && x.Name == decRecvIdent(cur) && decRecvType(cur) != "" {
				for _, c := range meths {
					if decRecvType(c) == decRecvType(cur) {
						cands = append(cands, c)
					}
				}
			} else if len(meths) == 1 {
				cands = meths
			}
		}
		if len(cands) != 1 || cands[0].Name.Name == "log" || cands[0] == root {
			return nil
		}
		if !files[filepath.Base(d.fset.Position(cands[0].Pos()).Filename)] {
			return nil
		}
		return cands[0]
	}
	rename := func(cur *ast.FuncDecl) {
		ast.Inspect(cur.Body, func(n ast.Node) bool {
			call, ok := n.(*ast.CallExpr)
			if !ok {
				return true
			}
			t := resolve(cur, call)
			if t == nil {
				return true
			}
			k, seen := id[t]
			if !seen {
				k = len(order) + 1
				id[t] = k
				order = append(order, t)
			}
			name := "$f" + strconv.Itoa(k)
			switch f := call.Fun.(type) {
			case *ast.Ident:
				call.Fun = ast.NewIdent(name)
			case *ast.SelectorExpr:
				call.Fun = &ast.SelectorExpr{X: f.X, Sel: ast.NewIdent(name)}
			}
			return true
		})
	}
	// positions are needed by resolve (file of a declaration): take them before the skeleton clears them
	one := func(fd *ast.FuncDecl) string {
		nz.normalise(fd)
		return d.skeletonWith(fd, rename)
	}
	parts := []string{root.Name.Name + " " + one(root)}
	for i := 0; i < len(order) && i < 80; i++ {
		parts = append(parts, "$f"+strconv.Itoa(i+1)+" "+one(order[i]))
	}
	return strings.Join(parts, " ;; ")
}

// decParamName is the name of the i-th parameter of a function ("" if there is none).
func decParamName(fd *ast.FuncDecl, i int) string {
	k := 0
	for _, f := range fd.Type.Params.List {
		for _, n := range f.Names {
			if k == i {
				return n.Name
			}
			k++
		}
	}
	return ""
}

func decLeanInt(v int64) string {
	if v < 0 {
		return fmt.Sprintf("(%d)", v)
	}
	return strconv.FormatInt(v, 10)
}

func decLeanString(s string) string {
	var b strings.Builder
	b.WriteByte('"')
	for _, r := range s {
		switch r {
		case '\\':
			b.WriteString(`\\`)
		case '"':
			b.WriteString(`\"`)
		case '\n':
			b.WriteString(`\n`)
		case '\t':
			b.WriteString(`\t`)
		case '\r':
			b.WriteString(`\r`)
		default:
			b.WriteRune(r)
		}
	}
	b.WriteByte('"')
	return b.String()
}

// lean renders the facts as Gen/DecoderFacts.lean.
func (f *decFacts) lean() string {
	var b strings.Builder
	b.WriteString("/- GENERATED by go/extract/decoder.go from message_reader.go, batch.go, reader.go of the repository under test — do not edit.\n")
	b.WriteString("Regenerated on every run of ./check C02. -/\n")
	b.WriteString("namespace KV.Gen\n\n")
	b.WriteString("structure DecoderFacts where\n")
	for _, fld := range []string{
		"hdrV0 : Nat", "hdrV1 : Nat", "hdrV2 : Nat", "v2PayloadOffset : Nat", "v2BatchRemainOffset : Nat", "v1LengthRemain : Nat",
		"skipEmptyLoop : Bool", "batchEndOnEmpty : Bool", "batchEndOnLast : Bool", "batchEndApplied : Bool",
		"jumpGuard : String", "skipBelow : String", "nextOffsetPlus : Int", "readerNextOffsetPlus : Int",
		"emptyWhenHwmEqOffset : Bool", "closeStoresOffset : Bool", "oorSeeksConn : Bool",
		"firstOffsetConst : Int", "lastOffsetConst : Int", "initResolve : String", "initSeeksResolved : Bool",
		"runResetsAttempt : Bool", "controlBatchMask : Int", "runConnDirect : String", "runErrcountInc : Bool", "loopBranches : String", "decoderText : String",
	} {
		b.WriteString("  " + fld + "\n")
	}
	b.WriteString("  deriving DecidableEq, Repr\n\n")
	b.WriteString("def decoderFacts : DecoderFacts :=\n")
	vals := []string{
		"hdrV0 := " + decLeanInt(f.hdr[0]),
		"hdrV1 := " + decLeanInt(f.hdr[1]),
		"hdrV2 := " + decLeanInt(f.hdr[2]),
		"v2PayloadOffset := " + decLeanInt(f.v2PayloadOffset),
		"v2BatchRemainOffset := " + decLeanInt(f.v2BatchRemainOffset),
		"v1LengthRemain := " + decLeanInt(f.v1LengthRemain),
		"skipEmptyLoop := " + strconv.FormatBool(f.skipEmptyLoop),
		"batchEndOnEmpty := " + strconv.FormatBool(f.batchEndOnEmpty),
		"batchEndOnLast := " + strconv.FormatBool(f.batchEndOnLast),
		"batchEndApplied := " + strconv.FormatBool(f.batchEndApplied),
		"jumpGuard := " + decLeanString(f.jumpGuard),
		"skipBelow := " + decLeanString(f.skipBelow),
		"nextOffsetPlus := " + decLeanInt(f.nextOffsetPlus),
		"readerNextOffsetPlus := " + decLeanInt(f.readerNextOffsetPlus),
		"emptyWhenHwmEqOffset := " + strconv.FormatBool(f.emptyWhenHwmEqOffset),
		"closeStoresOffset := " + strconv.FormatBool(f.closeStoresOffset),
		"oorSeeksConn := " + strconv.FormatBool(f.oorSeeksConn),
		"firstOffsetConst := " + decLeanInt(f.firstOffsetConst),
		"lastOffsetConst := " + decLeanInt(f.lastOffsetConst),
		"initResolve := " + decLeanString(f.initResolve),
		"initSeeksResolved := " + strconv.FormatBool(f.initSeeksResolved),
		"runResetsAttempt := " + strconv.FormatBool(f.runResetsAttempt),
		"controlBatchMask := " + decLeanInt(f.controlBatchMask),
		"runConnDirect := " + decLeanString(f.runConnDirect),
		"runErrcountInc := " + strconv.FormatBool(f.runErrcountInc),
		"loopBranches := " + decLeanString(f.loopBranches),
		"decoderText := " + decLeanString(f.decoderText),
	}
	b.WriteString("  { " + strings.Join(vals, ",\n    ") + " }\n\n")
	b.WriteString("end KV.Gen\n")
	return b.String()
}
