// Command extract regenerates Lean sources under /verif/lean/KafkaVerif/Gen from /repo's working tree.
// It only parses the Go sources (go/parser, go/ast); it never executes the code under test.
//
//	go run ./extract <what> <repo> <verifroot>
package main

import (
	"fmt"
	"os"
)

var extractors = map[string]func(repo, root string) error{}

func main() {
	if len(os.Args) != 4 {
		fmt.Fprintln(os.Stderr, "usage: extract <what> <repo> <verifroot>")
		os.Exit(2)
	}
	if os.Args[1] == "list" {
		for k := range extractors {
			fmt.Println(k)
		}
		return
	}
	f, ok := extractors[os.Args[1]]
	if !ok {
		fmt.Fprintln(os.Stderr, "unknown extractor", os.Args[1])
		os.Exit(2)
	}
	if err := f(os.Args[2], os.Args[3]); err != nil {
		fmt.Fprintln(os.Stderr, "extract:", err)
		os.Exit(1)
	}
}
