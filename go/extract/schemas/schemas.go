package main

// Translator "schemas": /repo/protocol/*/*.go  →  lean/KafkaVerif/Gen/Schemas.lean
//
// For every pair of types passed to protocol.Register / protocol.RegisterOverride it emits the Go struct
// tree: field order, Go kind and the RAW `kafka:"…"` tag string of every field.  Pure go/parser + go/ast —
// the code under test is never executed and the tags are NOT interpreted here: version filtering, flexible
// versions and tag inheritance are modelled in Lean (Model/Resolve.lean) and applied to the raw strings.

import (
	"fmt"
	"go/ast"
	"go/constant"
	"go/parser"
	"go/printer"
	"go/token"
	"os"
	"path/filepath"
	"reflect"
	"sort"
	"strconv"
	"strings"
)

func init() { extractors["schemas"] = extractSchemas }

type xField struct {
	name, ty, tag string
	hasTag        bool
}
type xStruct struct {
	name   string
	fields []xField
}
type xPkg struct {
	name    string
	fset    *token.FileSet
	types   map[string]ast.Expr // type name → type expression
	files   []*ast.File
	apiKeys map[string]string // receiver type → constant name returned by ApiKey()
}
type xMsg struct {
	pkg, apiName, root string
	apiKey             int
	isReq, override    bool
	structs            []xStruct
}

func loadPkg(dir string) (*xPkg, error) {
	fset := token.NewFileSet()
	ents, err := os.ReadDir(dir)
	if err != nil {
		return nil, err
	}
	p := &xPkg{name: filepath.Base(dir), fset: fset, types: map[string]ast.Expr{}, apiKeys: map[string]string{}}
	for _, e := range ents {
		n := e.Name()
		if e.IsDir() || !strings.HasSuffix(n, ".go") || strings.HasSuffix(n, "_test.go") {
			continue
		}
		f, err := parser.ParseFile(fset, filepath.Join(dir, n), nil, parser.ParseComments)
		if err != nil {
			return nil, err
		}
		p.files = append(p.files, f)
		for _, d := range f.Decls {
			switch x := d.(type) {
			case *ast.GenDecl:
				if x.Tok != token.TYPE {
					continue
				}
				for _, s := range x.Specs {
					ts := s.(*ast.TypeSpec)
					p.types[ts.Name.Name] = ts.Type
				}
			case *ast.FuncDecl:
				if x.Name.Name != "ApiKey" || x.Recv == nil || len(x.Recv.List) != 1 || x.Body == nil {
					continue
				}
				recv := ""
				switch t := x.Recv.List[0].Type.(type) {
				case *ast.Ident:
					recv = t.Name
				case *ast.StarExpr:
					if id, ok := t.X.(*ast.Ident); ok {
						recv = id.Name
					}
				}
				for _, st := range x.Body.List {
					if r, ok := st.(*ast.ReturnStmt); ok && len(r.Results) == 1 {
						if sel, ok := r.Results[0].(*ast.SelectorExpr); ok {
							p.apiKeys[recv] = sel.Sel.Name
						}
					}
				}
			}
		}
	}
	return p, nil
}

func exprString(fset *token.FileSet, e ast.Expr) string {
	var sb strings.Builder
	printer.Fprint(&sb, fset, e)
	return sb.String()
}

type xCtx struct {
	protoDir string
	extra    map[string]string // package name -> directory, for packages outside /repo/protocol
	pkgs     map[string]*xPkg
}

func (c *xCtx) pkg(name string) (*xPkg, error) {
	if p, ok := c.pkgs[name]; ok {
		return p, nil
	}
	dir := filepath.Join(c.protoDir, name)
	if d, ok := c.extra[name]; ok {
		dir = d
	}
	p, err := loadPkg(dir)
	if err != nil {
		return nil, err
	}
	c.pkgs[name] = p
	return p, nil
}

// goTy renders a field type as a Lean `GoTy` term; named struct types are queued in `need`.
// prefix is "" for the message's own package, "<pkg>." for types reached through an import.
func (c *xCtx) goTy(p *xPkg, prefix string, e ast.Expr, need *[]string) string {
	switch t := e.(type) {
	case *ast.Ident:
		switch t.Name {
		case "bool", "int8", "int16", "int32", "int64", "float64", "string":
			return "." + t.Name
		}
		if under, ok := p.types[t.Name]; ok {
			if _, isStruct := under.(*ast.StructType); isStruct {
				*need = append(*need, prefix+t.Name)
				return fmt.Sprintf("(.named %s)", strconv.Quote(prefix+t.Name))
			}
			return c.goTy(p, prefix, under, need) // named basic type: the codec switches on Kind()
		}
	case *ast.ArrayType:
		if t.Len == nil {
			if id, ok := t.Elt.(*ast.Ident); ok && (id.Name == "byte" || id.Name == "uint8") {
				return ".bytes"
			}
			return fmt.Sprintf("(.slice %s)", c.goTy(p, prefix, t.Elt, need))
		}
	case *ast.StructType:
		if t.Fields == nil || len(t.Fields.List) == 0 {
			return ".unit"
		}
	case *ast.SelectorExpr:
		if id, ok := t.X.(*ast.Ident); ok {
			if id.Name == "protocol" && t.Sel.Name == "RecordSet" {
				return ".recordSet"
			}
			if id.Name == "protocol" && t.Sel.Name == "RawRecordSet" {
				return ".rawRecordSet"
			}
			if q, err := c.pkg(id.Name); err == nil {
				if under, ok := q.types[t.Sel.Name]; ok {
					if _, isStruct := under.(*ast.StructType); isStruct {
						*need = append(*need, id.Name+"."+t.Sel.Name)
						return fmt.Sprintf("(.named %s)", strconv.Quote(id.Name+"."+t.Sel.Name))
					}
				}
			}
		}
	}
	return fmt.Sprintf("(.unsupported %s)", strconv.Quote(exprString(p.fset, e)))
}

// structTree collects root and every struct reachable from it (declaration order of discovery).
func (c *xCtx) structTree(p *xPkg, root string) ([]xStruct, error) {
	var out []xStruct
	seen := map[string]bool{}
	queue := []string{root}
	for len(queue) > 0 {
		full := queue[0]
		queue = queue[1:]
		if seen[full] {
			continue
		}
		seen[full] = true
		q, prefix, name := p, "", full
		if i := strings.IndexByte(full, '.'); i >= 0 {
			var err error
			if q, err = c.pkg(full[:i]); err != nil {
				return nil, err
			}
			prefix, name = full[:i+1], full[i+1:]
		}
		st, ok := q.types[name].(*ast.StructType)
		if !ok {
			return nil, fmt.Errorf("%s: %s is not a struct type", p.name, full)
		}
		xs := xStruct{name: full}
		for _, f := range st.Fields.List {
			var need []string
			ty := c.goTy(q, prefix, f.Type, &need)
			tag, has := "", false
			if f.Tag != nil {
				raw, err := strconv.Unquote(f.Tag.Value)
				if err != nil {
					return nil, err
				}
				tag, has = reflect.StructTag(raw).Lookup("kafka")
			}
			names := []string{}
			for _, n := range f.Names {
				names = append(names, n.Name)
			}
			if len(names) == 0 { // embedded field: not handled by forEachStructField either (reported)
				names = []string{"<embedded>"}
				ty = fmt.Sprintf("(.unsupported %s)", strconv.Quote("embedded "+exprString(q.fset, f.Type)))
			}
			for _, n := range names {
				// forEachStructField: unexported fields are skipped unless they are named "_"
				if n != "_" && !ast.IsExported(n) && n != "<embedded>" {
					continue
				}
				xs.fields = append(xs.fields, xField{name: n, ty: ty, tag: tag, hasTag: has})
				queue = append(queue, need...)
			}
		}
		out = append(out, xs)
	}
	return out, nil
}

// apiKeyConsts reads the `const ( Produce ApiKey = 0 … )` block of protocol/protocol.go.
func apiKeyConsts(protoDir string) (map[string]int, error) {
	fset := token.NewFileSet()
	f, err := parser.ParseFile(fset, filepath.Join(protoDir, "protocol.go"), nil, 0)
	if err != nil {
		return nil, err
	}
	out := map[string]int{}
	for _, d := range f.Decls {
		g, ok := d.(*ast.GenDecl)
		if !ok || g.Tok != token.CONST {
			continue
		}
		for _, s := range g.Specs {
			vs := s.(*ast.ValueSpec)
			if id, ok := vs.Type.(*ast.Ident); !ok || id.Name != "ApiKey" {
				continue
			}
			for i, n := range vs.Names {
				if i < len(vs.Values) {
					if lit, ok := vs.Values[i].(*ast.BasicLit); ok {
						v := constant.MakeFromLiteral(lit.Value, lit.Kind, 0)
						if k, ok := constant.Int64Val(v); ok {
							out[n.Name] = int(k)
						}
					}
				}
			}
		}
	}
	return out, nil
}

// typeOfArg resolves `&X{}`, `&pkg.X{}` or an identifier bound by `v := &X{}` in the same function.
func typeOfArg(e ast.Expr, locals map[string]ast.Expr) (pkg, name string, ok bool) {
	if id, isId := e.(*ast.Ident); isId {
		if b, found := locals[id.Name]; found {
			return typeOfArg(b, nil)
		}
		return "", "", false
	}
	u, isU := e.(*ast.UnaryExpr)
	if !isU || u.Op != token.AND {
		return "", "", false
	}
	cl, isC := u.X.(*ast.CompositeLit)
	if !isC {
		return "", "", false
	}
	switch t := cl.Type.(type) {
	case *ast.Ident:
		return "", t.Name, true
	case *ast.SelectorExpr:
		if id, isId := t.X.(*ast.Ident); isId {
			return id.Name, t.Sel.Name, true
		}
	}
	return "", "", false
}

func extractSchemas(repo, root string) error {
	protoDir := filepath.Join(repo, "protocol")
	consts, err := apiKeyConsts(protoDir)
	if err != nil {
		return err
	}
	ents, err := os.ReadDir(protoDir)
	if err != nil {
		return err
	}
	c := &xCtx{protoDir: protoDir, pkgs: map[string]*xPkg{}, extra: map[string]string{}}
	// the driver-registered test type with id-tagged fields (go/internal/tagtest), extracted like the others
	if st, err := os.Stat(filepath.Join(root, "go", "internal", "tagtest")); err == nil && st.IsDir() {
		c.extra["tagtest"] = filepath.Join(root, "go", "internal", "tagtest")
	}
	var msgs []xMsg
	var dirs []string
	for _, e := range ents {
		if e.IsDir() {
			dirs = append(dirs, e.Name())
		}
	}
	sort.Strings(dirs)
	if _, ok := c.extra["tagtest"]; ok {
		dirs = append(dirs, "tagtest") // last: the indices of the library's own types do not move
	}
	for _, d := range dirs {
		p, err := c.pkg(d)
		if err != nil {
			return err
		}
		for _, f := range p.files {
			for _, decl := range f.Decls {
				fd, ok := decl.(*ast.FuncDecl)
				if !ok || fd.Name.Name != "init" || fd.Recv != nil || fd.Body == nil {
					continue
				}
				locals := map[string]ast.Expr{}
				var failed error
				ast.Inspect(fd.Body, func(n ast.Node) bool {
					if as, ok := n.(*ast.AssignStmt); ok && len(as.Lhs) == 1 && len(as.Rhs) == 1 {
						if id, ok := as.Lhs[0].(*ast.Ident); ok {
							locals[id.Name] = as.Rhs[0]
						}
					}
					call, ok := n.(*ast.CallExpr)
					if !ok {
						return true
					}
					sel, ok := call.Fun.(*ast.SelectorExpr)
					if !ok || (sel.Sel.Name != "Register" && sel.Sel.Name != "RegisterOverride") || len(call.Args) < 2 {
						return true
					}
					if id, ok := sel.X.(*ast.Ident); !ok || id.Name != "protocol" {
						return true
					}
					for i, a := range call.Args[:2] {
						pk, name, ok := typeOfArg(a, locals)
						if !ok {
							failed = fmt.Errorf("%s: cannot resolve the type of Register argument %d", d, i)
							return false
						}
						owner, rootName := p, name
						if pk != "" {
							if owner, err = c.pkg(pk); err != nil {
								failed = err
								return false
							}
							rootName = pk + "." + name
						}
						keyName, ok := owner.apiKeys[name]
						if !ok {
							failed = fmt.Errorf("%s: no ApiKey() method found for %s", d, name)
							return false
						}
						key, ok := consts[keyName]
						if !ok {
							failed = fmt.Errorf("%s: unknown ApiKey constant %s", d, keyName)
							return false
						}
						tree, err := c.structTree(p, rootName)
						if err != nil {
							failed = err
							return false
						}
						msgs = append(msgs, xMsg{pkg: d, apiName: keyName, apiKey: key, root: rootName, isReq: i == 0,
							override: sel.Sel.Name == "RegisterOverride", structs: tree})
					}
					return true
				})
				if failed != nil {
					return failed
				}
			}
		}
	}
	if len(msgs) == 0 {
		return fmt.Errorf("no protocol.Register call found under %s", protoDir)
	}
	// types handed to protocol.Marshal by the root package (group metadata / assignments): `x := pkg.T{…}` …
	// `protocol.Marshal(v, x)`
	var marshaled []xMsg
	{
		fset := token.NewFileSet()
		rootPkgs, err := parser.ParseDir(fset, repo, func(fi os.FileInfo) bool {
			return !strings.HasSuffix(fi.Name(), "_test.go") && !strings.HasPrefix(fi.Name(), "verif_")
		}, 0)
		if err != nil {
			return err
		}
		seenM := map[string]bool{}
		if rp, ok := rootPkgs["kafka"]; ok {
			var fnames []string
			for n := range rp.Files {
				fnames = append(fnames, n)
			}
			sort.Strings(fnames)
			for _, fname := range fnames {
				for _, d := range rp.Files[fname].Decls {
					fd, ok := d.(*ast.FuncDecl)
					if !ok || fd.Body == nil {
						continue
					}
					locals := map[string][2]string{}
					ast.Inspect(fd.Body, func(n ast.Node) bool {
						switch x := n.(type) {
						case *ast.AssignStmt:
							if len(x.Lhs) == 1 && len(x.Rhs) == 1 {
								if id, ok := x.Lhs[0].(*ast.Ident); ok {
									if cl, ok := x.Rhs[0].(*ast.CompositeLit); ok {
										if sel, ok := cl.Type.(*ast.SelectorExpr); ok {
											if pk, ok := sel.X.(*ast.Ident); ok {
												locals[id.Name] = [2]string{pk.Name, sel.Sel.Name}
											}
										}
									}
								}
							}
						case *ast.CallExpr:
							sel, ok := x.Fun.(*ast.SelectorExpr)
							if !ok || sel.Sel.Name != "Marshal" || len(x.Args) != 2 {
								return true
							}
							if pk, ok := sel.X.(*ast.Ident); !ok || pk.Name != "protocol" {
								return true
							}
							if id, ok := x.Args[1].(*ast.Ident); ok {
								if t, ok := locals[id.Name]; ok && !seenM[t[0]+"."+t[1]] {
									seenM[t[0]+"."+t[1]] = true
									owner, err := c.pkg(t[0])
									if err != nil {
										return true
									}
									tree, err := c.structTree(owner, t[1])
									if err == nil {
										marshaled = append(marshaled, xMsg{pkg: t[0], apiName: "Marshal", apiKey: 0, root: t[1], isReq: true, structs: tree})
									}
								}
							}
						}
						return true
					})
				}
			}
		}
	}
	var sb strings.Builder
	sb.WriteString("-- GENERATED by /verif/go/extract (schemas) from /repo/protocol/*/*.go — do not edit\n")
	sb.WriteString("import KafkaVerif.Model.Schema\nnamespace KV.Gen\nopen KV.Codec\n\n")
	var names []string
	for _, m := range msgs {
		kind := "Response"
		if m.isReq {
			kind = "Request"
		}
		dn := fmt.Sprintf("m_%s_%s", m.pkg, kind)
		names = append(names, dn)
		fmt.Fprintf(&sb, "def %s : RawMsg := { pkg := %s, apiKey := %d, apiName := %s, isRequest := %v, override := %v, root := %s, structs := [\n",
			dn, strconv.Quote(m.pkg), m.apiKey, strconv.Quote(m.apiName), m.isReq, m.override, strconv.Quote(m.root))
		for i, s := range m.structs {
			fmt.Fprintf(&sb, "  { name := %s, fields := [", strconv.Quote(s.name))
			for j, f := range s.fields {
				if j > 0 {
					sb.WriteString(",")
				}
				fmt.Fprintf(&sb, "\n    { name := %s, ty := %s, tag := %s, hasTag := %v }", strconv.Quote(f.name), f.ty, strconv.Quote(f.tag), f.hasTag)
			}
			sb.WriteString("] }")
			if i+1 < len(m.structs) {
				sb.WriteString(",")
			}
			sb.WriteString("\n")
		}
		sb.WriteString("] }\n\n")
	}
	sb.WriteString("def schemas : List RawMsg := [\n  " + strings.Join(names, ",\n  ") + "]\n\n")
	var mnames []string
	for _, m := range marshaled {
		dn := fmt.Sprintf("mm_%s_%s", m.pkg, m.root)
		mnames = append(mnames, dn)
		fmt.Fprintf(&sb, "def %s : RawMsg := { pkg := %s, apiKey := 0, apiName := \"Marshal\", isRequest := true, override := false, root := %s, structs := [\n",
			dn, strconv.Quote(m.pkg), strconv.Quote(m.root))
		for i, st := range m.structs {
			fmt.Fprintf(&sb, "  { name := %s, fields := [", strconv.Quote(st.name))
			for j, f := range st.fields {
				if j > 0 {
					sb.WriteString(",")
				}
				fmt.Fprintf(&sb, "\n    { name := %s, ty := %s, tag := %s, hasTag := %v }", strconv.Quote(f.name), f.ty, strconv.Quote(f.tag), f.hasTag)
			}
			sb.WriteString("] }")
			if i+1 < len(m.structs) {
				sb.WriteString(",")
			}
			sb.WriteString("\n")
		}
		sb.WriteString("] }\n\n")
	}
	sb.WriteString("/-- types the root package hands to protocol.Marshal / Unmarshal (not registered messages) -/\n")
	sb.WriteString("def marshaled : List RawMsg := [" + strings.Join(mnames, ", ") + "]\n\nend KV.Gen\n")
	out := filepath.Join(root, "lean", "KafkaVerif", "Gen", "Schemas.lean")
	if err := os.WriteFile(out, []byte(sb.String()), 0o644); err != nil {
		return err
	}
	// the drivers' list of message prototypes, in the same order as Gen.schemas (index = schema id)
	var gb strings.Builder
	gb.WriteString("// Code generated by /verif/go/extract (schemas); DO NOT EDIT.\n\npackage msgs\n\nimport (\n\t\"github.com/segmentio/kafka-go/protocol\"\n")
	imported := map[string]bool{}
	for _, m := range msgs {
		pk, _ := splitRoot(m)
		if !imported[pk] {
			imported[pk] = true
			if pk == "tagtest" {
				fmt.Fprintf(&gb, "\t%q\n", "kvharness/internal/tagtest")
			} else {
				fmt.Fprintf(&gb, "\t%q\n", "github.com/segmentio/kafka-go/protocol/"+pk)
			}
		}
	}
	for _, m := range marshaled {
		if !imported[m.pkg] {
			imported[m.pkg] = true
			fmt.Fprintf(&gb, "\t%q\n", "github.com/segmentio/kafka-go/protocol/"+m.pkg)
		}
	}
	gb.WriteString(")\n\n// All lists every type passed to protocol.Register / RegisterOverride.\nvar All = []Msg{\n")
	for _, m := range msgs {
		pk, name := splitRoot(m)
		fmt.Fprintf(&gb, "\t{Pkg: %q, Root: %q, ApiKey: %d, IsRequest: %v, Override: %v, New: func() protocol.Message { return &%s.%s{} }},\n",
			m.pkg, m.root, m.apiKey, m.isReq, m.override, pk, name)
	}
	gb.WriteString("}\n\n// Marshaled lists the types the root package hands to protocol.Marshal (same order as Gen.marshaled).\nvar Marshaled = []MarshalType{\n")
	for _, m := range marshaled {
		fmt.Fprintf(&gb, "\t{Pkg: %q, Root: %q, New: func() interface{} { return &%s.%s{} }},\n", m.pkg, m.root, m.pkg, m.root)
	}
	gb.WriteString("}\n")
	gdir := filepath.Join(root, "go", "internal", "msgs")
	if err := os.MkdirAll(gdir, 0o755); err != nil {
		return err
	}
	return os.WriteFile(filepath.Join(gdir, "msgs_gen.go"), []byte(gb.String()), 0o644)
}

// splitRoot returns the Go package and type name of a message's root struct.
func splitRoot(m xMsg) (pkg, name string) {
	if i := strings.IndexByte(m.root, '.'); i >= 0 {
		return m.root[:i], m.root[i+1:]
	}
	return m.pkg, m.root
}
