package main

// Translator "recordcfg": the guards the record-set reader relies on → lean/KafkaVerif/Gen/RecordCfg.lean
//
// protocol/record.go, record_v1.go, record_v2.go and decode.go are searched (go/ast + the text of conditions with
// identifiers abstracted: local names may change, helper calls are not required to have a given name) for the
// seven guards of Model/RecordScan.lean `RCfg`.  Each is a statement ORDER fact inside one function: "a test of
// this shape that leaves the function / adjusts remain comes before that dangerous statement".
//
//  sizeChecked          ReadFrom: `if … int(<size>) > <d>.remain … { return }` before `<d>.remain = int(<size>)`
//  readGuard            (*decoder).Read: `if <d>.remain <= 0 { return … }` before the slice `[:<d>.remain]`
//  peekChecked          ReadFrom: after `Peek(`, `if <err> != nil { … return }` (nothing else in the condition)
//                       before the index `[magicByteOffset]`
//  countsBounded        readFromVersion2: `if <n> < 0 || int(<n>) > <len> { return }` before `make([]optimizedRecord`
//                       and `if <h> > int64(<dec>.remain) { … break|return }` before `make([]Header`
//  writeToGuard         (*decoder).writeTo: `if <n> < <limit> { <d>.remain = <n> }` and no unconditional
//                       `<d>.remain = <n>` before the copy
//  readBounded          (*decoder).read: a call of lengthOutOfBounds (or an inline `n < 0 || n > d.remain` test
//                       that returns) before `make(`
//  accountAfterDiscard  ReadFrom: `discardAll()` is called before `rn := 4 + …` is computed

import (
	"fmt"
	"go/ast"
	"go/parser"
	"go/token"
	"os"
	"path/filepath"
	"regexp"
	"strings"
)

func init() { extractors["recordcfg"] = extractRecordCfg }

type rcFile struct {
	src   string
	fset  *token.FileSet
	funcs map[string]*ast.FuncDecl
}

func rcLoad(path string) (*rcFile, error) {
	b, err := os.ReadFile(path)
	if err != nil {
		return nil, err
	}
	fset := token.NewFileSet()
	f, err := parser.ParseFile(fset, path, b, 0)
	if err != nil {
		return nil, err
	}
	out := &rcFile{src: string(b), fset: fset, funcs: map[string]*ast.FuncDecl{}}
	for _, d := range f.Decls {
		if fd, ok := d.(*ast.FuncDecl); ok && fd.Body != nil {
			// several methods may share a name (RecordSet.ReadFrom / RawRecordSet.ReadFrom): keep the longest body
			if prev, dup := out.funcs[fd.Name.Name]; !dup || fd.Body.End()-fd.Body.Pos() > prev.Body.End()-prev.Body.Pos() {
				out.funcs[fd.Name.Name] = fd
			}
		}
	}
	return out, nil
}

func (f *rcFile) text(n ast.Node) string {
	return strings.Join(strings.Fields(f.src[f.fset.Position(n.Pos()).Offset:f.fset.Position(n.End()).Offset]), " ")
}

func leaves(body *ast.BlockStmt) bool {
	found := false
	ast.Inspect(body, func(n ast.Node) bool {
		switch x := n.(type) {
		case *ast.ReturnStmt:
			found = true
		case *ast.BranchStmt:
			if x.Tok == token.BREAK {
				found = true
			}
		}
		return true
	})
	return found
}

// firstIf returns the position of the first `if` in fn whose condition matches re and whose body satisfies ok.
func (f *rcFile) firstIf(fn ast.Node, re *regexp.Regexp, ok func(*ast.IfStmt) bool) token.Pos {
	best := token.NoPos
	ast.Inspect(fn, func(n ast.Node) bool {
		if s, isIf := n.(*ast.IfStmt); isIf && re.MatchString(f.text(s.Cond)) && ok(s) {
			if best == token.NoPos || s.Pos() < best {
				best = s.Pos()
			}
		}
		return true
	})
	return best
}

// firstText returns the position of the first node of the given kind whose text matches re.
func (f *rcFile) firstText(fn ast.Node, re *regexp.Regexp) token.Pos {
	best := token.NoPos
	ast.Inspect(fn, func(n ast.Node) bool {
		switch n.(type) {
		case *ast.AssignStmt, *ast.CallExpr, *ast.IndexExpr, *ast.SliceExpr, *ast.ExprStmt:
			if re.MatchString(f.text(n)) && (best == token.NoPos || n.Pos() < best) {
				best = n.Pos()
			}
		}
		return true
	})
	return best
}

func lt(a, b token.Pos) bool { return a != token.NoPos && b != token.NoPos && a < b }

func extractRecordCfg(repo, root string) error {
	dir := filepath.Join(repo, "protocol")
	rec, err := rcLoad(filepath.Join(dir, "record.go"))
	if err != nil {
		return err
	}
	v2, err := rcLoad(filepath.Join(dir, "record_v2.go"))
	if err != nil {
		return err
	}
	dec, err := rcLoad(filepath.Join(dir, "decode.go"))
	if err != nil {
		return err
	}
	id := `[A-Za-z_][A-Za-z0-9_]*`
	facts := map[string]bool{}
	if fn, ok := rec.funcs["ReadFrom"]; ok {
		// the RecordSet method is the first ReadFrom of record.go that mentions magicByteOffset
		for _, cand := range []string{"ReadFrom"} {
			_ = cand
		}
		sizeIf := rec.firstIf(fn, regexp.MustCompile(`int\(`+id+`\) > `+id+`\.remain`), func(s *ast.IfStmt) bool { return leaves(s.Body) })
		assign := rec.firstText(fn, regexp.MustCompile(`^`+id+`\.remain = int\(`+id+`\)$`))
		facts["sizeChecked"] = lt(sizeIf, assign)
		peek := rec.firstText(fn, regexp.MustCompile(`\.Peek\(`))
		peekIf := token.NoPos
		ast.Inspect(fn, func(n ast.Node) bool {
			if s, isIf := n.(*ast.IfStmt); isIf && s.Pos() > peek && peek != token.NoPos {
				if regexp.MustCompile(`^`+id+` != nil$`).MatchString(rec.text(s.Cond)) && leaves(s.Body) && (peekIf == token.NoPos || s.Pos() < peekIf) {
					peekIf = s.Pos()
				}
			}
			return true
		})
		index := rec.firstText(fn, regexp.MustCompile(`^`+id+`\[magicByteOffset\]$`))
		facts["peekChecked"] = lt(peek, peekIf) && lt(peekIf, index)
		disc := rec.firstText(fn, regexp.MustCompile(`^`+id+`\.discardAll\(\)$`))
		rn := rec.firstText(fn, regexp.MustCompile(`^`+id+` := 4 \+ `))
		facts["accountAfterDiscard"] = lt(disc, rn)
	}
	if fn, ok := v2.funcs["readFromVersion2"]; ok {
		cnt := v2.firstIf(fn, regexp.MustCompile(id+` < 0 \|\| int\(`+id+`\) > `+id), func(s *ast.IfStmt) bool { return leaves(s.Body) })
		mk := v2.firstText(fn, regexp.MustCompile(`^make\(\[\]optimizedRecord,`))
		hdr := v2.firstIf(fn, regexp.MustCompile(id+` > int64\(`+id+`\.remain\)`), func(s *ast.IfStmt) bool { return leaves(s.Body) })
		mkh := v2.firstText(fn, regexp.MustCompile(`^make\(\[\]Header,`))
		facts["countsBounded"] = lt(cnt, mk) && lt(hdr, mkh)
	}
	if fn, ok := dec.funcs["Read"]; ok {
		g := dec.firstIf(fn, regexp.MustCompile(`^`+id+`\.remain (<= 0|< 1)$`), func(s *ast.IfStmt) bool { return leaves(s.Body) })
		sl := dec.firstText(fn, regexp.MustCompile(`\[:`+id+`\.remain\]$`))
		facts["readGuard"] = lt(g, sl)
	}
	if fn, ok := dec.funcs["writeTo"]; ok {
		g := dec.firstIf(fn, regexp.MustCompile(`^`+id+` < `+id+`$`), func(s *ast.IfStmt) bool {
			return regexp.MustCompile(id + `\.remain = ` + id).MatchString(dec.text(s.Body))
		})
		cp := dec.firstText(fn, regexp.MustCompile(`io\.Copy\(`))
		// an unconditional `d.remain = n` at the top level of the function before the copy defeats the guard
		uncond := false
		for _, st := range fn.Body.List {
			if as, ok := st.(*ast.AssignStmt); ok && st.Pos() < cp && regexp.MustCompile(`^`+id+`\.remain = `+id+`$`).MatchString(dec.text(as)) {
				uncond = true
			}
		}
		facts["writeToGuard"] = lt(g, cp) && !uncond
	}
	if fn, ok := dec.funcs["read"]; ok {
		g := dec.firstText(fn, regexp.MustCompile(`lengthOutOfBounds\(`))
		if g == token.NoPos {
			g = dec.firstIf(fn, regexp.MustCompile(id+` < 0 \|\| `+id+` > `+id+`\.remain`), func(s *ast.IfStmt) bool { return leaves(s.Body) })
		}
		mk := dec.firstText(fn, regexp.MustCompile(`^make\(\[\]byte,`))
		facts["readBounded"] = lt(g, mk)
	}
	var sb strings.Builder
	sb.WriteString("-- GENERATED by /verif/go/extract (recordcfg) from /repo/protocol/{record,record_v2,decode}.go — do not edit\n")
	sb.WriteString("import KafkaVerif.Model.RecordScan\nnamespace KV.Gen\n")
	names := []string{"sizeChecked", "readGuard", "peekChecked", "countsBounded", "writeToGuard", "readBounded", "accountAfterDiscard"}
	var parts []string
	for _, n := range names {
		parts = append(parts, fmt.Sprintf("%s := %v", n, facts[n]))
	}
	fmt.Fprintf(&sb, "def recordCfg : KV.RecordScan.RCfg := { %s }\nend KV.Gen\n", strings.Join(parts, ", "))
	return os.WriteFile(filepath.Join(root, "lean", "KafkaVerif", "Gen", "RecordCfg.lean"), []byte(sb.String()), 0o644)
}
