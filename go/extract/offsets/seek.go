package main

// Symbolic translation of (*Conn).Seek into a Lean decision tree (property C19).
//
// The function body is executed symbolically over a small imperative subset — `if`, tagless-free `switch` on a
// variable, assignments (`=`, `:=`, `+=`) to locals, parameters and `c.offset`, `return`, the call
// `first, last, err := c.ReadOffsets()` — with mutex Lock/Unlock calls ignored.  Every path ends in a `return`;
// the result is a nested Lean `if … then … else …` whose leaves give the connection offset afterwards and the
// returned value (or the kind of error).  Variables are tracked by their role, not their name: the two
// parameters, the receiver's `offset` field, the three results of ReadOffsets and the flag local computed from
// `whence & SeekDontCheck`; any other identifier is an extraction error (nothing is guessed).

import (
	"fmt"
	"go/ast"
	"go/parser"
	"go/token"
	"path/filepath"
	"strings"
)

type seekEnv struct {
	vars   map[string]string // Go identifier → Lean expression
	recv   string
	consts map[string]string
	masked bool
}

func (e *seekEnv) clone() *seekEnv {
	n := &seekEnv{vars: map[string]string{}, recv: e.recv, consts: e.consts, masked: e.masked}
	for k, v := range e.vars {
		n.vars[k] = v
	}
	return n
}

func (e *seekEnv) expr(x ast.Expr) (string, error) {
	switch v := x.(type) {
	case *ast.ParenExpr:
		return e.expr(v.X)
	case *ast.BasicLit:
		return v.Value, nil
	case *ast.Ident:
		if l, ok := e.vars[v.Name]; ok {
			return l, nil
		}
		if c, ok := e.consts[v.Name]; ok {
			return c, nil
		}
		if v.Name == "nil" {
			return "nil", nil
		}
		return "", fmt.Errorf("Seek: identifier %s outside the translated subset", v.Name)
	case *ast.SelectorExpr:
		if id, ok := v.X.(*ast.Ident); ok && id.Name == e.recv && v.Sel.Name == "offset" {
			return e.vars["#cur"], nil
		}
		return "", fmt.Errorf("Seek: selector %s outside the translated subset", exprStr(v))
	case *ast.BinaryExpr:
		// err != nil / err == nil on the ReadOffsets error
		if id, ok := v.X.(*ast.Ident); ok && e.vars[id.Name] == "#err" {
			if y, ok := v.Y.(*ast.Ident); ok && y.Name == "nil" {
				switch v.Op {
				case token.NEQ:
					return "#errNonNil", nil
				case token.EQL:
					return "#errNil", nil
				}
			}
		}
		a, err := e.expr(v.X)
		if err != nil {
			return "", err
		}
		b, err := e.expr(v.Y)
		if err != nil {
			return "", err
		}
		op := map[token.Token]string{token.ADD: "+", token.SUB: "-", token.LSS: "<", token.GTR: ">", token.LEQ: "≤", token.GEQ: "≥",
			token.EQL: "=", token.NEQ: "≠", token.LOR: "∨", token.LAND: "∧"}[v.Op]
		if op == "" {
			return "", fmt.Errorf("Seek: operator %s outside the translated subset", v.Op)
		}
		return "(" + a + " " + op + " " + b + ")", nil
	}
	return "", fmt.Errorf("Seek: expression outside the translated subset")
}

func exprStr(e ast.Expr) string {
	switch x := e.(type) {
	case *ast.Ident:
		return x.Name
	case *ast.SelectorExpr:
		return exprStr(x.X) + "." + x.Sel.Name
	case *ast.CallExpr:
		return exprStr(x.Fun) + "()"
	}
	return "?"
}

// isLockCall: c.mutex.Lock() / Unlock()
func isLockCall(s ast.Stmt) bool {
	es, ok := s.(*ast.ExprStmt)
	if !ok {
		return false
	}
	c, ok := es.X.(*ast.CallExpr)
	if !ok {
		return false
	}
	n := exprStr(c.Fun)
	return strings.HasSuffix(n, ".Lock") || strings.HasSuffix(n, ".Unlock")
}

func (e *seekEnv) exec(stmts []ast.Stmt) (string, error) {
	if len(stmts) == 0 {
		return "", fmt.Errorf("Seek: a path falls off the end of the function")
	}
	st, rest := stmts[0], stmts[1:]
	if isLockCall(st) {
		return e.exec(rest)
	}
	switch s := st.(type) {
	case *ast.ReturnStmt:
		if len(s.Results) != 2 {
			return "", fmt.Errorf("Seek: return arity")
		}
		switch r := s.Results[1].(type) {
		case *ast.Ident:
			if r.Name == "nil" {
				v, err := e.expr(s.Results[0])
				if err != nil {
					return "", err
				}
				return ".ok " + e.vars["#cur"] + " " + v, nil
			}
			if e.vars[r.Name] == "#err" {
				return ".readError", nil
			}
			if r.Name == "OffsetOutOfRange" {
				return ".outOfRange", nil
			}
		case *ast.CallExpr:
			if exprStr(r.Fun) == "fmt.Errorf" {
				return ".badWhence", nil
			}
		}
		return "", fmt.Errorf("Seek: return value outside the translated subset")
	case *ast.AssignStmt:
		// seekDontCheck := (whence & SeekDontCheck) != 0      whence &= ^SeekDontCheck
		if len(s.Lhs) == 1 && len(s.Rhs) == 1 {
			if id, ok := s.Lhs[0].(*ast.Ident); ok {
				if s.Tok == token.AND_ASSIGN || s.Tok == token.AND_NOT_ASSIGN { // the flag is cleared from whence
					e.masked = true
					return e.exec(rest)
				}
				if b, ok := s.Rhs[0].(*ast.BinaryExpr); ok && b.Op == token.NEQ {
					if in, ok := unparen(b.X).(*ast.BinaryExpr); ok && in.Op == token.AND {
						e.vars[id.Name] = "(dc = true)"
						return e.exec(rest)
					}
				}
				if b, ok := s.Rhs[0].(*ast.BinaryExpr); ok && b.Op == token.EQL && s.Tok == token.DEFINE {
					v, err := e.expr(b)
					if err != nil {
						return "", err
					}
					e.vars[id.Name] = v
					return e.exec(rest)
				}
			}
		}
		// first, last, err := c.ReadOffsets()
		if len(s.Lhs) == 3 && len(s.Rhs) == 1 {
			if c, ok := s.Rhs[0].(*ast.CallExpr); ok && exprStr(c.Fun) == e.recv+".ReadOffsets" {
				okEnv, errEnv := e.clone(), e.clone()
				okEnv.vars[s.Lhs[0].(*ast.Ident).Name] = "fl.1"
				okEnv.vars[s.Lhs[1].(*ast.Ident).Name] = "fl.2"
				okEnv.vars[s.Lhs[2].(*ast.Ident).Name] = "#err"
				okEnv.vars["#errState"] = "nil"
				errEnv.vars[s.Lhs[0].(*ast.Ident).Name] = "0"
				errEnv.vars[s.Lhs[1].(*ast.Ident).Name] = "0"
				errEnv.vars[s.Lhs[2].(*ast.Ident).Name] = "#err"
				errEnv.vars["#errState"] = "nonnil"
				a, err := errEnv.exec(rest)
				if err != nil {
					return "", err
				}
				b, err := okEnv.exec(rest)
				if err != nil {
					return "", err
				}
				return "(match offsets with | none => " + a + " | some fl => " + b + ")", nil
			}
		}
		if len(s.Lhs) != 1 || len(s.Rhs) != 1 {
			return "", fmt.Errorf("Seek: assignment outside the translated subset")
		}
		v, err := e.expr(s.Rhs[0])
		if err != nil {
			return "", err
		}
		target := ""
		switch l := s.Lhs[0].(type) {
		case *ast.Ident:
			target = l.Name
		case *ast.SelectorExpr:
			if id, ok := l.X.(*ast.Ident); ok && id.Name == e.recv && l.Sel.Name == "offset" {
				target = "#cur"
			}
		}
		if target == "" {
			return "", fmt.Errorf("Seek: assignment target outside the translated subset")
		}
		switch s.Tok {
		case token.ASSIGN, token.DEFINE:
			e.vars[target] = v
		case token.ADD_ASSIGN:
			e.vars[target] = "(" + e.vars[target] + " + " + v + ")"
		default:
			return "", fmt.Errorf("Seek: assignment operator outside the translated subset")
		}
		return e.exec(rest)
	case *ast.IfStmt:
		if s.Init != nil {
			return "", fmt.Errorf("Seek: if with init outside the translated subset")
		}
		c, err := e.expr(s.Cond)
		if err != nil {
			return "", err
		}
		thenEnv, elseEnv := e.clone(), e.clone()
		a, err := thenEnv.exec(append(append([]ast.Stmt{}, s.Body.List...), rest...))
		if err != nil {
			return "", err
		}
		var elseStmts []ast.Stmt
		switch el := s.Else.(type) {
		case *ast.BlockStmt:
			elseStmts = el.List
		case *ast.IfStmt:
			elseStmts = []ast.Stmt{el}
		}
		b, err := elseEnv.exec(append(append([]ast.Stmt{}, elseStmts...), rest...))
		if err != nil {
			return "", err
		}
		// a test on the ReadOffsets error is decided by the branch of the match we are in
		switch c {
		case "#errNonNil":
			if e.vars["#errState"] == "nonnil" {
				return a, nil
			}
			return b, nil
		case "#errNil":
			if e.vars["#errState"] == "nonnil" {
				return b, nil
			}
			return a, nil
		}
		return "(if " + c + " then " + a + " else " + b + ")", nil
	case *ast.SwitchStmt:
		if s.Init != nil || s.Tag == nil {
			return "", fmt.Errorf("Seek: switch form outside the translated subset")
		}
		tag, err := e.expr(s.Tag)
		if err != nil {
			return "", err
		}
		type arm struct {
			cond string
			body []ast.Stmt
		}
		var arms []arm
		var deflt []ast.Stmt
		hasDefault := false
		for _, cl := range s.Body.List {
			cc := cl.(*ast.CaseClause)
			if cc.List == nil {
				deflt, hasDefault = cc.Body, true
				continue
			}
			var cs []string
			for _, x := range cc.List {
				v, err := e.expr(x)
				if err != nil {
					return "", err
				}
				cs = append(cs, tag+" = "+v)
			}
			arms = append(arms, arm{"(" + strings.Join(cs, " ∨ ") + ")", cc.Body})
		}
		var tail string
		if hasDefault {
			tail, err = e.clone().exec(append(append([]ast.Stmt{}, deflt...), rest...))
		} else {
			tail, err = e.clone().exec(rest)
		}
		if err != nil {
			return "", err
		}
		for i := len(arms) - 1; i >= 0; i-- {
			b, err := e.clone().exec(append(append([]ast.Stmt{}, arms[i].body...), rest...))
			if err != nil {
				return "", err
			}
			tail = "(if " + arms[i].cond + " then " + b + " else " + tail + ")"
		}
		return tail, nil
	}
	return "", fmt.Errorf("Seek: statement outside the translated subset")
}

func unparen(e ast.Expr) ast.Expr {
	for {
		p, ok := e.(*ast.ParenExpr)
		if !ok {
			return e
		}
		e = p.X
	}
}

// seekTree returns the Lean body of `seekSrc cur offset whence dc offsets`.
func seekTree(repo string) (string, error) {
	fset := token.NewFileSet()
	f, err := parser.ParseFile(fset, filepath.Join(repo, "conn.go"), nil, 0)
	if err != nil {
		return "", err
	}
	for _, d := range f.Decls {
		fd, ok := d.(*ast.FuncDecl)
		if !ok || fd.Body == nil || fd.Name.Name != "Seek" || recvOf(fd) != "Conn" {
			continue
		}
		var params []string
		for _, fl := range fd.Type.Params.List {
			for _, n := range fl.Names {
				params = append(params, n.Name)
			}
		}
		if len(params) != 2 || len(fd.Recv.List[0].Names) != 1 {
			return "", fmt.Errorf("Seek: unexpected signature")
		}
		env := &seekEnv{vars: map[string]string{params[0]: "offset", params[1]: "whence", "#cur": "cur"}, recv: fd.Recv.List[0].Names[0].Name,
			consts: map[string]string{"SeekStart": "seekStart", "SeekAbsolute": "seekAbsolute", "SeekEnd": "seekEnd", "SeekCurrent": "seekCurrent"}}
		tree, err := env.exec(fd.Body.List)
		if err != nil {
			return "", err
		}
		return tree, nil
	}
	return "", fmt.Errorf("conn.go: (*Conn).Seek not found")
}
