package main

// error.go makeError(code, message): for which codes does it return nil?  Error codes are signed (−1 is
// UNKNOWN_SERVER_ERROR); only 0 means "no error".  The guard of the `return nil` is translated into a Lean proposition.

import (
	"fmt"
	"go/ast"
	"go/parser"
	"go/token"
	"path/filepath"
	"strings"
)

func makeErrorNilGuard(repo string) (string, error) {
	f, err := parser.ParseFile(token.NewFileSet(), filepath.Join(repo, "error.go"), nil, 0)
	if err != nil {
		return "", err
	}
	for _, d := range f.Decls {
		fd, ok := d.(*ast.FuncDecl)
		if !ok || fd.Body == nil || fd.Recv != nil || fd.Name.Name != "makeError" {
			continue
		}
		if len(fd.Type.Params.List) == 0 || len(fd.Type.Params.List[0].Names) == 0 {
			return "", fmt.Errorf("makeError: unexpected parameters")
		}
		code := fd.Type.Params.List[0].Names[0].Name
		var cond func(e ast.Expr) (string, error)
		term := func(e ast.Expr) (string, error) {
			switch v := e.(type) {
			case *ast.Ident:
				if v.Name == code {
					return "code", nil
				}
			case *ast.BasicLit:
				if v.Kind == token.INT {
					return v.Value, nil
				}
			case *ast.UnaryExpr:
				if v.Op == token.SUB {
					if l, ok := v.X.(*ast.BasicLit); ok && l.Kind == token.INT {
						return "(-" + l.Value + ")", nil
					}
				}
			}
			return "", fmt.Errorf("makeError: term outside the translated subset")
		}
		cond = func(e ast.Expr) (string, error) {
			switch v := e.(type) {
			case *ast.ParenExpr:
				return cond(v.X)
			case *ast.BinaryExpr:
				if v.Op == token.LAND || v.Op == token.LOR {
					a, err := cond(v.X)
					if err != nil {
						return "", err
					}
					b, err := cond(v.Y)
					if err != nil {
						return "", err
					}
					return "(" + a + map[token.Token]string{token.LAND: " ∧ ", token.LOR: " ∨ "}[v.Op] + b + ")", nil
				}
				op := map[token.Token]string{token.LSS: "<", token.GTR: ">", token.LEQ: "≤", token.GEQ: "≥", token.EQL: "=", token.NEQ: "≠"}[v.Op]
				if op == "" {
					break
				}
				a, err := term(v.X)
				if err != nil {
					return "", err
				}
				b, err := term(v.Y)
				if err != nil {
					return "", err
				}
				return "(" + a + " " + op + " " + b + ")", nil
			}
			return "", fmt.Errorf("makeError: condition outside the translated subset")
		}
		// the nil returns, in order, each under the negation of the guards before it
		var guards []string
		for _, st := range fd.Body.List {
			is, ok := st.(*ast.IfStmt)
			if !ok || is.Init != nil || is.Else != nil || len(is.Body.List) != 1 {
				continue
			}
			ret, ok := is.Body.List[0].(*ast.ReturnStmt)
			if !ok || len(ret.Results) != 1 {
				continue
			}
			if id, ok := ret.Results[0].(*ast.Ident); ok && id.Name == "nil" {
				c, err := cond(is.Cond)
				if err != nil {
					return "", err
				}
				guards = append(guards, c)
				continue
			}
			break // a non-nil return guarded by something else: later nil returns are not reachable for the codes it takes
		}
		if len(guards) == 0 {
			return "False", nil
		}
		return strings.Join(guards, " ∨ "), nil
	}
	return "", fmt.Errorf("error.go: makeError not found")
}

func emitMakeError(repo string, b *strings.Builder) error {
	g, err := makeErrorNilGuard(repo)
	if err != nil {
		return err
	}
	b.WriteString("/-- error.go makeError: the codes it turns into a nil error -/\n")
	fmt.Fprintf(b, "def makeErrorIsNil (code : Int) : Bool := decide (%s)\n\n", g)
	return nil
}
