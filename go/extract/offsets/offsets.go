package main

// Translator for property C19: constants and literal shapes the offset models rely on.
//
// Reads (go/parser + go/ast only):
//   - conn.go      SeekStart, SeekAbsolute, SeekEnd, SeekCurrent, SeekDontCheck (constant expressions evaluated)
//   - reader.go    FirstOffset, LastOffset
//   - protocol/listoffsets/listoffsets.go
//       (*Response).Merge: the field values of the ResponsePartition composite literal written for a failed part
//       (the UNKNOWN placeholder), whichever local names are used, and the fields compared by the partition sort
//       (*Request).Split: the fields copied into each single-partition request
//
// Writes lean/KafkaVerif/Gen/Offsets.lean.

import (
	"fmt"
	"go/ast"
	"go/parser"
	"go/token"
	"os"
	"path/filepath"
	"sort"
	"strconv"
	"strings"
)

func init() { extractors["offsets"] = extractOffsets }

// evalInt evaluates an integer constant expression over already known constants.
func evalInt(e ast.Expr, env map[string]int64) (int64, bool) {
	switch x := e.(type) {
	case *ast.BasicLit:
		if x.Kind != token.INT {
			return 0, false
		}
		v, err := strconv.ParseInt(x.Value, 0, 64)
		return v, err == nil
	case *ast.ParenExpr:
		return evalInt(x.X, env)
	case *ast.Ident:
		v, ok := env[x.Name]
		return v, ok
	case *ast.UnaryExpr:
		v, ok := evalInt(x.X, env)
		if !ok {
			return 0, false
		}
		switch x.Op {
		case token.SUB:
			return -v, true
		case token.ADD:
			return v, true
		}
	case *ast.BinaryExpr:
		a, ok1 := evalInt(x.X, env)
		b, ok2 := evalInt(x.Y, env)
		if !ok1 || !ok2 {
			return 0, false
		}
		switch x.Op {
		case token.SHL:
			return a << uint(b), true
		case token.ADD:
			return a + b, true
		case token.SUB:
			return a - b, true
		case token.MUL:
			return a * b, true
		case token.OR:
			return a | b, true
		}
	case *ast.CallExpr: // int64(…)
		if len(x.Args) == 1 {
			return evalInt(x.Args[0], env)
		}
	}
	return 0, false
}

func fileConsts(path string, want []string) (map[string]int64, error) {
	fset := token.NewFileSet()
	f, err := parser.ParseFile(fset, path, nil, 0)
	if err != nil {
		return nil, err
	}
	env := map[string]int64{}
	for _, d := range f.Decls {
		gd, ok := d.(*ast.GenDecl)
		if !ok || gd.Tok != token.CONST {
			continue
		}
		for _, s := range gd.Specs {
			vs := s.(*ast.ValueSpec)
			for i, n := range vs.Names {
				if i < len(vs.Values) {
					if v, ok := evalInt(vs.Values[i], env); ok {
						env[n.Name] = v
					}
				}
			}
		}
	}
	out := map[string]int64{}
	for _, w := range want {
		v, ok := env[w]
		if !ok {
			return nil, fmt.Errorf("%s: constant %s not found or not an integer constant expression", path, w)
		}
		out[w] = v
	}
	return out, nil
}

func recvOf(fd *ast.FuncDecl) string {
	if fd.Recv == nil || len(fd.Recv.List) != 1 {
		return ""
	}
	switch t := fd.Recv.List[0].Type.(type) {
	case *ast.Ident:
		return t.Name
	case *ast.StarExpr:
		if id, ok := t.X.(*ast.Ident); ok {
			return id.Name
		}
	}
	return ""
}

func extractOffsets(repo, root string) error {
	seek, err := fileConsts(filepath.Join(repo, "conn.go"), []string{"SeekStart", "SeekAbsolute", "SeekEnd", "SeekCurrent", "SeekDontCheck"})
	if err != nil {
		return err
	}
	offs, err := fileConsts(filepath.Join(repo, "reader.go"), []string{"FirstOffset", "LastOffset"})
	if err != nil {
		return err
	}
	fset := token.NewFileSet()
	f, err := parser.ParseFile(fset, filepath.Join(repo, "protocol", "listoffsets", "listoffsets.go"), nil, 0)
	if err != nil {
		return err
	}
	placeholder := map[string]int64{}
	var sortFields, splitReqFields, splitPartFields []string
	for _, d := range f.Decls {
		fd, ok := d.(*ast.FuncDecl)
		if !ok || fd.Body == nil {
			continue
		}
		switch {
		case fd.Name.Name == "Merge" && recvOf(fd) == "Response":
			ast.Inspect(fd.Body, func(n ast.Node) bool {
				switch x := n.(type) {
				case *ast.CompositeLit:
					if id, ok := x.Type.(*ast.Ident); ok && id.Name == "ResponsePartition" {
						for _, el := range x.Elts {
							kv, ok := el.(*ast.KeyValueExpr)
							if !ok {
								continue
							}
							if v, ok := evalInt(kv.Value, nil); ok {
								placeholder[kv.Key.(*ast.Ident).Name] = v
							} else {
								placeholder[kv.Key.(*ast.Ident).Name+"#copied"] = 0
							}
						}
					}
				case *ast.FuncLit: // the less function of sort.Slice over partitions: fields compared with <
					ast.Inspect(x.Body, func(m ast.Node) bool {
						if b, ok := m.(*ast.BinaryExpr); ok && b.Op == token.LSS {
							if s, ok := b.X.(*ast.SelectorExpr); ok {
								sortFields = append(sortFields, s.Sel.Name)
							}
						}
						return true
					})
				}
				return true
			})
		case fd.Name.Name == "Split" && recvOf(fd) == "Request":
			ast.Inspect(fd.Body, func(n ast.Node) bool {
				if x, ok := n.(*ast.CompositeLit); ok {
					name := ""
					switch t := x.Type.(type) {
					case *ast.Ident:
						name = t.Name
					}
					for _, el := range x.Elts {
						if kv, ok := el.(*ast.KeyValueExpr); ok {
							if k, ok := kv.Key.(*ast.Ident); ok {
								switch name {
								case "Request":
									splitReqFields = append(splitReqFields, k.Name)
								case "":
									// element of []RequestPartition{{…}} / []RequestTopic{{…}}: type elided
									splitPartFields = append(splitPartFields, k.Name)
								}
							}
						}
					}
				}
				return true
			})
		}
	}
	for _, k := range []string{"ErrorCode", "Timestamp", "Offset", "LeaderEpoch"} {
		if _, ok := placeholder[k]; !ok {
			return fmt.Errorf("listoffsets Merge: placeholder literal has no constant %s", k)
		}
	}
	if _, ok := placeholder["Partition#copied"]; !ok {
		return fmt.Errorf("listoffsets Merge: placeholder literal does not copy the partition")
	}
	sort.Strings(splitReqFields)
	sort.Strings(splitPartFields)
	q := func(xs []string) string {
		ys := make([]string, len(xs))
		for i, x := range xs {
			ys[i] = strconv.Quote(x)
		}
		return "[" + strings.Join(ys, ", ") + "]"
	}
	var b strings.Builder
	b.WriteString("/- GENERATED by go/extract/offsets from /repo/conn.go, /repo/reader.go and\n   /repo/protocol/listoffsets/listoffsets.go (go/ast only).  Overwritten on every run — do not edit. -/\n")
	b.WriteString("namespace KV.Gen.Offsets\n\n")
	fmt.Fprintf(&b, "def seekStart : Int := %d\ndef seekAbsolute : Int := %d\ndef seekEnd : Int := %d\ndef seekCurrent : Int := %d\n", seek["SeekStart"], seek["SeekAbsolute"], seek["SeekEnd"], seek["SeekCurrent"])
	fmt.Fprintf(&b, "/-- SeekDontCheck -/\ndef seekDontCheck : Nat := %d\n\n", seek["SeekDontCheck"])
	fmt.Fprintf(&b, "def firstOffset : Int := %d\ndef lastOffset : Int := %d\n\n", offs["FirstOffset"], offs["LastOffset"])
	b.WriteString("/-- the ResponsePartition Merge writes for every partition of a failed part (Partition is copied) -/\n")
	fmt.Fprintf(&b, "def placeholderError : Int := %d\ndef placeholderTimestamp : Int := %d\ndef placeholderOffset : Int := %d\ndef placeholderLeaderEpoch : Int := %d\n\n",
		placeholder["ErrorCode"], placeholder["Timestamp"], placeholder["Offset"], placeholder["LeaderEpoch"])
	b.WriteString("/-- fields compared (with <) by the partition sort of Merge, in source order -/\n")
	fmt.Fprintf(&b, "def mergeSortFields : List String := %s\n\n", q(sortFields))
	b.WriteString("/-- fields Split copies into each single-partition request (sorted) -/\n")
	fmt.Fprintf(&b, "def splitRequestFields : List String := %s\ndef splitInnerFields : List String := %s\n\n", q(splitReqFields), q(splitPartFields))
	tree, err := seekTree(repo)
	if err != nil {
		return err
	}
	b.WriteString("/-- outcome of Seek: the connection offset afterwards and the value returned, or the kind of error -/\n")
	b.WriteString("inductive SeekOut where\n  | ok (newOffset returned : Int) | badWhence | outOfRange | readError\n  deriving DecidableEq, Repr, Inhabited\n\n")
	b.WriteString("/-- conn.go (*Conn).Seek executed symbolically, path by path: `cur` = c.offset before, `whence` with the\nSeekDontCheck flag cleared, `dc` = that flag, `offsets` = result of ReadOffsets (`none` = error) -/\n")
	fmt.Fprintf(&b, "def seekSrc (cur offset whence : Int) (dc : Bool) (offsets : Option (Int × Int)) : SeekOut :=\n  %s\n\n", tree)
	if err := emitMakeError(repo, &b); err != nil {
		return err
	}
	if err := emitWireSince(repo, &b); err != nil {
		return err
	}
	b.WriteString("end KV.Gen.Offsets\n")
	return os.WriteFile(filepath.Join(root, "lean", "KafkaVerif", "Gen", "Offsets.lean"), []byte(b.String()), 0o644)
}
