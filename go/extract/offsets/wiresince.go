package main

// First version at which the response fields of the offset APIs are on the wire, read from the struct tags of the
// library's Response types (`kafka:"min=vN,…"`): what the decoder will look for at a given version.  Compared in
// Props/C19.lean with the table transcribed from the Kafka protocol guide (Spec/Offsets.lean wireSince) — the same table
// the fake broker's hand-written encoders follow.

import (
	"fmt"
	"go/ast"
	"go/parser"
	"go/token"
	"path/filepath"
	"regexp"
	"strconv"
	"strings"
)

var minTag = regexp.MustCompile(`min=v(\d+)`)

func wireSince(repo string) ([][2]string, error) {
	want := [][3]string{ // package, struct, field
		{"offsetfetch", "Response", "ThrottleTimeMs"},
		{"offsetfetch", "Response", "Topics"},
		{"offsetfetch", "Response", "ErrorCode"},
		{"offsetfetch", "ResponsePartition", "CommittedOffset"},
		{"offsetfetch", "ResponsePartition", "ComittedLeaderEpoch"},
		{"offsetfetch", "ResponsePartition", "Metadata"},
		{"offsetfetch", "ResponsePartition", "ErrorCode"},
		{"listoffsets", "Response", "ThrottleTimeMs"},
		{"listoffsets", "ResponsePartition", "ErrorCode"},
		{"listoffsets", "ResponsePartition", "Timestamp"},
		{"listoffsets", "ResponsePartition", "Offset"},
		{"listoffsets", "ResponsePartition", "LeaderEpoch"},
		{"offsetcommit", "Response", "ThrottleTimeMs"},
		{"offsetcommit", "ResponsePartition", "ErrorCode"},
	}
	var out [][2]string
	parsed := map[string][]*ast.File{}
	for _, w := range want {
		if _, ok := parsed[w[0]]; !ok {
			files, _ := filepath.Glob(filepath.Join(repo, "protocol", w[0], "*.go"))
			for _, file := range files {
				if strings.HasSuffix(file, "_test.go") {
					continue
				}
				f, err := parser.ParseFile(token.NewFileSet(), file, nil, 0)
				if err != nil {
					return nil, err
				}
				parsed[w[0]] = append(parsed[w[0]], f)
			}
		}
		found := false
		for _, f := range parsed[w[0]] {
			ast.Inspect(f, func(n ast.Node) bool {
				ts, ok := n.(*ast.TypeSpec)
				if !ok || ts.Name.Name != w[1] {
					return true
				}
				st, ok := ts.Type.(*ast.StructType)
				if !ok {
					return true
				}
				for _, fl := range st.Fields.List {
					for _, nm := range fl.Names {
						if nm.Name != w[2] || fl.Tag == nil {
							continue
						}
						min := -1
						for _, m := range minTag.FindAllStringSubmatch(fl.Tag.Value, -1) {
							v, _ := strconv.Atoi(m[1])
							if min < 0 || v < min {
								min = v
							}
						}
						out = append(out, [2]string{w[0] + "." + w[1] + "." + w[2], strconv.Itoa(min)})
						found = true
					}
				}
				return false
			})
		}
		if !found {
			return nil, fmt.Errorf("protocol/%s: field %s.%s not found", w[0], w[1], w[2])
		}
	}
	return out, nil
}

func emitWireSince(repo string, b *strings.Builder) error {
	ws, err := wireSince(repo)
	if err != nil {
		return err
	}
	b.WriteString("/-- first version at which the decoder expects the response field on the wire (struct tags of the library) -/\n")
	b.WriteString("def responseFieldSince : List (String × Int) := [\n")
	for i, w := range ws {
		sep := ","
		if i == len(ws)-1 {
			sep = ""
		}
		fmt.Fprintf(b, "  (%q, %s)%s\n", w[0], w[1], sep)
	}
	b.WriteString("]\n\n")
	return nil
}
