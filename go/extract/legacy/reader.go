package main

// The hand-written response READERS of the Conn codec: every `func (t *T) readFrom(r *bufio.Reader, size int)` whose
// type was translated is read as a sequence of statements over the primitives of Base/LegacyRead.lean:
//
//	if remain, err = readX(r, remain, &t.F); err != nil { return }          rdField readX  {t with F := x}
//	if remain, err = (&t.F).readFrom(r, remain); err != nil { return }      rdField (N.readFrom t.F) {t with F := x}
//	fn := func(…) { var item E | item := E{v: t.v}; … (&item).readFrom …; t.F = append(t.F, item) }
//	if remain, err = readArrayWith(r, remain, fn); err != nil { return }    rdField (readArrayWith (E.readFrom zero)) {t with F := t.F ++ x}
//	if t.v >= vN { … }                                                      rdIf
//	remain = size / return                                                  -
//
// and, for the types Conn passes to the reflective `read()` (readStruct: the fields in DECLARATION order), from the
// struct declaration.  Generated: `T.zero`, `T.readFrom`, `T.Ok` (field ranges; fields absent at the version are zero;
// elements carry the version of their parent) and
//
//	theorem T.read_write : T.Ok t → T.readFrom (T.zero …) (T.writeTo t ++ rest) = some (t, rest)
//
// — the reader inverts the writer, field by field (a reader that stores a value in another field, reads another
// width, or forgets a version test fails the theorem).  Which byte count is passed as `size`/`remain` is NOT
// modelled (the body is the byte list); C11 owns the remain accounting.

import (
	"fmt"
	"go/ast"
	"go/token"
	"sort"
	"strings"
)

type rdField struct {
	name  string
	conds []string // Prop texts of the enclosing version tests
}

type rdCtx struct {
	c        *lgCtx
	t        *lgType
	recv     string
	closures map[string][3]string // fn name -> element type, target field, "v" if constructed with v: t.v
	okFields []string             // lines of the Ok structure
	haves    []string
	condSet  map[string]bool
	read     map[string]bool
	ready    map[string]bool // types whose reader exists
}

func (x *rdCtx) fieldOf(e ast.Expr) string {
	// &t.F
	u, ok := e.(*ast.UnaryExpr)
	if !ok || u.Op != token.AND {
		bad("reader target %s", x.c.src(e))
	}
	sel, ok := u.X.(*ast.SelectorExpr)
	if !ok {
		bad("reader target %s", x.c.src(e))
	}
	id, ok := sel.X.(*ast.Ident)
	if !ok || id.Name != x.recv {
		bad("reader target %s", x.c.src(e))
	}
	return sel.Sel.Name
}

func (x *rdCtx) goFieldType(name string) ast.Expr {
	for _, f := range x.t.st.Fields.List {
		for _, n := range f.Names {
			if n.Name == name {
				return f.Type
			}
		}
	}
	bad("no field %s in %s", name, x.t.name)
	return nil
}

func zeroOf(lt string) string {
	switch {
	case lt == "Int":
		return "0"
	case lt == "Bytes":
		return "[]"
	case lt == "Bool":
		return "false"
	case lt == "(Option Bytes)":
		return "none"
	case strings.HasPrefix(lt, "(List "):
		return "[]"
	}
	return lt + ".zero"
}

func (x *rdCtx) gate(f string, conds []string) {
	x.read[f] = true
	if len(conds) > 0 {
		lt := x.c.leanType(x.goFieldType(f))
		x.okFields = append(x.okFields, fmt.Sprintf("  %s_off : ¬ (%s) → t.%s = %s", f, strings.Join(conds, " ∧ "), f, zeroOf(lt)))
	}
}

// primitive readers: name -> (Lean reader, Ok lines builder)
func (x *rdCtx) primitive(fn, f string) (string, bool) {
	add := func(format string, a ...interface{}) { x.okFields = append(x.okFields, fmt.Sprintf(format, a...)) }
	want := func(lt string) {
		if got := x.c.leanType(x.goFieldType(f)); got != lt {
			bad("%s stores into field %s of model type %s", fn, f, got)
		}
	}
	switch fn {
	case "readInt8", "readInt16", "readInt32", "readInt64":
		want("Int")
		add("  %s_ok : inRng %s t.%s", f, fn[len("readInt"):], f)
	case "readBool":
		want("Bool")
	case "readString":
		want("Bytes")
		if id, ok := x.goFieldType(f).(*ast.Ident); !ok || id.Name != "string" {
			bad("readString into non-string field %s", f)
		}
		add("  %s_ok : t.%s.length < 2 ^ 15", f, f)
	case "readBytes":
		want("Bytes")
		add("  %s_ok : t.%s.length < 2 ^ 31", f, f)
	case "readStringArray":
		want("(List Bytes)")
		add("  %s_ok : ∀ x ∈ t.%s, x.length < 2 ^ 15", f, f)
		add("  %s_len : t.%s.length < 2 ^ 31", f, f)
	default:
		return "", false
	}
	return fn, true
}

func (x *rdCtx) versionCond(e ast.Expr) string {
	env := &lgEnv{c: x.c, t: x.t, recv: x.recv, vars: map[string]string{}}
	c := env.cond(e)
	if !strings.HasPrefix(c, "decide (") {
		bad("reader condition %s", x.c.src(e))
	}
	return c
}

func (x *rdCtx) stmts(list []ast.Stmt, conds []string) []string {
	var steps []string
	call := func(ce *ast.CallExpr) string {
		switch fun := ce.Fun.(type) {
		case *ast.Ident:
			if fun.Name == "readArrayWith" && len(ce.Args) == 3 {
				id, ok := ce.Args[2].(*ast.Ident)
				if !ok {
					bad("readArrayWith callback %s", x.c.src(ce.Args[2]))
				}
				cl, ok := x.closures[id.Name]
				if !ok {
					bad("readArrayWith callback %s is not a recognised element closure", id.Name)
				}
				el, f, ver := cl[0], cl[1], cl[2]
				if !x.ready[el] {
					bad("element type %s has no translated reader", el)
				}
				if got := x.c.leanType(x.goFieldType(f)); got != "(List "+el+")" {
					bad("elements of %s appended to field %s of type %s", el, f, got)
				}
				zero := el + ".zero"
				x.okFields = append(x.okFields, fmt.Sprintf("  %s_len : t.%s.length < 2 ^ 31", f, f), fmt.Sprintf("  %s_ok : ∀ x ∈ t.%s, %s.Ok x", f, f, el))
				proof := fmt.Sprintf("fun x hx r => %s.read_write x (h.%s_ok x hx) r", el, f)
				if ver == "v" {
					zero = "(" + el + ".zero t.v)"
					x.okFields = append(x.okFields, fmt.Sprintf("  %s_v : ∀ x ∈ t.%s, x.v = t.v", f, f))
					proof = fmt.Sprintf("fun x hx r => by have := %s.read_write x (h.%s_ok x hx) r; rwa [h.%s_v x hx] at this", el, f, f)
				} else if x.c.versioned[el] {
					bad("versioned element type %s constructed without v: t.v", el)
				}
				x.haves = append(x.haves, fmt.Sprintf("  have a%s := fun r => readArrayWith_writeArray (%s.readFrom %s) %s.writeTo t.%s r\n    (%s) h.%s_len",
					f, el, zero, el, f, proof, f))
				x.gate(f, conds)
				return fmt.Sprintf("(rdField (fun t => readArrayWith (%s.readFrom %s)) (fun t x => { t with %s := t.%s ++ x }))", el, zero, f, f)
			}
			if len(ce.Args) == 3 {
				f := x.fieldOf(ce.Args[2])
				if rd, ok := x.primitive(fun.Name, f); ok {
					x.gate(f, conds)
					return fmt.Sprintf("(rdField (fun _ => %s) (fun t x => { t with %s := x }))", rd, f)
				}
			}
		case *ast.SelectorExpr:
			// (&t.F).readFrom(r, remain)
			if fun.Sel.Name == "readFrom" && len(ce.Args) == 2 {
				inner := fun.X
				if p, ok := inner.(*ast.ParenExpr); ok {
					inner = p.X
				}
				f := x.fieldOf(inner)
				id, ok := x.goFieldType(f).(*ast.Ident)
				if !ok || !x.ready[id.Name] || x.c.versioned[id.Name] {
					bad("nested reader for field %s", f)
				}
				x.okFields = append(x.okFields, fmt.Sprintf("  %s_ok : %s.Ok t.%s", f, id.Name, f))
				x.haves = append(x.haves, fmt.Sprintf("  have a%s := fun r => %s.read_write t.%s h.%s_ok r", f, id.Name, f, f))
				x.gate(f, conds)
				return fmt.Sprintf("(rdField (fun t => %s.readFrom t.%s) (fun t x => { t with %s := x }))", id.Name, f, f)
			}
		}
		bad("reader call %s", x.c.src(ce))
		return ""
	}
	for _, st := range list {
		switch s := st.(type) {
		case *ast.IfStmt:
			if s.Init != nil {
				as, ok := s.Init.(*ast.AssignStmt)
				if !ok || len(as.Rhs) != 1 || s.Else != nil {
					bad("reader statement %s", x.c.src(st))
				}
				// the error test and the early return
				if b, ok := s.Cond.(*ast.BinaryExpr); !ok || b.Op != token.NEQ || x.c.src(b.Y) != "nil" {
					bad("reader statement %s", x.c.src(st))
				}
				if len(s.Body.List) != 1 {
					bad("reader statement %s", x.c.src(st))
				}
				if _, ok := s.Body.List[0].(*ast.ReturnStmt); !ok {
					bad("reader statement %s", x.c.src(st))
				}
				ce, ok := as.Rhs[0].(*ast.CallExpr)
				if !ok {
					bad("reader statement %s", x.c.src(st))
				}
				steps = append(steps, call(ce))
				continue
			}
			if s.Else != nil {
				bad("reader statement %s", x.c.src(st))
			}
			c := x.versionCond(s.Cond)
			prop := strings.TrimSuffix(strings.TrimPrefix(c, "decide ("), ")")
			x.condSet[prop] = true
			inner := x.stmts(s.Body.List, append(append([]string{}, conds...), prop))
			steps = append(steps, fmt.Sprintf("(rdIf (fun t => %s) %s)", c, chain(inner)))
		case *ast.AssignStmt:
			// remain, err = readX(r, size, &t.F)   (the error is returned by the statement that follows)
			if len(s.Lhs) == 2 && len(s.Rhs) == 1 && s.Tok == token.ASSIGN {
				if ce, ok := s.Rhs[0].(*ast.CallExpr); ok {
					steps = append(steps, call(ce))
					continue
				}
			}
			if len(s.Lhs) == 1 && len(s.Rhs) == 1 {
				if fl, ok := s.Rhs[0].(*ast.FuncLit); ok {
					id, ok := s.Lhs[0].(*ast.Ident)
					if !ok {
						bad("reader statement %s", x.c.src(st))
					}
					x.closures[id.Name] = x.closure(fl)
					continue
				}
				// remain = size
				if l, ok := s.Lhs[0].(*ast.Ident); ok && s.Tok == token.ASSIGN {
					if r, ok := s.Rhs[0].(*ast.Ident); ok && l.Name == "remain" && (r.Name == "size" || r.Name == "sz") {
						continue
					}
				}
			}
			bad("reader statement %s", x.c.src(st))
		case *ast.ReturnStmt:
			if len(s.Results) == 0 {
				continue
			}
			if len(s.Results) == 1 {
				if ce, ok := s.Results[0].(*ast.CallExpr); ok {
					steps = append(steps, call(ce))
					continue
				}
			}
			bad("reader statement %s", x.c.src(st))
		default:
			bad("reader statement %s", x.c.src(st))
		}
	}
	return steps
}

func chain(steps []string) string {
	out := "rdDone"
	for i := len(steps) - 1; i >= 0; i-- {
		out = "(rdSeq " + steps[i] + "\n    " + out + ")"
	}
	return out
}

// closure recognises the element callback of readArrayWith.
func (x *rdCtx) closure(fl *ast.FuncLit) [3]string {
	el, item, ver, target := "", "", "", ""
	for _, st := range fl.Body.List {
		switch s := st.(type) {
		case *ast.DeclStmt: // var item E
			gd, ok := s.Decl.(*ast.GenDecl)
			if !ok || len(gd.Specs) != 1 {
				bad("element closure: %s", x.c.src(st))
			}
			vs := gd.Specs[0].(*ast.ValueSpec)
			id, ok := vs.Type.(*ast.Ident)
			if !ok || len(vs.Names) != 1 || len(vs.Values) != 0 {
				bad("element closure: %s", x.c.src(st))
			}
			el, item = id.Name, vs.Names[0].Name
		case *ast.AssignStmt:
			if len(s.Lhs) != 1 || len(s.Rhs) != 1 {
				bad("element closure: %s", x.c.src(st))
			}
			if cl, ok := s.Rhs[0].(*ast.CompositeLit); ok && s.Tok == token.DEFINE { // item := E{} | E{v: t.v}
				id, ok := cl.Type.(*ast.Ident)
				if !ok {
					bad("element closure: %s", x.c.src(st))
				}
				el, item = id.Name, s.Lhs[0].(*ast.Ident).Name
				for _, e := range cl.Elts {
					kv, ok := e.(*ast.KeyValueExpr)
					if !ok || x.c.src(kv.Key) != "v" || x.c.src(kv.Value) != x.recv+".v" {
						bad("element closure: %s", x.c.src(st))
					}
					ver = "v"
				}
				continue
			}
			// t.F = append(t.F, item)
			if ce, ok := s.Rhs[0].(*ast.CallExpr); ok && s.Tok == token.ASSIGN {
				if fn, ok := ce.Fun.(*ast.Ident); ok && fn.Name == "append" && len(ce.Args) == 2 {
					if x.c.src(ce.Args[0]) == x.c.src(s.Lhs[0]) && x.c.src(ce.Args[1]) == item && item != "" {
						sel, ok := s.Lhs[0].(*ast.SelectorExpr)
						if ok && x.c.src(sel.X) == x.recv {
							target = sel.Sel.Name
							continue
						}
					}
				}
			}
			bad("element closure: %s", x.c.src(st))
		case *ast.IfStmt: // if fnRemain, fnErr = (&item).readFrom(r, size); fnErr != nil { return }
			as, ok := s.Init.(*ast.AssignStmt)
			if !ok || len(as.Rhs) != 1 {
				bad("element closure: %s", x.c.src(st))
			}
			ce, ok := as.Rhs[0].(*ast.CallExpr)
			if !ok {
				bad("element closure: %s", x.c.src(st))
			}
			sel, ok := ce.Fun.(*ast.SelectorExpr)
			if !ok || sel.Sel.Name != "readFrom" || (x.c.src(sel.X) != "(&"+item+")" && x.c.src(sel.X) != item) {
				bad("element closure: %s", x.c.src(st))
			}
		case *ast.ReturnStmt:
		default:
			bad("element closure: %s", x.c.src(st))
		}
	}
	if el == "" || target == "" {
		bad("element closure without element type / append target")
	}
	return [3]string{el, target, ver}
}

// translateReader returns the Lean text for T.zero / T.readFrom / T.Ok / T.read_write.  steps == nil: from readFrom's
// body; reflective: from the struct declaration.
func (c *lgCtx) translateReader(t *lgType, ready map[string]bool, reflective bool) (out string, err error) {
	defer func() {
		if r := recover(); r != nil {
			if u, ok := r.(untranslatable); ok {
				err = u
				return
			}
			panic(r)
		}
	}()
	if t.st == nil {
		bad("not a struct type")
	}
	if len(t.nilFlags) > 0 {
		bad("the writer distinguishes nil from empty for a field the reader cannot tell apart")
	}
	x := &rdCtx{c: c, t: t, closures: map[string][3]string{}, condSet: map[string]bool{}, read: map[string]bool{}, ready: ready}
	var steps []string
	if reflective {
		x.recv = "t"
		steps = x.reflectSteps()
	} else {
		x.recv, _ = recvOf(t.readFrom)
		steps = x.stmts(t.readFrom.Body.List, nil)
	}
	n := t.name
	versioned := c.versioned[n]
	var sb strings.Builder
	// zero value
	var zf []string
	for _, f := range t.st.Fields.List {
		for _, nm := range f.Names {
			if nm.Name == "v" {
				zf = append(zf, "v := v")
				continue
			}
			lt := c.leanType(f.Type)
			z := zeroOf(lt)
			if strings.HasSuffix(z, ".zero") {
				if !ready[lt] || c.versioned[lt] {
					bad("zero value of field %s : %s", nm.Name, lt)
				}
			}
			zf = append(zf, nm.Name+" := "+z)
			if !x.read[nm.Name] {
				x.okFields = append(x.okFields, fmt.Sprintf("  %s_unread : t.%s = %s", nm.Name, nm.Name, z))
			}
		}
	}
	zarg, zapp := "", n+".zero"
	if versioned {
		zarg, zapp = " (v : Int)", "("+n+".zero t.v)"
	}
	how := "readFrom"
	if reflective {
		how = "the reflective read() (struct fields in declaration order)"
	}
	if len(zf) == 0 {
		fmt.Fprintf(&sb, "def %s.zero%s : %s := {}\n", n, zarg, n)
	} else {
		fmt.Fprintf(&sb, "def %s.zero%s : %s := { %s }\n", n, zarg, n, strings.Join(zf, ", "))
	}
	fmt.Fprintf(&sb, "/-- %s of %s, statement by statement -/\ndef %s.readFrom : %s → Rd %s :=\n  %s\n", how, n, n, n, n, chain(steps))
	fmt.Fprintf(&sb, "/-- values the wire format can carry: field ranges; fields absent at the version are zero -/\nstructure %s.Ok (t : %s) : Prop where\n", n, n)
	if len(x.okFields) == 0 {
		sb.WriteString("  trivial : True\n")
	}
	for _, l := range x.okFields {
		sb.WriteString(l + "\n")
	}
	fmt.Fprintf(&sb, "/-- the reader inverts the writer -/\ntheorem %s.read_write (t : %s) (h : %s.Ok t) (rest : Bytes) :\n    %s.readFrom %s (%s.writeTo t ++ rest) = some (t, rest) := by\n", n, n, n, n, zapp, n)
	for _, hv := range x.haves {
		sb.WriteString(hv + "\n")
	}
	sb.WriteString("  cases h\n")
	var conds []string
	for p := range x.condSet {
		conds = append(conds, p)
	}
	sort.Strings(conds)
	for i, p := range conds {
		fmt.Fprintf(&sb, "  by_cases c%d : %s <;>\n", i, p)
	}
	fmt.Fprintf(&sb, "  · cases t\n    simp_all [%s.readFrom, %s.writeTo, %s.zero, rdSeq, rdField, rdIf, rdDone]\n", n, n, n)
	return sb.String(), nil
}

// reflectSteps: read.go readStruct — every field of the struct, in declaration order, by its Go type.
func (x *rdCtx) reflectSteps() []string {
	var steps []string
	for _, f := range x.t.st.Fields.List {
		for _, nm := range f.Names {
			name := nm.Name
			add := func(format string, a ...interface{}) { x.okFields = append(x.okFields, fmt.Sprintf(format, a...)) }
			x.read[name] = true
			switch ft := f.Type.(type) {
			case *ast.Ident:
				prim := map[string]string{"int8": "readInt8", "int16": "readInt16", "int32": "readInt32", "int64": "readInt64", "bool": "readBool", "string": "readString"}
				if rd, ok := prim[ft.Name]; ok {
					if _, ok := x.primitive(rd, name); !ok {
						bad("reflective field %s", name)
					}
					steps = append(steps, fmt.Sprintf("(rdField (fun _ => %s) (fun t x => { t with %s := x }))", rd, name))
					continue
				}
				if x.ready[ft.Name] && !x.c.versioned[ft.Name] {
					add("  %s_ok : %s.Ok t.%s", name, ft.Name, name)
					x.haves = append(x.haves, fmt.Sprintf("  have a%s := fun r => %s.read_write t.%s h.%s_ok r", name, ft.Name, name, name))
					steps = append(steps, fmt.Sprintf("(rdField (fun t => %s.readFrom t.%s) (fun t x => { t with %s := x }))", ft.Name, name, name))
					continue
				}
			case *ast.ArrayType:
				if ft.Len == nil {
					if id, ok := ft.Elt.(*ast.Ident); ok {
						switch {
						case id.Name == "byte" || id.Name == "uint8":
							x.primitive("readBytes", name)
							steps = append(steps, fmt.Sprintf("(rdField (fun _ => readBytes) (fun t x => { t with %s := x }))", name))
							continue
						case id.Name == "string":
							x.primitive("readStringArray", name)
							steps = append(steps, fmt.Sprintf("(rdField (fun _ => readStringArray) (fun t x => { t with %s := x }))", name))
							continue
						case id.Name == "int32":
							add("  %s_ok : ∀ x ∈ t.%s, inRng 32 x", name, name)
							add("  %s_len : t.%s.length < 2 ^ 31", name, name)
							steps = append(steps, fmt.Sprintf("(rdField (fun _ => readInt32Array) (fun t x => { t with %s := x }))", name))
							continue
						case x.ready[id.Name] && !x.c.versioned[id.Name]:
							el := id.Name
							add("  %s_len : t.%s.length < 2 ^ 31", name, name)
							add("  %s_ok : ∀ x ∈ t.%s, %s.Ok x", name, name, el)
							x.haves = append(x.haves, fmt.Sprintf("  have a%s := fun r => readArrayWith_writeArray (%s.readFrom %s.zero) %s.writeTo t.%s r\n    (fun x hx r => %s.read_write x (h.%s_ok x hx) r) h.%s_len",
								name, el, el, el, name, el, name, name))
							steps = append(steps, fmt.Sprintf("(rdField (fun _ => readArrayWith (%s.readFrom %s.zero)) (fun t x => { t with %s := x }))", el, el, name))
							continue
						}
					}
				}
			}
			bad("reflective field %s of type %s", name, x.c.src(f.Type))
		}
	}
	return steps
}
