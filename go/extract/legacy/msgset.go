package main

// The message-set (magic 1) writer behind `writeProduceRequestV2`: `messageSize`, `messageSetSize`,
// `(*writeBuffer).writeMessage` and the post-condition of `compressMessageSet`, read from write.go.
//
//	def messageSize (key value : Bytes) : Int                       the `return 4 + 1 + …` expression
//	def messageSetSize (msgs : List Message) : Int                  sumInt over the `size += …` expression of the loop
//	def writeMessage.checksummed …  : Bytes                         the `cw.write…` dry run the CRC is computed over
//	def writeMessage (crc : Bytes → Int) … : Bytes                  the `wb.write…` calls
//	theorem writeMessage.crc_covers                                 what is checksummed is exactly what follows the CRC field
//	theorem writeMessage.legacy_size                                the message-size field announces the bytes after it
//	theorem messageSet_len                                          bytes written for msgs = messageSetSize msgs
//
// A Message is its offset, millisecond timestamp, key and value (nil ≈ empty: both are 4 length bytes).

import (
	"fmt"
	"go/ast"
	"go/token"
	"strings"
)

type mEnv struct {
	c      *lgCtx
	vars   map[string]string
	consts map[string]string
}

func (e *mEnv) expr(x ast.Expr) string {
	switch v := x.(type) {
	case *ast.ParenExpr:
		return "(" + e.expr(v.X) + ")"
	case *ast.BasicLit:
		if v.Kind == token.INT {
			return "(" + v.Value + " : Int)"
		}
	case *ast.Ident:
		if l, ok := e.vars[v.Name]; ok {
			return l
		}
		if l, ok := e.consts[v.Name]; ok {
			return l
		}
	case *ast.SelectorExpr:
		if id, ok := v.X.(*ast.Ident); ok {
			if l, ok := e.vars[id.Name]; ok {
				switch v.Sel.Name {
				case "Key", "Value", "Offset", "Time":
					return l + "." + v.Sel.Name
				}
			}
		}
	case *ast.BinaryExpr:
		if v.Op == token.ADD {
			return "(" + e.expr(v.X) + " + " + e.expr(v.Y) + ")"
		}
	case *ast.CallExpr:
		if id, ok := v.Fun.(*ast.Ident); ok {
			switch {
			case len(v.Args) == 1 && (id.Name == "int8" || id.Name == "int16" || id.Name == "int32" || id.Name == "int64"):
				return e.expr(v.Args[0])
			case len(v.Args) == 1 && id.Name == "timestamp":
				return e.expr(v.Args[0]) // a Message's Time is modelled as its millisecond timestamp
			case len(v.Args) == 1 && id.Name == "sizeofBytes":
				return "(sizeofBytes " + e.expr(v.Args[0]) + ")"
			case len(v.Args) == 2 && id.Name == "messageSize":
				return "(messageSize " + e.expr(v.Args[0]) + " " + e.expr(v.Args[1]) + ")"
			}
		}
	}
	bad("message-set expression %s", e.c.src(x))
	return ""
}

// flatFields lists (name, type text) of a parameter / result list.
func (c *lgCtx) flatFields(fl *ast.FieldList) (names, types []string) {
	if fl == nil {
		return
	}
	for _, f := range fl.List {
		t := strings.Join(strings.Fields(c.src(f.Type)), " ")
		if len(f.Names) == 0 {
			names, types = append(names, ""), append(types, t)
		}
		for _, n := range f.Names {
			names, types = append(names, n.Name), append(types, t)
		}
	}
	return
}

func sameTypes(got []string, want ...string) bool {
	if len(got) != len(want) {
		return false
	}
	for i := range got {
		if got[i] != want[i] {
			return false
		}
	}
	return true
}

func (c *lgCtx) translateMsgSet(funcs map[string]*ast.FuncDecl) (out string, err error) {
	defer func() {
		if r := recover(); r != nil {
			if u, ok := r.(untranslatable); ok {
				err = u
				return
			}
			panic(r)
		}
	}()
	norm := func(n ast.Node) string { return strings.Join(strings.Fields(c.src(n)), " ") }
	for _, n := range []string{"messageSize", "messageSetSize", "writeMessage", "compressMessageSet"} {
		if funcs[n] == nil {
			bad("function %s not found", n)
		}
	}
	var sb strings.Builder
	sb.WriteString("/-- a kafka.Message as the message-set writer sees it: offset, millisecond timestamp, key, value -/\nstructure Message where\n  Offset : Int\n  Time : Int\n  Key : Bytes\n  Value : Bytes\n")
	// messageSize(key, value []byte) int32 { return … }
	{
		fd := funcs["messageSize"]
		pn, pt := c.flatFields(fd.Type.Params)
		if !sameTypes(pt, "[]byte", "[]byte") || len(fd.Body.List) != 1 {
			bad("messageSize: %s", norm(fd.Type))
		}
		rs, ok := fd.Body.List[0].(*ast.ReturnStmt)
		if !ok || len(rs.Results) != 1 {
			bad("messageSize body")
		}
		e := &mEnv{c: c, vars: map[string]string{pn[0]: "key", pn[1]: "value"}}
		fmt.Fprintf(&sb, "def messageSize (key value : Bytes) : Int :=\n  %s\n", e.expr(rs.Results[0]))
	}
	// messageSetSize(msgs ...Message) (size int32) { for _, msg := range msgs { size += … }; return }
	{
		fd := funcs["messageSetSize"]
		pn, pt := c.flatFields(fd.Type.Params)
		rn, rt := c.flatFields(fd.Type.Results)
		if !sameTypes(pt, "...Message") || !sameTypes(rt, "int32") || rn[0] == "" || len(fd.Body.List) != 2 {
			bad("messageSetSize: %s", norm(fd.Type))
		}
		rg, ok := fd.Body.List[0].(*ast.RangeStmt)
		if !ok || norm(rg.Key) != "_" || rg.Value == nil || norm(rg.X) != pn[0] || len(rg.Body.List) != 1 {
			bad("messageSetSize loop")
		}
		as, ok := rg.Body.List[0].(*ast.AssignStmt)
		if !ok || as.Tok != token.ADD_ASSIGN || norm(as.Lhs[0]) != rn[0] {
			bad("messageSetSize loop body %s", norm(rg.Body.List[0]))
		}
		if rs, ok := fd.Body.List[1].(*ast.ReturnStmt); !ok || len(rs.Results) != 0 {
			bad("messageSetSize return")
		}
		e := &mEnv{c: c, vars: map[string]string{norm(rg.Value): "msg"}}
		fmt.Fprintf(&sb, "def messageSetSize (msgs : List Message) : Int :=\n  sumInt (msgs.map fun msg => %s)\n", e.expr(as.Rhs[0]))
	}
	// writeMessage
	{
		fd := funcs["writeMessage"]
		pn, pt := c.flatFields(fd.Type.Params)
		if !sameTypes(pt, "int64", "int8", "time.Time", "[]byte", "[]byte", "*crc32Writer") {
			bad("writeMessage: %s", norm(fd.Type))
		}
		cw := pn[5]
		wbName, _ := recvOf(fd)
		e := &mEnv{c: c, vars: map[string]string{pn[0]: "offset", pn[1]: "attributes", pn[2]: "time", pn[3]: "key", pn[4]: "value"}, consts: map[string]string{}}
		var dry, out []string
		reset := false
		prim := map[string]bool{"writeInt8": true, "writeInt16": true, "writeInt32": true, "writeInt64": true, "writeBytes": true}
		for _, st := range fd.Body.List {
			switch s := st.(type) {
			case *ast.DeclStmt:
				gd, ok := s.Decl.(*ast.GenDecl)
				if !ok || gd.Tok != token.CONST {
					bad("writeMessage: %s", norm(st))
				}
				for _, sp := range gd.Specs {
					vs := sp.(*ast.ValueSpec)
					if len(vs.Names) != 1 || len(vs.Values) != 1 {
						bad("writeMessage: %s", norm(st))
					}
					e.consts[vs.Names[0].Name] = e.expr(vs.Values[0])
				}
			case *ast.AssignStmt:
				if norm(st) == cw+".crc32 = 0" {
					if len(dry) > 0 {
						bad("writeMessage: checksum reset after the dry run started")
					}
					reset = true
					continue
				}
				if s.Tok != token.DEFINE || len(s.Lhs) != 1 || len(s.Rhs) != 1 {
					bad("writeMessage: %s", norm(st))
				}
				e.vars[norm(s.Lhs[0])] = e.expr(s.Rhs[0])
			case *ast.ExprStmt:
				call, ok := s.X.(*ast.CallExpr)
				if !ok || len(call.Args) != 1 {
					bad("writeMessage: %s", norm(st))
				}
				sel, ok := call.Fun.(*ast.SelectorExpr)
				if !ok || !prim[sel.Sel.Name] {
					bad("writeMessage: %s", norm(st))
				}
				switch norm(sel.X) {
				case cw:
					if len(out) > 0 {
						bad("writeMessage: dry run after output started")
					}
					dry = append(dry, "("+sel.Sel.Name+" "+e.expr(call.Args[0])+")")
				case wbName:
					if norm(call.Args[0]) == "int32("+cw+".crc32)" {
						if sel.Sel.Name != "writeInt32" {
							bad("writeMessage: %s", norm(st))
						}
						out = append(out, "(writeInt32 (crc (writeMessage.checksummed attributes time key value)))")
					} else {
						out = append(out, "("+sel.Sel.Name+" "+e.expr(call.Args[0])+")")
					}
				default:
					bad("writeMessage: %s", norm(st))
				}
			default:
				bad("writeMessage: %s", norm(st))
			}
		}
		if !reset || len(dry) == 0 || len(out) < 4 {
			bad("writeMessage: no checksum reset / dry run / output")
		}
		fmt.Fprintf(&sb, "/-- the dry run `cw.write…` the CRC is computed over -/\ndef writeMessage.checksummed (attributes time : Int) (key value : Bytes) : Bytes :=\n  %s\n", strings.Join(dry, " ++ "))
		fmt.Fprintf(&sb, "def writeMessage (crc : Bytes → Int) (offset attributes time : Int) (key value : Bytes) : Bytes :=\n  %s\n", strings.Join(out, " ++ "))
		sb.WriteString("/-- offset, size, CRC, and then exactly the bytes the CRC was computed over -/\ntheorem writeMessage.crc_covers (crc : Bytes → Int) (offset attributes time : Int) (key value : Bytes) :\n    writeMessage crc offset attributes time key value =\n      writeInt64 offset ++ writeInt32 (messageSize key value) ++ writeInt32 (crc (writeMessage.checksummed attributes time key value)) ++\n        writeMessage.checksummed attributes time key value := by\n  simp [writeMessage, writeMessage.checksummed, List.append_assoc]\n")
		sb.WriteString("/-- the message-size field announces the bytes that follow it -/\ntheorem writeMessage.legacy_size (crc : Bytes → Int) (offset attributes time : Int) (key value : Bytes) :\n    ((writeMessage crc offset attributes time key value).length : Int) = 8 + 4 + messageSize key value := by\n  simp only [writeMessage, messageSize, List.length_append, Int.natCast_add, len_writeInt8, len_writeInt32, len_writeInt64, len_writeBytes]\n  simp only [sizeofBytes]\n  omega\n")
		sb.WriteString("/-- the bytes written for a message set are `messageSetSize` many -/\ntheorem messageSet_len (crc : Bytes → Int) (attributes : Int) (msgs : List Message) :\n    ((writeEach msgs (fun msg => writeMessage crc msg.Offset attributes msg.Time msg.Key msg.Value)).length : Int) = messageSetSize msgs := by\n  rw [len_writeEach, messageSetSize]\n  congr 1\n  apply List.map_congr_left\n  intro m _\n  rw [writeMessage.legacy_size]\n  simp only [messageSize, sizeofBytes]\n  omega\n")
	}
	// compressMessageSet: the values it returns
	{
		fd := funcs["compressMessageSet"]
		rn, rt := c.flatFields(fd.Type.Results)
		if !sameTypes(rt, "*bytes.Buffer", "int8", "int32", "error") || rn[0] == "" || rn[2] == "" {
			bad("compressMessageSet results %s", norm(fd.Type))
		}
		found := false
		for _, st := range fd.Body.List {
			if norm(st) == rn[2]+" = messageSetSize(Message{Value: "+rn[0]+".Bytes()})" {
				found = true
			}
		}
		if !found {
			bad("compressMessageSet does not return size = messageSetSize(Message{Value: compressed.Bytes()})")
		}
	}
	return sb.String(), nil
}
